#[cfg(kani)]
mod kani_probe {
    use super::*;
    use swc_core::common::{comments::NoopComments, Globals, GLOBALS};

    fn sym_str<const N: usize>(buf: &[u8; N], len: usize) -> Option<&str> {
        std::str::from_utf8(&buf[..len]).ok()
    }

    // Probe A: transform_text over symbolic bytes
    #[kani::proof]
    #[kani::unwind(8)]
    fn probe_text3() {
        let b: [u8; 3] = kani::any();
        let len: usize = kani::any();
        kani::assume(len <= 3);
        if let Some(s) = sym_str(&b, len) {
            let out = util::transform_text(s);
            assert!(out.len() <= len);
        }
    }

    // Probe A2: ascii only
    #[kani::proof]
    #[kani::unwind(8)]
    fn probe_text3_ascii() {
        let b: [u8; 3] = kani::any();
        kani::assume(b[0] < 128 && b[1] < 128 && b[2] < 128);
        let len: usize = kani::any();
        kani::assume(len <= 3);
        let s = unsafe { std::str::from_utf8_unchecked(&b[..len]) };
        let out = util::transform_text(s);
        assert!(out.len() <= len);
    }

    // Probe B: Atom from symbolic ascii string
    #[kani::proof]
    #[kani::unwind(8)]
    fn probe_atom() {
        let b: [u8; 3] = kani::any();
        kani::assume(b[0] < 128 && b[1] < 128 && b[2] < 128);
        let s = unsafe { std::str::from_utf8_unchecked(&b[..]) };
        let a = Atom::from(s);
        assert!(&*a == s);
        let attr = JSXAttr {
            span: DUMMY_SP,
            name: JSXAttrName::Ident(IdentName::new(a, DUMMY_SP)),
            value: None,
        };
        let r = is_directive(&attr);
        assert_eq!(r, b[0] == b'v' && (b[1] == b'-' || (b[1] >= b'A' && b[1] <= b'Z')));
        std::mem::forget(attr);
    }

    pub(super) static mut NEXT_MARK: u32 = 1;
    pub(super) fn stub_mark_fresh(_parent: Mark) -> Mark {
        unsafe {
            let m = NEXT_MARK;
            NEXT_MARK += 1;
            Mark::from_u32(m)
        }
    }
    pub(super) fn stub_apply_mark(this: SyntaxContext, mark: Mark) -> SyntaxContext {
        assert!(this.as_u32() == 0);
        SyntaxContext::from_u32(mark.as_u32())
    }
    pub(super) fn stub_remove_mark(this: &mut SyntaxContext) -> Mark {
        let m = Mark::from_u32(this.as_u32());
        *this = SyntaxContext::empty();
        m
    }

    pub(super) static mut DIAGS: u32 = 0;
    pub(super) fn stub_span_err<S: Into<swc_core::common::MultiSpan>>(_this: &swc_core::common::errors::Handler, _sp: S, _msg: &str) {
        unsafe { DIAGS += 1; }
    }

    // Probe C: full element, symbolic optimize
    #[kani::proof]
    #[kani::stub(swc_core::common::errors::Handler::span_err, stub_span_err)]
    #[kani::unwind(12)]
    #[kani::stub(swc_core::common::Mark::fresh, stub_mark_fresh)]
    #[kani::stub(swc_core::common::SyntaxContext::apply_mark, stub_apply_mark)]
    #[kani::stub(swc_core::common::SyntaxContext::remove_mark, stub_remove_mark)]
    fn probe_element() {
        {
            let unresolved = Mark::new();
            let mut opts = Options::default();
            opts.optimize = kani::any();
            let mut v = VueJsxTransformVisitor::<NoopComments>::new(opts, unresolved, None);
            let el = JSXElement {
                span: DUMMY_SP,
                opening: JSXOpeningElement {
                    name: JSXElementName::Ident(Ident::new_no_ctxt("div".into(), DUMMY_SP)),
                    span: DUMMY_SP,
                    attrs: vec![JSXAttrOrSpread::JSXAttr(JSXAttr {
                        span: DUMMY_SP,
                        name: JSXAttrName::Ident(IdentName::new("id".into(), DUMMY_SP)),
                        value: Some(JSXAttrValue::JSXExprContainer(JSXExprContainer {
                            span: DUMMY_SP,
                            expr: JSXExpr::Expr(Box::new(Expr::Ident(Ident::new_no_ctxt("x".into(), DUMMY_SP)))),
                        })),
                    })],
                    self_closing: true,
                    type_args: None,
                },
                children: vec![],
                closing: None,
            };
            let out = v.transform_jsx_element(&el);
            match &out {
                Expr::Call(c) => {
                    assert!(c.args.len() == if v.options.optimize { 5 } else { 3 });
                }
                _ => panic!("not a call"),
            }
            std::mem::forget(out);
            std::mem::forget(el);
            std::mem::forget(v);
        }
    }
}

#[cfg(kani)]
mod kani_probe2 {
    use super::*;

    #[kani::proof]
    #[kani::unwind(20)]
    fn probe_atom_inline_concrete() {
        let a = Atom::from("abc");
        assert!(a.len() == 3);
        std::mem::forget(a);
    }

    #[kani::proof]
    #[kani::unwind(20)]
    fn probe_atom_dyn_concrete() {
        let a = Atom::from("defineComponent");
        assert!(a.len() == 15);
        std::mem::forget(a);
    }

    #[kani::proof]
    #[kani::unwind(20)]
    fn probe_atom_eq() {
        let a = Atom::from("abc");
        let b = Atom::from("abd");
        assert!(a != b);
        assert!(&a == "abc");
        std::mem::forget(a);
        std::mem::forget(b);
    }
}

#[cfg(kani)]
mod kani_probe3 {
    use super::*;

    #[kani::proof]
    #[kani::unwind(3)]
    fn probe_clone_expr() {
        let e: Box<Expr> = Box::new(Expr::Ident(Ident::new_no_ctxt("x".into(), DUMMY_SP)));
        let c = e.clone();
        assert!(c.is_ident());
        std::mem::forget(c);
        std::mem::forget(e);
    }

    #[kani::proof]
    #[kani::unwind(3)]
    fn probe_clone_lit() {
        let e = JSXAttrValue::Lit(Lit::Str(Str { span: DUMMY_SP, value: "ab".into(), raw: None }));
        let v = vec![e];
        let c = v[0].clone();
        assert!(matches!(c, JSXAttrValue::Lit(Lit::Str(..))));
        std::mem::forget(c);
        std::mem::forget(v);
    }
}

#[cfg(kani)]
mod kani_probe4 {
    use super::*;

    fn mk_attr(name: &str) -> JSXAttrOrSpread {
        JSXAttrOrSpread::JSXAttr(JSXAttr {
            span: DUMMY_SP,
            name: JSXAttrName::Ident(IdentName::new(name.into(), DUMMY_SP)),
            value: Some(JSXAttrValue::JSXExprContainer(JSXExprContainer {
                span: DUMMY_SP,
                expr: JSXExpr::Expr(Box::new(Expr::Ident(Ident::new_no_ctxt("x".into(), DUMMY_SP)))),
            })),
        })
    }

    #[kani::proof]
    #[kani::unwind(12)]
    fn p1_is_directive_heap() {
        let v = vec![mk_attr("id")];
        let r = match &v[0] { JSXAttrOrSpread::JSXAttr(a) => is_directive(a), _ => true };
        assert!(!r);
        std::mem::forget(v);
    }

    #[kani::proof]
    #[kani::unwind(12)]
    fn p2_atom_eq_heap() {
        let v = vec![mk_attr("ref")];
        let r = match &v[0] { JSXAttrOrSpread::JSXAttr(JSXAttr{ name: JSXAttrName::Ident(i), ..}) => &*i.sym == "ref", _ => false };
        assert!(r);
        std::mem::forget(v);
    }

    #[kani::proof]
    #[kani::unwind(12)]
    fn p3_const_heap() {
        let v = vec![mk_attr("id")];
        let r = match &v[0] { JSXAttrOrSpread::JSXAttr(a) => a.value.as_ref().map(util::is_jsx_attr_value_constant).unwrap_or_default(), _ => true };
        assert!(!r);
        std::mem::forget(v);
    }
}

#[cfg(kani)]
mod kani_probe5 {
    use super::*;
    #[kani::proof]
    #[kani::unwind(4)]
    fn p4_ptr_in_heap() {
        let v: Vec<Box<Expr>> = vec![Box::new(Expr::Ident(Ident::new_no_ctxt("x".into(), DUMMY_SP)))];
        let r = match &*v[0] { Expr::Ident(..) => 1, other => { let c = other.clone(); std::mem::forget(c); 2 } };
        assert!(r == 1);
        std::mem::forget(v);
    }
    #[kani::proof]
    #[kani::unwind(4)]
    fn p5_ptr_on_stack() {
        let v: [Box<Expr>; 1] = [Box::new(Expr::Ident(Ident::new_no_ctxt("x".into(), DUMMY_SP)))];
        let r = match &*v[0] { Expr::Ident(..) => 1, other => { let c = other.clone(); std::mem::forget(c); 2 } };
        assert!(r == 1);
        std::mem::forget(v);
    }
}

#[cfg(kani)]
mod kani_probe6 {
    use super::*;
    use swc_core::common::comments::{Comment, CommentKind, Comments};
    use swc_core::common::BytePos;

    // reference JSX text cleaning (Babel cleanJSXElementLiteralChild) over ASCII bytes
    fn ref_clean(b: &[u8]) -> Vec<u8> {
        // split lines on \r\n | \n | \r
        let mut lines: Vec<(usize, usize)> = Vec::new();
        let mut start = 0;
        let mut i = 0;
        while i < b.len() {
            if b[i] == b'\r' && i + 1 < b.len() && b[i + 1] == b'\n' {
                lines.push((start, i));
                i += 2;
                start = i;
            } else if b[i] == b'\n' || b[i] == b'\r' {
                lines.push((start, i));
                i += 1;
                start = i;
            } else {
                i += 1;
            }
        }
        lines.push((start, b.len()));
        let n = lines.len();
        let mut last_non_empty = usize::MAX;
        let mut k = 0;
        while k < n {
            let (s, e) = lines[k];
            let mut j = s;
            let mut non = false;
            while j < e { if b[j] != b' ' && b[j] != b'\t' { non = true; } j += 1; }
            if non { last_non_empty = k; }
            k += 1;
        }
        let mut out = Vec::new();
        let mut k = 0;
        while k < n {
            let (mut s, mut e) = lines[k];
            if k != 0 { while s < e && (b[s] == b' ' || b[s] == b'\t') { s += 1; } }
            if k != n - 1 { while e > s && (b[e - 1] == b' ' || b[e - 1] == b'\t') { e -= 1; } }
            if s < e {
                let mut j = s;
                while j < e { out.push(if b[j] == b'\t' { b' ' } else { b[j] }); j += 1; }
                if k != last_non_empty { out.push(b' '); }
            }
            k += 1;
        }
        out
    }

    macro_rules! text_len {
        ($name:ident, $n:expr, $u:expr) => {
            #[kani::proof]
            #[kani::unwind($u)]
            fn $name() {
                let b: [u8; $n] = kani::any();
                let mut i = 0;
                while i < $n { kani::assume(b[i] < 128); i += 1; }
                let s = unsafe { std::str::from_utf8_unchecked(&b[..]) };
                let out = util::transform_text(s);
                let exp = ref_clean(&b[..]);
                assert!(out.as_bytes() == &exp[..]);
            }
        };
    }
    text_len!(text_len1, 1, 4);
    text_len!(text_len2, 2, 5);
    text_len!(text_len3, 3, 6);

    struct OneComment(Atom);
    impl Comments for OneComment {
        fn add_leading(&self, _: BytePos, _: Comment) {}
        fn add_leading_comments(&self, _: BytePos, _: Vec<Comment>) {}
        fn has_leading(&self, _: BytePos) -> bool { true }
        fn move_leading(&self, _: BytePos, _: BytePos) {}
        fn take_leading(&self, _: BytePos) -> Option<Vec<Comment>> { None }
        fn get_leading(&self, _: BytePos) -> Option<Vec<Comment>> { None }
        fn add_trailing(&self, _: BytePos, _: Comment) {}
        fn add_trailing_comments(&self, _: BytePos, _: Vec<Comment>) {}
        fn has_trailing(&self, _: BytePos) -> bool { false }
        fn move_trailing(&self, _: BytePos, _: BytePos) {}
        fn take_trailing(&self, _: BytePos) -> Option<Vec<Comment>> { None }
        fn get_trailing(&self, _: BytePos) -> Option<Vec<Comment>> { None }
        fn add_pure_comment(&self, _: BytePos) {}
        fn with_leading<F, Ret>(&self, _: BytePos, f: F) -> Ret where Self: Sized, F: FnOnce(&[Comment]) -> Ret {
            let c = [Comment { kind: CommentKind::Block, span: DUMMY_SP, text: self.0.clone() }];
            let r = f(&c);
            std::mem::forget(c);
            r
        }
    }

    // pragma: comment text "@jsx" + 2 symbolic ascii bytes
    #[kani::proof]
    #[kani::unwind(10)]
    fn pragma_suffix2() {
        let mut b: [u8; 6] = *b"@jsx  ";
        b[4] = kani::any(); b[5] = kani::any();
        kani::assume(b[4] < 128 && b[5] < 128);
        let s = unsafe { std::str::from_utf8_unchecked(&b[..]) };
        let mut v = VueJsxTransformVisitor::<OneComment>::new(Options::default(), Mark::from_u32(1), Some(OneComment(Atom::from(s))));
        v.search_jsx_pragma(DUMMY_SP);
        // spec: `@jsx` must be followed by whitespace then a name; `@jsxX..` is another tag
        let is_ws = |c: u8| c == b' ' || c == b'\t' || c == b'\n' || c == b'\r' || c == 0x0b || c == 0x0c;
        if !is_ws(b[4]) {
            assert!(v.pragma.is_none());
        }
        std::mem::forget(v);
    }

    // directive name parsing, valueless attr, 4 symbolic bytes after "v"
    #[kani::proof]
    #[kani::unwind(10)]
    fn directive_name4() {
        let mut b: [u8; 4] = *b"vAbc";
        b[1] = kani::any(); b[2] = kani::any(); b[3] = kani::any();
        kani::assume(b[1].is_ascii_uppercase());
        kani::assume(b[2].is_ascii_alphabetic() && b[3].is_ascii_alphabetic());
        let s = unsafe { std::str::from_utf8_unchecked(&b[..]) };
        let attr = JSXAttr { span: DUMMY_SP, name: JSXAttrName::Ident(IdentName::new(Atom::from(s), DUMMY_SP)), value: None };
        let d = parse_directive(&attr, false);
        match &d {
            Directive::Normal(n) => {
                let nb = n.name.as_bytes();
                assert!(nb.len() == 3);
                assert!(nb[0] == b[1].to_ascii_lowercase());
                assert!(nb[1] == b[2] && nb[2] == b[3]);
            }
            _ => {}
        }
        std::mem::forget(d);
        std::mem::forget(attr);
    }
}

#[cfg(kani)]
mod kani_probe7 {
    use super::*;

    fn naive_memchr(x: u8, text: &[u8]) -> Option<usize> {
        let mut i = 0;
        while i < text.len() { if text[i] == x { return Some(i); } i += 1; }
        None
    }
    fn naive_memrchr(x: u8, text: &[u8]) -> Option<usize> {
        let mut i = text.len();
        while i > 0 { i -= 1; if text[i] == x { return Some(i); } }
        None
    }

    #[kani::proof]
    #[kani::unwind(4)]
    #[kani::stub(core::slice::memchr::memchr, naive_memchr)]
    #[kani::stub(core::slice::memchr::memrchr, naive_memrchr)]
    fn t1() {
        let b: [u8; 1] = kani::any();
        kani::assume(b[0] < 128);
        let s = unsafe { std::str::from_utf8_unchecked(&b[..]) };
        let out = util::transform_text(s);
        let o = out.as_bytes();
        // JSX rule for a single character: kept unless it is a line break; tab -> space
        if b[0] == b'\n' || b[0] == b'\r' { assert!(o.len() == 0); }
        else if b[0] == b'\t' { assert!(o.len() == 1 && o[0] == b' '); }
        else { assert!(o.len() == 1 && o[0] == b[0]); }
    }
}
