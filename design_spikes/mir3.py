#!/usr/bin/env python3
"""Throwaway spike v3: run transform_jsx_element from MIR on a parser-produced element; compare with native."""
import re, sys, copy
import mir2
from mir2 import Adt, Ref, Iter, Closure, FnPtr, Some, NONE, deref, FNS, call_closure, run, short

SP0 = lambda: Adt('Span', None, [0, 0], ['lo', 'hi'])
MARKS = {'next': 100}
HTML = set(re.findall(r'"([a-z0-9-]+)"', open(__import__('glob').glob(__import__('os').path.expanduser('~/.cargo/registry/src/*/css_dataset-0.3.0/src/tags.rs'))[0]).read()))

def find_fn(last):
    ks = [k for k in FNS if k.endswith('>::' + last) or k == last]
    assert len(ks) == 1, (last, ks)
    return ks[0]

orig_call = mir2.call
def call(fr, fn, args):
    f = fn.replace('bitflags::__private::', '')
    f = re.sub(r'swc_core::(ecma::ast|swc_atoms|common)::', '', f)
    a = args
    m = re.match(r'VueJsxTransformVisitor::<C>::(\w+)$', f)
    if m: return run(find_fn(m.group(1)), a)
    m = re.match(r'(util|directive|resolve_type)::(\w+)$', f)
    if m and m.group(2) in FNS: return run(m.group(2), a)
    d = lambda i=0: deref(a[i])
    if f.endswith('as Drop>::drop'): return None
    # ---- Vec / slice
    if re.match(r'Vec::<.*>::(new|with_capacity)$', f): return []
    if re.match(r'Vec::<.*>::push$', f): d().append(a[1]); return None
    if re.match(r'Vec::<.*>::(is_empty)$', f) or re.match(r'core::slice::<impl \[.*\]>::is_empty$', f): return len(d()) == 0
    if re.match(r'Vec::<.*>::len$', f) or re.match(r'core::slice::<impl \[.*\]>::len$', f): return len(d())
    if re.match(r'Vec::<.*>::as_slice$', f) or re.search(r'Vec<.*> as Deref(Mut)?>::deref(_mut)?$', f): return d()
    if re.match(r'Vec::<.*>::extend_from_slice$', f): d().extend(copy.deepcopy(list(deref(a[1])))); return None
    if re.match(r'Vec::<.*>::pop$', f):
        v = d(); return Some(v.pop()) if v else NONE()
    if f.startswith('std::mem::take::<Vec'):
        r = a[0]; v = r.get(); r.set([]); return v
    if re.match(r'Box::<\[.*\]>::new_uninit$', f): return mir2.BoxUninit()
    if f.startswith('std::boxed::box_assume_init_into_vec_unsafe'): return list(d().val)
    if re.match(r'core::slice::<impl \[.*\]>::fill$', f):
        v = d()
        for i in range(len(v)): v[i] = copy.deepcopy(a[1])
        return None
    if re.match(r'core::slice::<impl \[.*\]>::iter_mut$', f):
        v = d(); return Iter([Ref(lambda i=i: v[i], lambda x, i=i: v.__setitem__(i, x)) for i in range(len(v))])
    if re.search(r'Iterator>::fold::', f):
        it, init, c = a; acc = init
        for x in it.rest(): acc = call_closure(c, [acc, x])
        return acc
    if re.search(r'Iterator>::(find_map|any|all)::', f):
        kind = re.search(r'Iterator>::(find_map|any|all)::', f).group(1); it = d(); c = a[1]
        for x in it.rest():
            r = call_closure(c, [x])
            if kind == 'find_map' and r.variant == 'Some': return r
            if kind == 'any' and r: return True
            if kind == 'all' and not r: return False
        return {'find_map': NONE(), 'any': False, 'all': True}[kind]
    if re.search(r'Iterator>::collect::<Vec', f): return a[0].rest()
    if re.search(r'Iterator>::map::', f) and isinstance(a[0], list): return Iter([call_closure(a[1], [x]) for x in a[0]])
    if re.search(r'as IntoIterator>::into_iter$', f): return Iter(d() if not isinstance(a[0], Iter) else a[0].rest())
    # ---- strings / Cow
    if re.search(r'as (std::convert::)?From<.*>>::from$', f) and 'Cow' in f: return d()
    if re.search(r"Cow<'_, str> as (Clone|Deref)>", f) or f.endswith('as Clone>::clone') : return copy.deepcopy(d())
    if re.search(r'as PartialEq<.*>>::eq$', f) or f.endswith('as PartialEq>::eq'): return deref(deref(a[0])) == deref(deref(a[1]))
    if re.search(r'as PartialEq(<.*>)?>::ne$', f): return deref(deref(a[0])) != deref(deref(a[1]))
    if f.endswith('::eq_ignore_ascii_case'): return d().lower() == deref(a[1]).lower()
    if f.endswith('::is_ascii_lowercase'): return 97 <= d() <= 122
    if f.endswith('::starts_with::<&str>'): return d().startswith(deref(a[1]))
    if f.endswith('as ToString>::to_string'): return str(d())
    if f.startswith('phf::set::Set::<&str>::contains'): return deref(a[1]) in HTML
    if f.endswith('String::as_str') or f.endswith('as AsRef<str>>::as_ref'): return d()
    # ---- concrete string routines used by transform_text
    if f.startswith('str::<impl str>::replace::<char>'): return d().replace(a[1], deref(a[2]))
    if f.endswith('::lines'):
        t = d(); parts = t.split('\n')
        if parts and parts[-1] == '': parts = parts[:-1]
        out = []
        for k, l in enumerate(parts):
            if l.endswith('\r') and (k < len(t.split('\n')) - 1): l = l[:-1]
            out.append(l)
        return Iter(out)
    if f.endswith('Iterator>::enumerate'): return Iter(list(enumerate(a[0].rest())))
    if f.endswith('Iterator>::peekable'): return a[0]
    if 'Peekable::<' in f and f.endswith('::peek'):
        it = d(); return Some(Ref(lambda: it.items[it.pos], None)) if it.pos < len(it.items) else NONE()
    WS = '\t\n\x0b\x0c\r \x85\xa0\u1680\u2000\u2001\u2002\u2003\u2004\u2005\u2006\u2007\u2008\u2009\u200a\u2028\u2029\u202f\u205f\u3000'
    if f.endswith('::trim_end'): return d().rstrip(WS)
    if f.endswith('::trim_start'): return d().lstrip(WS)
    if f.endswith('::trim'): return d().strip(WS)
    if re.match(r'core::str::<impl str>::is_empty$', f) or f.endswith('String::is_empty'): return len(d()) == 0
    if f.startswith('slice::<impl [&str]>::join'): return deref(a[1]).join(d())
    # ---- format!
    if f.startswith('core::fmt::rt::Argument::<\'_>::new_display'): return str(deref(deref(d())))
    if f.startswith("Arguments::<'_>::new::<"):
        tpl = a[0]; argv = list(d(1)); out = ''; i = 0; b = tpl.encode('latin1') if isinstance(tpl, str) else bytes(tpl)
        while i < len(b):
            c = b[i]
            if c == 0: break
            if c < 0x80: out += b[i+1:i+1+c].decode(); i += 1 + c
            elif c == 0xc0: out += argv.pop(0); i += 1
            else: raise NotImplementedError(('fmt template', b))
        return out
    if f == 'format' or f.startswith('must_use::'): return a[0]
    # ---- hygiene
    if f == 'Mark::new': MARKS['next'] += 1; return MARKS['next']
    if f == 'SyntaxContext::empty': return 0
    if f == 'SyntaxContext::apply_mark': return a[1]
    if f == 'SyntaxContext::has_mark': return a[0] == a[1]
    if f == 'Ident::new': return Adt('Ident', None, [a[1], a[2], a[0], False], ['span', 'ctxt', 'sym', 'optional'])
    if f == 'Ident::to_id': return [d().fields[2], d().fields[1]]
    # ---- maps / sets
    if f.startswith('BTreeMap::<') and f.endswith('::entry'): return ('entry', d(), a[1])
    if f.startswith('std::collections::btree_map::Entry::<') and 'or_insert_with_key' in f:
        _, mp, key = a[0]
        for k, v in mp:
            if k == key: return Ref(lambda v=v: v, None)
        v = call_closure(a[1], [Ref(lambda: key, None)]); mp.append((key, v)); mp.sort(key=lambda kv: kv[0]); return Ref(lambda: v, None)
    if f.startswith('BTreeMap::<') and f.endswith('::get::<str>'):
        for k, v in d():
            if k == deref(a[1]): return Some(Ref(lambda v=v: v, None))
        return NONE()
    if f.startswith('IndexSet::<') and f.endswith('::new'): return []
    if f.startswith('IndexSet::<') and f.endswith('::insert'):
        s = d(); 
        if a[1] in s: return False
        s.append(a[1]); return True
    if f.startswith('IndexSet::<') and f.endswith('::is_empty'): return len(d()) == 0
    if re.match(r'std::option::Option::<.*>::Some$', f): return Some(a[0])
    # ---- Option extras
    m = re.match(r'std::option::Option::<.*?>::(\w+)', f)
    if m:
        meth = m.group(1); o = d()
        if meth == 'as_deref': return Some(Ref(lambda: o.fields[0], None)) if o.variant == 'Some' else NONE()
        if meth == 'unwrap_or_else': return o.fields[0] if o.variant == 'Some' else call_closure(a[1], [])
        if meth == 'or': return o if o.variant == 'Some' else a[1]
        if meth == 'get_or_insert_with':
            if o.variant == 'None':
                v = call_closure(a[1], []); o.variant = 'Some'; o.fields = [v]
            return Ref(lambda: o.fields[0], None)
        if meth == 'unwrap': return o.fields[0]
        if meth == 'take':
            r = a[0]; old = copy.copy(o); o.variant = 'None'; o.fields = []; return old
    if f.endswith('as Default>::default') or f.endswith('::default'):
        if 'CallExpr' in f: return Adt('CallExpr', None, [SP0(), 0, None, [], NONE()], ['span', 'ctxt', 'callee', 'args', 'type_args'])
        if 'ArrowExpr' in f: return Adt('ArrowExpr', None, [SP0(), 0, [], None, False, False, NONE(), NONE()], ['span', 'ctxt', 'params', 'body', 'is_async', 'is_generator', 'type_params', 'return_type'])
    if f.endswith('as Spanned>::span'): 
        v = d()
        while isinstance(v, Adt) and v.ty != 'Span':
            v = v.fields[0] if (v.names is None or 'span' not in v.names) else v.fields[v.names.index('span')]
        return v
    PF = {'TEXT': 1, 'CLASS': 2, 'STYLE': 4, 'PROPS': 8, 'FULL_PROPS': 16, 'HYDRATE_EVENTS': 32, 'STABLE_FRAGMENT': 64, 'KEYED_FRAGMENT': 128, 'UNKEYED_FRAGMENT': 256, 'NEED_PATCH': 512, 'DYNAMIC_SLOTS': 1024}
    if f.endswith('<impl PatchFlags>::empty'): return 0
    if f.endswith('<impl PatchFlags>::insert'): a[0].set(a[0].get() | a[1]); return None
    if f.endswith('<impl PatchFlags>::is_empty'): return d() == 0
    if f.endswith('<impl PatchFlags>::bits'): return d()
    if f == '<PatchFlags as PartialEq>::eq': return d() == deref(a[1])
    if re.search(r'bitflags|PatchFlags|InternalBitFlags', f):
        k = [x for x in FNS if short(x).replace('::<impl>', '') .endswith(f.split('::')[-1])]
    return orig_call(fr, fn, args)
mir2.call = call

def visitor(opts):
    O = Adt('Options', None, [opts.get('transform_on', False), opts.get('optimize', False), [], opts.get('merge_props', True), opts.get('enable_object_slots', True), NONE(), False],
            ['transform_on', 'optimize', 'custom_element_patterns', 'merge_props', 'enable_object_slots', 'pragma', 'resolve_type'])
    return Adt('VueJsxTransformVisitor', None, [O, [], NONE(), NONE(), [], [], 1, NONE(), NONE(), NONE(), [], 1, [], NONE(), []],
               ['options', 'vue_imports', 'transform_on_helper', 'define_component', 'interfaces', 'type_aliases', 'unresolved_mark', 'comments', 'pragma', 'slot_helper_ident', 'injecting_vars', 'slot_counter', 'slot_flag_stack', 'assignment_left', 'injecting_consts'])

def find(v, ty):
    if isinstance(v, Adt):
        if v.ty == ty: return v
        for f in v.fields:
            r = find(f, ty)
            if r: return r
    if isinstance(v, list):
        for f in v:
            r = find(f, ty)
            if r: return r

if __name__ == '__main__':
    txt = open(sys.argv[1]).read()
    pre = mir2.read_debug(re.search(r'^PRE (.*)$', txt, re.M).group(1))
    el = find(pre, 'JSXElement')
    v = visitor({'optimize': '--optimize' in sys.argv})
    try:
        out = run(find_fn('transform_jsx_element'), [Ref(lambda: v, None), Ref(lambda: el, None)])
        print('OUT', out)
        print('imports', [k for k, _ in v.fields[1]], 'steps', mir2.STEPS)
    except Exception as e:
        print('EXC', type(e).__name__, str(e)[:300])
        for t in mir2.TRACE[-5:]: print('   ', t[0][-45:], t[1], t[2][:260])
