#!/usr/bin/env python3
"""Throwaway spike v2: generic MIR interpreter (concrete values) run on parse_directive."""
import re, sys, glob, os
sys.setrecursionlimit(10000)
MIR = open('/scratch/visitor.mir').read()

# ------------------------------------------------------------ enum tables from sources
def parse_enums(paths):
    enums = {}
    for f in paths:
        s = open(f).read()
        for m in re.finditer(r'enum (\w+)\s*(?:<[^>{]*>)?\s*\{', s):
            name = m.group(1); i = m.end(); depth = 1; j = i
            while depth:
                if s[j] == '{': depth += 1
                elif s[j] == '}': depth -= 1
                j += 1
            body = re.sub(r'//[^\n]*', '', s[i:j-1]); body = re.sub(r'#\[[^\]]*\]', '', body, flags=re.S)
            vs = []; d = 0; cur = ''
            for ch in body:
                if ch in '({[': d += 1
                if ch in ')}]': d -= 1
                if ch == ',' and d == 0: vs.append(cur); cur = ''
                else: cur += ch
            if cur.strip(): vs.append(cur)
            enums[name] = [re.match(r'\s*(\w+)', v).group(1) for v in vs if re.match(r'\s*(\w+)', v)]
    return enums
REG = glob.glob(os.path.expanduser('~/.cargo/registry/src/*/swc_ecma_ast-8.1.0/src/*.rs'))
ENUMS = parse_enums(REG + glob.glob('/repo/visitor/src/*.rs'))
ENUMS.update({'Option': ['None', 'Some'], 'Result': ['Ok', 'Err'], 'Cow': ['Borrowed', 'Owned']})

# ------------------------------------------------------------ values
class Adt:
    def __init__(self, ty, variant, fields, names=None): self.ty, self.variant, self.fields, self.names = ty, variant, list(fields), names
    def __repr__(self):
        head = (self.ty or '') + ('::' + self.variant if self.variant else '')
        if self.names: return head + '{' + ', '.join(f'{n}: {v!r}' for n, v in zip(self.names, self.fields)) + '}'
        return head + ('(' + ', '.join(map(repr, self.fields)) + ')' if self.fields else '')
class Ref:
    def __init__(self, get, set): self.get, self.set = get, set
    def __repr__(self): return '&' + repr(self.get())
class BoxUninit:
    def __init__(self): self.val = None
class Iter:
    def __init__(self, items): self.items = list(items); self.pos = 0
    def rest(self): r = self.items[self.pos:]; self.pos = len(self.items); return r
class Closure:
    def __init__(self, span, env): self.span, self.env = span, env
class FnPtr:
    def __init__(self, name): self.name = name
def Some(x): return Adt('Option', 'Some', [x])
NONE = lambda: Adt('Option', 'None', [])
def deref(v):
    while isinstance(v, Ref): v = v.get()
    return v

# ------------------------------------------------------------ read Debug dump into values
def read_debug(s):
    pos = 0
    def ws():
        nonlocal pos
        while pos < len(s) and s[pos] in ' \n': pos += 1
    def parse():
        nonlocal pos
        ws(); c = s[pos]
        if c == '"':
            m = re.compile(r'"((?:[^"\\]|\\.)*)"').match(s, pos); pos = m.end(); return bytes(m.group(1), 'utf8').decode('unicode_escape')
        if c == '[':
            pos += 1; items = []
            while True:
                ws()
                if s[pos] == ']': pos += 1; return items
                items.append(parse()); ws()
                if s[pos] == ',': pos += 1
        if c == '#':
            m = re.compile(r'#(\d+)').match(s, pos); pos = m.end(); return int(m.group(1))
        m = re.compile(r'(-?\d+)\.\.(\d+)').match(s, pos)
        if m: pos = m.end(); return Adt('Span', None, [int(m.group(1)), int(m.group(2))], ['lo', 'hi'])
        m = re.compile(r'-?\d+(\.\d+)?|[A-Za-z_][A-Za-z0-9_]*').match(s, pos); tok = m.group(0); pos = m.end(); ws()
        if pos < len(s) and s[pos] == '(':
            pos += 1; args = []
            while True:
                ws()
                if s[pos] == ')': pos += 1; return Adt(None, tok, args)
                args.append(parse()); ws()
                if s[pos] == ',': pos += 1
        if pos < len(s) and s[pos] == '{':
            pos += 1; names = []; vals = []
            while True:
                ws()
                if s[pos] == '}': pos += 1; return Adt(tok, None, vals, names)
                m = re.compile(r'\w+').match(s, pos); names.append(m.group(0)); pos = m.end(); ws(); pos += 1
                vals.append(parse()); ws()
                if s[pos] == ',': pos += 1
        if tok in ('true', 'false'): return tok == 'true'
        if re.fullmatch(r'-?\d+', tok): return int(tok)
        if re.fullmatch(r'-?\d+\.\d+', tok): return float(tok)
        return Adt(None, tok, [])      # unit variant (None, Evaluation, ...)
    return parse()

# ------------------------------------------------------------ MIR function table
FNS = {}; CLOSURES = {}
for chunk in re.split(r'\n(?=fn )', MIR):
    m = re.match(r'fn (.*?)\((_1: .*?)?\) -> ', chunk, re.S)
    if not m: continue
    name = m.group(1)
    body = chunk[:chunk.find('\n}\n') + 3] if '\n}\n' in chunk else chunk
    blocks = {}
    for bm in re.finditer(r'^    (bb\d+)(?: \(cleanup\))?: \{\n(.*?)^    \}', body, re.S | re.M):
        blocks[bm.group(1)] = [l.strip() for l in bm.group(2).strip().split('\n') if l.strip()]
    types = {}
    hdr = chunk[:chunk.find('{\n')]
    for pm in re.finditer(r'(_\d+): ', hdr): pass
    # param types
    ps = m.group(2) or ''
    for pm in re.finditer(r'(_\d+): (.*?)(?=, _\d+: |$)', ps, re.S): types[pm.group(1)] = pm.group(2).strip()
    for lm in re.finditer(r'^\s+let (?:mut )?(_\d+): (.*);', body, re.M): types[lm.group(1)] = lm.group(2)
    nparams = len(re.findall(r'_\d+: ', ps)) if ps else 0
    FNS[name] = dict(blocks=blocks, types=types, nparams=len(types) and len([k for k in types if int(k[1:]) <= 20 and re.search(r'\b' + k + r': ', ps)]))
    cm = re.match(r'_1: &?(?:mut )?(\{closure@[^}]*\})', ps)
    if cm: CLOSURES[cm.group(1)] = name

CONSTS = {}
for cm_ in re.finditer(r'^const (\w+): [^=\n]* = const (.*);$', MIR, re.M): CONSTS[cm_.group(1)] = cm_.group(2)
for chunk in re.split(r'\n(?=const )', MIR):
    m = re.match(r'const (.*?promoted\[\d+\]): .*? = \{\n', chunk)
    if not m: continue
    body = chunk[:chunk.find('\n}\n') + 3]
    blocks = {}
    for bm in re.finditer(r'^    (bb\d+)(?: \(cleanup\))?: \{\n(.*?)^    \}', body, re.S | re.M):
        blocks[bm.group(1)] = [l.strip() for l in bm.group(2).strip().split('\n') if l.strip()]
    types = {lm.group(1): lm.group(2) for lm in re.finditer(r'^\s+let (?:mut )?(_\d+): (.*);', body, re.M)}
    FNS['const ' + re.sub(r'<impl at [^>]*>', '<impl>', m.group(1))] = dict(blocks=blocks, types=types)

def short(n): return re.sub(r'<impl at [^>]*>', '<impl>', n)

# ------------------------------------------------------------ helpers
def match_paren_back(s):
    d = 0; k = len(s) - 1
    while True:
        if s[k] == ')': d += 1
        elif s[k] == '(':
            d -= 1
            if d == 0: return k
        k -= 1
def split_top(s, sep=','):
    out = []; d = 0; cur = ''; i = 0
    while i < len(s):
        c = s[i]
        if c in '([{': d += 1
        elif c in ')]}': d -= 1
        elif c == '<' : d += 1
        elif c == '>' and s[i-1] != '-' and s[i-1] != '=': d -= 1
        if c == sep and d == 0: out.append(cur); cur = ''
        else: cur += c
        i += 1
    if cur.strip(): out.append(cur)
    return [x.strip() for x in out]
def ty_head(t):
    t = t.strip()
    while t.startswith(('&', 'mut ', "'")): t = re.sub(r"^(&|mut |'\w+ )", '', t).strip()
    t = re.sub(r'^std::boxed::Box<(.*)>$', r'\1', t)
    t = re.sub(r'<.*$', '', t)
    return t.split('::')[-1]

class Frame:
    def __init__(self, fn): self.fn = fn; self.env = {}; self.types = FNS[fn]['types']
DIAGS = []

# place resolution -> (get, set, type)
def place(fr, p):
    p = p.strip()
    if re.fullmatch(r'_\d+', p):
        return (lambda: fr.env[p]), (lambda v: fr.env.__setitem__(p, v)), fr.types.get(p, '?')
    im = re.match(r'^(.*)\[(_\d+|\d+ of \d+)\]$', p, re.S)
    if im and p.count('(') == p.count(')') and (im.group(1).count('(') == im.group(1).count(')')):
        g, s_, t = place(fr, im.group(1)); ix = im.group(2)
        def idx(): return fr.env[ix] if ix.startswith('_') else int(ix.split(' ')[0])
        def geti(): return deref(g())[idx()]
        def seti(v): deref(g())[idx()] = v
        return geti, seti, re.sub(r'^\[(.*)\]$', r'\1', t.strip())
    assert p[0] == '(' and p[-1] == ')', p
    inner = p[1:-1]
    if inner.startswith('*'):
        g, s_, t = place(fr, inner[1:])
        def get():
            v = g()
            return v.get() if isinstance(v, Ref) else v
        def set_(v):
            r = g()
            if isinstance(r, Ref): r.set(v)
            else: s_(v)
        t2 = re.sub(r"^&('\w+ )?(mut )?", '', t.strip()); t2 = re.sub(r'^std::boxed::Box<(.*)>$', r'\1', t2)
        return get, set_, t2
    if inner[0] == '(':
        d = 0
        for j, c in enumerate(inner):
            if c == '(': d += 1
            elif c == ')':
                d -= 1
                if d == 0: break
        base, rest = inner[:j+1], inner[j+1:]
    else:
        m = re.match(r'_\d+', inner); base, rest = m.group(0), inner[m.end():]
    bm_ = re.match(r'\[(_\d+|\d+ of \d+)\]', rest)
    if bm_: base, rest = base + bm_.group(0), rest[bm_.end():]
    m = re.match(r' as (\w+)$', rest)
    if m: return place(fr, base)
    m = re.match(r'\.(\d+): (.*)$', rest, re.S)
    if m:
        g, s_, t = place(fr, base); idx = int(m.group(1))
        if m.group(2).startswith(('std::ptr::Unique<', 'std::ptr::NonNull<', 'std::mem::ManuallyDrop<', 'std::mem::MaybeDangling<')): return g, s_, m.group(2)
        def get():
            b0 = g()
            if isinstance(b0, BoxUninit): return b0.val
            b = g()
            return b.fields[idx] if isinstance(b, (Adt, Closure)) else b[idx]
        def set_(v):
            b = g()
            if isinstance(b, BoxUninit): b.val = v; return
            if isinstance(b, Adt): b.fields[idx] = v
            else: b[idx] = v
        return get, set_, m.group(2)
    raise NotImplementedError(p)

def const(tok):
    t = tok[6:].strip()
    m = re.match(r'b"(.*)"$', t, re.S)
    if m: return list(bytes(m.group(1), 'utf8').decode('unicode_escape').encode('latin1'))
    m = re.match(r'"(.*)"$', t, re.S)
    if m: return bytes(m.group(1), 'utf8').decode('unicode_escape')
    m = re.match(r"'(.*)'$", t)
    if m: return bytes(m.group(1), 'utf8').decode('unicode_escape')
    if t in ('true', 'false'): return t == 'true'
    m = re.match(r'(-?\d+)_[iu](\d+|size)$', t)
    if m: return int(m.group(1))
    m = re.match(r'(-?[\d.]+)f64$', t)
    if m: return float(m.group(1))
    if t == '()': return None
    if t.startswith('ZeroSized: '):
        c = t[11:]
        if c.startswith('{closure@'): return Closure(c, None)
        return FnPtr(c)
    pfm = re.search(r'PatchFlags>?::([A-Z_]+)$', t)
    if pfm: return {'TEXT': 1, 'CLASS': 2, 'STYLE': 4, 'PROPS': 8, 'FULL_PROPS': 16, 'HYDRATE_EVENTS': 32, 'NEED_PATCH': 512}[pfm.group(1)]
    if t in CONSTS: return const('const ' + CONSTS[t])
    pm = re.match(r'(.*)::(\w+(?:::\{closure#\d+\})*)::promoted\[(\d+)\]$', t)
    if pm:
        ks = [k for k in FNS if k.startswith('const ') and (k.endswith('::' + pm.group(2) + '::promoted[' + pm.group(3) + ']') or k == 'const ' + pm.group(2) + '::promoted[' + pm.group(3) + ']')]
        assert len(ks) == 1, (t, ks)
        return run(ks[0], [])
    if t == 'swc_core::common::DUMMY_SP': return Adt('Span', None, [0, 0], ['lo', 'hi'])
    m = re.match(r'\{alloc\d+: &(.*)\}$', t)
    if m: return Adt('Static', None, [m.group(1)])
    if re.match(r'[\w:<>]+$', t): return FnPtr(t)     # fn item used as value
    raise NotImplementedError(tok)

def operand(fr, tok):
    tok = re.sub(r'^no_retag ', '', tok.strip())
    if tok.startswith('const '): return const(tok)
    tok = re.sub(r' as [^()]* \((Transmute|PtrToPtr)\)$', '', tok)
    m = re.match(r'(copy|move) (.*)$', tok, re.S)
    if m:
        g, s_, t = place(fr, m.group(2)); return g()
    if tok.startswith('<') or re.match(r'[A-Za-z_][\w:]*', tok): return FnPtr(tok)
    raise NotImplementedError(tok)

def call_closure(c, args):
    if isinstance(c, FnPtr):
        n = re.sub(r'^fn\(.*?\) -> \S+ \{(.*)\}$', r'\1', c.name)
        return call(None, n, args)
    name = CLOSURES[c.span]
    return run(name, [c] + args)

# ------------------------------------------------------------ library models
def call(fr, fn, args):
    f = fn.replace('bitflags::__private::', '')
    f = re.sub(r'swc_core::(ecma::ast|swc_atoms|common)::', '', f)
    a = args
    if f in FNS: return run(f, a)
    for k in FNS:                       # crate fn referenced by short path
        if short(k).endswith('>::' + f.split('::')[-1]) and f.startswith('VueJsx'): return run(k, a)
    # --- conversions / identity
    if re.search(r'as (Into|std::convert::From)<.*>>::(into|from)\}?$', f) or f.endswith('as Deref>::deref') or f.endswith('as Clone>::clone') or re.match(r'Box::<.*>::new$', f):
        v = deref(a[0])
        if 'Into<IdentName>' in f: return Adt('IdentName', None, [Adt('Span', None, [0, 0], ['lo', 'hi']), v], ['span', 'sym'])
        if 'IdentName as Into<Ident>' in f: return Adt('Ident', None, [v.fields[0], 0, v.fields[1], False], ['span', 'ctxt', 'sym', 'optional'])
        if f.endswith('Clone>::clone'):
            import copy; return copy.deepcopy(v)
        return v
    if f.endswith('::as_bytes'): return list(deref(a[0]).encode())
    if f.endswith('trim_start_matches::<char>'): return deref(a[0]).lstrip(a[1])
    if f.endswith('::split::<char>'): return Iter(deref(a[0]).split(a[1]))
    if f.endswith('Iterator>::next'):
        it = deref(a[0])
        if it.pos < len(it.items): it.pos += 1; return Some(it.items[it.pos-1])
        return NONE()
    if re.search(r'Iterator>::(map|filter_map)::', f): 
        it, c = a
        kind = re.search(r'Iterator>::(map|filter_map)::', f).group(1)
        out = []
        for x in (it.rest() if isinstance(it, Iter) else list(it)):
            r = call_closure(c, [x])
            if kind == 'map': out.append(r)
            elif r.variant == 'Some': out.append(r.fields[0])
        return Iter(out)
    if 'Iterator>::collect::<BTreeSet' in f: return sorted(set(a[0].rest()))
    if 'Iterator>::collect::<Vec' in f: return a[0].rest()
    if 'as IntoIterator>::into_iter' in f: return Iter(a[0])
    if f.endswith('::iter'): return Iter([Ref(lambda x=x: x, None) for x in deref(a[0])])
    if f.startswith('BTreeSet::') and f.endswith('::is_empty'): return len(deref(a[0])) == 0
    if f.endswith('::to_ascii_lowercase'): return ''.join(c.lower() if c.isascii() else c for c in deref(a[0]))
    if f == '<str as PartialEq>::eq': return deref(a[0]) == deref(a[1])
    if re.match(r'core::slice::<impl \[.*\]>::first$', f):
        v = deref(a[0]); return Some(Ref(lambda: v[0], None)) if v else NONE()
    if re.match(r'core::slice::<impl \[.*\]>::get::<usize>$', f):
        v = deref(a[0]); i = a[1]; return Some(Ref(lambda: v[i], None)) if i < len(v) else NONE()
    m = re.match(r'std::option::Option::<.*>::(\w+)', f)
    if m:
        meth = m.group(1); o = deref(a[0])
        if meth == 'is_none': return o.variant == 'None'
        if meth == 'is_some': return o.variant == 'Some'
        if meth == 'unwrap_or': return o.fields[0] if o.variant == 'Some' else a[1]
        if meth == 'unwrap_or_default': return o.fields[0] if o.variant == 'Some' else False
        if meth == 'map': return Some(call_closure(a[1], [o.fields[0]])) if o.variant == 'Some' else NONE()
        if meth == 'and_then': return call_closure(a[1], [o.fields[0]]) if o.variant == 'Some' else NONE()
        if meth == 'or_else': return o if o.variant == 'Some' else call_closure(a[1], [])
        if meth == 'as_ref': return Some(Ref(lambda: o.fields[0], None)) if o.variant == 'Some' else NONE()
    if f.startswith('better_scoped_tls::ScopedKey::<Handler>::with'): return call_closure(a[1], [Adt('Handler', None, [])])
    if f.startswith('Handler::span_err'): DIAGS.append(a[2]); return None
    raise NotImplementedError(fn)

# ------------------------------------------------------------ interpreter
def disc_of(v, ty):
    v = deref(v)
    if isinstance(v, bool): return int(v)
    en = ty_head(ty)
    if en not in ENUMS and isinstance(v, Adt) and v.ty in ENUMS: en = v.ty
    try:
        return ENUMS[en].index(v.variant)
    except ValueError:
        print('DISC FAIL enum', en, 'ty', ty, 'value', repr(v)[:300]); raise

STEPS = 0
TRACE = []
def run(fn, args):
    global STEPS
    fr = Frame(fn)
    for i, v in enumerate(args): fr.env[f'_{i+1}'] = v
    blocks = FNS[fn]['blocks']; bb = 'bb0'
    while True:
        for line in blocks[bb]:
            STEPS += 1
            TRACE.append((fn, bb, line))
            if line.startswith(('StorageLive', 'StorageDead')): continue
            if line == 'return;': return fr.env.get('_0')
            if line == 'unreachable;': raise RuntimeError('reached unreachable in ' + fn)
            m = re.match(r'goto -> (bb\d+);', line)
            if m: bb = m.group(1); break
            m = re.match(r'drop\(.*\) -> \[return: (bb\d+)', line)
            if m: bb = m.group(1); break
            m = re.match(r'switchInt\((.*?)\) -> \[(.*)\];', line)
            if m:
                v = operand(fr, m.group(1))
                if isinstance(v, bool): v = int(v)
                tgt = None; other = None
                for arm in m.group(2).split(', '):
                    k, t = arm.split(': ')
                    if k == 'otherwise': other = t
                    elif int(k) == v: tgt = t
                bb = tgt or other; break
            m = re.match(r'assert\((!?)(.*?), ".*-> \[success: (bb\d+)', line)
            if m:
                c = operand(fr, m.group(2))
                if bool(c) == (m.group(1) == '!'): raise RuntimeError('MIR assert failed (panic): ' + line[:120])
                bb = m.group(3); break
            m = re.match(r'(.+?) = (.*) -> \[return: (bb\d+).*;', line)
            if m and m.group(2).endswith(')'):
                ce = m.group(2); k = match_paren_back(ce)
                cargs = [operand(fr, x) for x in split_top(ce[k+1:-1])]
                r = call(fr, ce[:k], cargs)
                place(fr, m.group(1))[1](r); bb = m.group(3); break
            m = re.match(r'(.+?) = (.*);$', line, re.S)
            if m:
                g, setter, lty = place(fr, m.group(1)); rhs = re.sub(r'^no_retag ', '', m.group(2))
                if rhs.startswith('&'):
                    pg, ps_, pt = place(fr, re.sub(r'^&(mut )?', '', rhs)); setter(Ref(pg, ps_))
                elif rhs.startswith('discriminant('):
                    pg, ps_, pt = place(fr, rhs[13:-1]); setter(disc_of(pg(), pt))
                elif rhs.startswith(('copy ', 'move ', 'const ')): setter(operand(fr, rhs))
                elif re.match(r'(Le|Ge|Lt|Gt|Eq|Ne)\(', rhs):
                    op = rhs[:2]; x, y = [operand2(fr, t) for t in split_top(rhs[3:-1])]
                    setter({'Le': x <= y, 'Ge': x >= y, 'Lt': x < y, 'Gt': x > y, 'Eq': x == y, 'Ne': x != y}[op])
                elif rhs.startswith('Not('): setter(not operand(fr, rhs[4:-1]))
                elif rhs.startswith('PtrMetadata('): setter(len(deref(operand(fr, rhs[12:-1]))))
                elif rhs.startswith('{closure@'):
                    cm = re.match(r'(\{closure@[^}]*\}) \{(.*)\}$', rhs)
                    env = [operand(fr, x.split(': ', 1)[1]) for x in split_top(cm.group(2))] if cm.group(2).strip() else []
                    setter(Adt('closure', None, env) if False else ClosureV(cm.group(1), env))
                elif rhs.startswith('[') and rhs.endswith(']'):
                    setter([operand(fr, x) for x in split_top(rhs[1:-1])])
                elif rhs.startswith('(') and not rhs.startswith('(_') and not rhs.startswith('(('):
                    setter([operand(fr, x) for x in split_top(rhs[1:-1])])
                elif re.match(r'[\w:<>&\', ]+ \{', rhs):
                    k = rhs.index(' {'); ty = ty_head(rhs[:k]); fs = split_top(rhs[k+2:-1].strip())
                    setter(Adt(ty, None, [operand(fr, x.split(': ', 1)[1]) for x in fs], [x.split(': ', 1)[0] for x in fs]))
                else:
                    if rhs.endswith(')'):
                        k = match_paren_back(rhs); path = rhs[:k]; fields = [operand(fr, x) for x in split_top(rhs[k+1:-1])]
                    else: path = rhs; fields = []
                    segs = re.sub(r'::<[^>]*(<[^>]*>)?[^>]*>', '', path).split('::')
                    setter(Adt(segs[-2], segs[-1], fields))
                continue
            raise NotImplementedError(line)
class ClosureV(Closure):
    @property
    def fields(self): return self.env
def operand2(fr, tok):
    tok = tok.strip()
    m = re.match(r'(copy|move) (.*)\[(\d+) of \d+\]$', tok)
    if m:
        g, _, _ = place(fr, m.group(2)); return g()[int(m.group(3))]
    return operand(fr, tok)

if __name__ == '__main__':
    dump = read_debug(open(sys.argv[1]).read())
    # find first JSXAttr node
    def find(v, ty):
        if isinstance(v, Adt):
            if v.ty == ty: return v
            for f in v.fields:
                r = find(f, ty)
                if r: return r
        if isinstance(v, list):
            for f in v:
                r = find(f, ty)
                if r: return r
    attr = find(dump, 'JSXAttr')
    print('INPUT ', attr)
    for is_comp in (False, True):
      try:
        r = run('parse_directive', [Ref(lambda: attr, None), is_comp])
        print(f'is_component={is_comp} ->', r)
      except Exception as e:
        print('EXC', type(e).__name__, e)
        for t in TRACE[-6:]: print('   ', t[0][-40:], t[1], t[2][:200])
        break
    print('steps', STEPS, 'diags', DIAGS)
