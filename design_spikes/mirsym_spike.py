#!/usr/bin/env python3
"""Throwaway spike: symbolic execution of util::transform_text's MIR with Z3.
Replay-based forking: a path is a list of boolean decisions; re-run from scratch."""
import re, sys, time, itertools
import z3

MIR = open(sys.argv[1]).read()
N = int(sys.argv[2]) if len(sys.argv) > 2 else 3

# ---------------------------------------------------------------- MIR parsing
def get_fn(name):
    m = re.search(r'^fn ' + re.escape(name) + r'\(.*?\n}\n', MIR, re.S | re.M)
    assert m, name
    body = m.group(0)
    blocks = {}
    for bm in re.finditer(r'^    (bb\d+)(?: \(cleanup\))?: \{\n(.*?)^    \}', body, re.S | re.M):
        lines = [l.strip() for l in bm.group(2).strip().split('\n') if l.strip()]
        blocks[bm.group(1)] = lines
    return blocks

# ---------------------------------------------------------------- symbolic values
CH = 21
class Fork(Exception): pass

class Ctx:
    def __init__(self, decisions, solver):
        self.dec = decisions; self.i = 0; self.s = solver; self.pc = []; self.queries = 0
    def decide(self, cond):
        cond = z3.simplify(cond)
        if z3.is_true(cond): return True
        if z3.is_false(cond): return False
        if self.i < len(self.dec):
            d = self.dec[self.i]; self.i += 1
            self.pc.append(cond if d else z3.Not(cond)); return d
        raise ForkAt(cond)
class ForkAt(Exception):
    def __init__(self, cond): self.cond = cond

def ch(c): return z3.BitVecVal(ord(c), CH)
WS = [(0x9,0xd),(0x20,0x20),(0x85,0x85),(0xa0,0xa0),(0x1680,0x1680),(0x2000,0x200a),(0x2028,0x2029),(0x202f,0x202f),(0x205f,0x205f),(0x3000,0x3000)]
def is_ws(c):
    return z3.Or([z3.And(z3.UGE(c, lo), z3.ULE(c, hi)) if lo != hi else c == lo for lo, hi in WS])

class Str:   # immutable symbolic string: list of char terms
    def __init__(self, cs): self.cs = list(cs)
    def __len__(self): return len(self.cs)

# ---------------------------------------------------------------- library models
def m_replace_char(ctx, s, c, rep):           # str::replace::<char>(s, c, rep)
    out = []
    for x in s.cs:
        if ctx.decide(x == c): out.extend(rep.cs)
        else: out.append(x)
    return Str(out)
def m_lines(ctx, s):                           # core::str::lines (current std semantics)
    res = []; cur = []
    cs = s.cs; n = len(cs); i = 0
    while i < n:
        if ctx.decide(cs[i] == ch('\n')):
            line = cur
            if line and ctx.decide(line[-1] == ch('\r')): line = line[:-1]
            res.append(Str(line)); cur = []
        else:
            cur = cur + [cs[i]]
        i += 1
    if cur: res.append(Str(cur))
    return res
def m_trim_start(ctx, s):
    cs = s.cs
    while cs and ctx.decide(is_ws(cs[0])): cs = cs[1:]
    return Str(cs)
def m_trim_end(ctx, s):
    cs = s.cs
    while cs and ctx.decide(is_ws(cs[-1])): cs = cs[:-1]
    return Str(cs)
def m_join(ctx, parts, sep):
    out = []
    for k, p in enumerate(parts):
        if k: out.extend(sep.cs)
        out.extend(p.cs)
    return Str(out)

class Peekable:
    def __init__(self, items): self.items = items; self.pos = 0
SOME, NONE = 1, 0
class Enum:
    def __init__(self, disc, fields=()): self.disc = disc; self.fields = fields

def call(ctx, fn, args):
    f = re.sub(r'bitflags::__private::', '', fn)
    if f.startswith('str::<impl str>::replace::<char>'): return m_replace_char(ctx, args[0], args[1], args[2])
    if 'String as Deref>::deref' in f: return args[0]
    if f.endswith('::lines'): return m_lines(ctx, args[0])
    if f.endswith('Iterator>::enumerate'): return [(z3.BitVecVal(i, 64), l) for i, l in enumerate(args[0])]
    if f.endswith('Iterator>::peekable'): return Peekable(args[0])
    if f.startswith('Vec::<&str>::new'): return []
    if 'Peekable' in f and f.endswith('Iterator>::next'):
        p = args[0]
        if p.pos < len(p.items): p.pos += 1; return Enum(SOME, (p.items[p.pos-1],))
        return Enum(NONE)
    if 'Peekable::' in f and f.endswith('::peek'):
        p = args[0]
        return Enum(SOME, (p.items[p.pos],)) if p.pos < len(p.items) else Enum(NONE)
    if f.endswith('::is_none'): return z3.BoolVal(args[0].disc == NONE)
    if f.endswith('::trim_end'): return m_trim_end(ctx, args[0])
    if f.endswith('::trim_start'): return m_trim_start(ctx, args[0])
    if f.endswith('::trim'): return m_trim_end(ctx, m_trim_start(ctx, args[0]))
    if f.endswith('::is_empty'): return z3.BoolVal(len(args[0]) == 0)
    if f.startswith('Vec::<&str>::push'): args[0].append(args[1]); return None
    if 'Vec<&str> as Deref>::deref' in f: return args[0]
    if f.startswith('slice::<impl [&str]>::join'): return m_join(ctx, args[0], args[1])
    raise NotImplementedError(fn)

# ---------------------------------------------------------------- interpreter
def parse_const(tok):
    m = re.match(r'const "(.*)"$', tok)
    if m: return Str([ch(c) for c in bytes(m.group(1), 'utf8').decode('unicode_escape')])
    m = re.match(r"const '(.*)'$", tok)
    if m: return ch(bytes(m.group(1), 'utf8').decode('unicode_escape'))
    m = re.match(r'const (\d+)_usize$', tok)
    if m: return z3.BitVecVal(int(m.group(1)), 64)
    raise NotImplementedError(tok)

def match_paren(p, i):
    d = 0
    for j in range(i, len(p)):
        if p[j] == '(': d += 1
        elif p[j] == ')':
            d -= 1
            if d == 0: return j
    raise ValueError(p)

def read_place(env, p):
    p = p.strip()
    if re.fullmatch(r'_\d+', p): return env[p]
    assert p[0] == '(' and match_paren(p, 0) == len(p) - 1, p
    inner = p[1:-1]
    if inner.startswith('*'): return read_place(env, inner[1:])
    # base: either parenthesised or a local
    if inner[0] == '(':
        j = match_paren(inner, 0); base, rest = inner[:j+1], inner[j+1:]
    else:
        m = re.match(r'_\d+', inner); base, rest = m.group(0), inner[m.end():]
    m = re.match(r' as (\w+)$', rest)
    if m: return read_place(env, base)
    m = re.match(r'\.(\d+): ', rest)
    assert m, p
    b = read_place(env, base); idx = int(m.group(1))
    return b.fields[idx] if isinstance(b, Enum) else b[idx]

def operand(env, tok):
    tok = tok.strip()
    if tok.startswith('const '): return parse_const(tok)
    tok = re.sub(r'^(copy|move) ', '', tok)
    return read_place(env, tok)

def split_args(s):
    out = []; d = 0; cur = ''
    for c in s:
        if c in '([{<': d += 1
        if c in ')]}>': d -= 1
        if c == ',' and d == 0: out.append(cur); cur = ''
        else: cur += c
    if cur.strip(): out.append(cur)
    return out

def run(ctx, blocks, arg):
    env = {'_1': arg}; bb = 'bb0'; steps = 0
    while True:
        for line in blocks[bb]:
            steps += 1
            if line.startswith(('StorageLive', 'StorageDead')): continue
            if line == 'return;': return env['_0']
            m = re.match(r'goto -> (bb\d+);', line)
            if m: bb = m.group(1); break
            m = re.match(r'drop\(.*\) -> \[return: (bb\d+)', line)
            if m: bb = m.group(1); break
            m = re.match(r'switchInt\((.*?)\) -> \[(.*)\];', line)
            if m:
                v = operand(env, m.group(1)); tgt = None; other = None
                arms = [a.strip().split(': ') for a in m.group(2).split(',')]
                for k, t in arms:
                    if k == 'otherwise': other = t; continue
                    if isinstance(v, int):
                        if v == int(k): tgt = t
                    elif z3.is_bool(v):
                        if ctx.decide(v if int(k) else z3.Not(v)): tgt = t
                    else:
                        if ctx.decide(v == int(k)): tgt = t
                    if tgt: break
                bb = tgt or other; break
            m = re.match(r'(_\d+) = (.*) -> \[return: (bb\d+).*;', line)
            if m:
                callexpr = m.group(2); assert callexpr.endswith(')')
                d = 0; k = len(callexpr) - 1
                while True:
                    if callexpr[k] == ')': d += 1
                    elif callexpr[k] == '(':
                        d -= 1
                        if d == 0: break
                    k -= 1
                fn, argtxt = callexpr[:k], callexpr[k+1:-1]
                args = [operand(env, a) for a in split_args(argtxt)]
                env[m.group(1)] = call(ctx, fn, args); bb = m.group(3); break
            m = re.match(r'(_\d+) = (.*);$', line)
            if m:
                dst, rhs = m.group(1), m.group(2)
                if rhs.startswith('&mut '): env[dst] = read_place(env, rhs[5:])
                elif rhs.startswith('&'): env[dst] = read_place(env, rhs[1:])
                elif rhs.startswith('discriminant('): env[dst] = read_place(env, rhs[13:-1]).disc
                elif rhs.startswith('Eq('):
                    a, b = [operand(env, x) for x in split_args(rhs[3:-1])]
                    env[dst] = a == b
                else: env[dst] = operand(env, rhs)
                continue
            raise NotImplementedError(line)

# ---------------------------------------------------------------- oracle: the JSX rule
def oracle(ctx, s):
    cs = s.cs; lines = []; cur = []; i = 0; n = len(cs)
    while i < n:
        c = cs[i]
        if ctx.decide(c == ch('\r')):
            lines.append(cur); cur = []
            if i + 1 < n and ctx.decide(cs[i+1] == ch('\n')): i += 1
        elif ctx.decide(c == ch('\n')):
            lines.append(cur); cur = []
        else: cur = cur + [c]
        i += 1
    lines.append(cur)
    def sp(c): return z3.Or(c == ch(' '), c == ch('\t'))
    out = []
    for k, l in enumerate(lines):
        if k != 0:
            while l and ctx.decide(sp(l[0])): l = l[1:]
        if k != len(lines) - 1:
            while l and ctx.decide(sp(l[-1])): l = l[:-1]
        if l: out.append([z3.If(c == ch('\t'), ch(' '), c) for c in l])
    res = []
    for k, l in enumerate(out):
        if k: res.append(ch(' '))
        res.extend(l)
    return res

# ---------------------------------------------------------------- driver
def explore(n):
    blocks = get_fn('transform_text')
    inp = [z3.BitVec(f'c{i}', CH) for i in range(n)]
    valid = [z3.And(z3.ULE(c, 0x10ffff), z3.Or(z3.ULT(c, 0xd800), z3.UGT(c, 0xdfff))) for c in inp]
    solver = z3.Solver(); solver.add(valid)
    stack = [[]]; paths = 0; queries = 0; cex = []
    while stack:
        dec = stack.pop()
        ctx = Ctx(dec, solver)
        try:
            got = run(ctx, blocks, Str(inp)).cs
            exp = oracle(ctx, Str(inp))
        except ForkAt as f:
            for d in (True, False):
                solver.push(); solver.add(ctx.pc + [f.cond if d else z3.Not(f.cond)]); queries += 1
                if solver.check() == z3.sat: stack.append(dec + [d])
                solver.pop()
            continue
        paths += 1
        solver.push(); solver.add(ctx.pc)
        unspecified = z3.And([z3.And(is_ws(c), c != ch('\n'), c != ch('\r')) for c in inp]) if inp else z3.BoolVal(False)
        solver.add(z3.Not(unspecified))
        if len(got) != len(exp): bad = z3.BoolVal(True)
        else: bad = z3.Or([a != b for a, b in zip(got, exp)]) if got else z3.BoolVal(False)
        solver.add(bad); queries += 1
        if solver.check() == z3.sat:
            mdl = solver.model()
            s = ''.join(chr(mdl.eval(c, model_completion=True).as_long()) for c in inp)
            cex.append((s, len(got), len(exp)))
        solver.pop()
    return paths, queries, cex

for n in range(0, N + 1):
    t = time.time()
    paths, queries, cex = explore(n)
    print(f'len={n}: paths={paths} z3_queries={queries} violating_paths={len(cex)} wall={time.time()-t:.1f}s')
    for s, a, b in cex[:6]: print('   cex input', repr(s), 'impl_len', a, 'oracle_len', b)
