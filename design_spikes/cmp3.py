import re, sys, mir2, mir3
from mir2 import Adt
def canon(v):
    if isinstance(v, mir2.Ref): return canon(v.get())
    if isinstance(v, Adt):
        head = v.variant if v.variant else v.ty
        if v.names:
            return (head, tuple((n, canon(f)) for n, f in zip(v.names, v.fields) if n not in ('ctxt',)))
        return (head, tuple(canon(f) for f in v.fields))
    if isinstance(v, list): return tuple(canon(x) for x in v)
    if isinstance(v, float) and v == int(v): return int(v)
    return v
def find_init(v):
    if isinstance(v, Adt):
        if v.ty == 'VarDeclarator' and v.fields[v.names.index('name')].fields[0].fields[0].fields[2] == 'a': return v.fields[v.names.index('init')].fields[0]
        for f in v.fields:
            r = find_init(f)
            if r is not None: return r
    if isinstance(v, list):
        for f in v:
            r = find_init(f)
            if r is not None: return r
ok = bad = 0
for src in sys.argv[1:]:
    import subprocess
    txt = subprocess.run(['/scratch/e3/target/debug/e3', src], capture_output=True, text=True).stdout
    pre = mir2.read_debug(re.search(r'^PRE (.*)$', txt, re.M).group(1))
    post = mir2.read_debug(re.search(r'^POST (.*)$', txt, re.M).group(1))
    el = mir3.find(pre, 'JSXElement'); v = mir3.visitor({})
    mir2.TRACE.clear()
    try:
        out = mir2.run(mir3.find_fn('transform_jsx_element'), [mir2.Ref(lambda: v, None), mir2.Ref(lambda: el, None)])
    except Exception as e:
        print('EXC ', src, '|', type(e).__name__, str(e)[:160]); bad += 1; continue
    same = canon(out) == canon(find_init(post))
    print('SAME' if same else 'DIFF', src)
    if not same:
        def fd(a, b, path=''):
            if type(a) != type(b): return (path, a, b)
            if isinstance(a, tuple):
                if len(a) != len(b): return (path + '/len', len(a), len(b))
                for i, (x, y) in enumerate(zip(a, b)):
                    r = fd(x, y, path + '/' + (str(x[0]) if isinstance(x, tuple) and x and isinstance(x[0], str) else str(i)))
                    if r: return r
                return None
            return None if a == b else (path, a, b)
        print('   FIRST DIFF', str(fd(canon(out), canon(find_init(post))))[:500])
        bad += 1
    else: ok += 1
print('ok', ok, 'bad', bad)
