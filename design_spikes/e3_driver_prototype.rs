use swc_core::common::{comments::SingleThreadedComments, sync::Lrc, FileName, Globals, Mark, SourceMap, GLOBALS};
use swc_core::ecma::ast::*;
use swc_core::ecma::parser::{parse_file_as_module, EsSyntax, Syntax};
use swc_core::ecma::transforms::base::resolver;
use swc_core::ecma::visit::VisitMutWith;
use swc_vue_jsx_visitor::{Options, VueJsxTransformVisitor};

fn main() {
    let src = std::env::args().nth(1).unwrap();
    let cm: Lrc<SourceMap> = Default::default();
    let fm = cm.new_source_file(Lrc::new(FileName::Anon), src);
    let comments = SingleThreadedComments::default();
    GLOBALS.set(&Globals::new(), || {
        let mut module = parse_file_as_module(&fm, Syntax::Es(EsSyntax { jsx: true, ..Default::default() }), EsVersion::latest(), Some(&comments), &mut vec![]).unwrap();
        let unresolved = Mark::new();
        let top = Mark::new();
        let mut program = Program::Module(module.clone());
        program.mutate(resolver(unresolved, top, false));
        println!("PRE {:?}", program);
        let mut v = VueJsxTransformVisitor::new(Options::default(), unresolved, Some(comments.clone()));
        program.visit_mut_with(&mut v);
        println!("POST {:?}", program);
        let _ = &mut module;
    });
}
