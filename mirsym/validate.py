"""Differential validation (Serval-style): run the MIR executor and the native build on the same concrete modules
and require identical output ASTs (spans dropped, syntax contexts renumbered by first occurrence)."""
import sys, os, glob, json, time, traceback
from .engine import *
from . import world, astio, driver


def fixture_inputs():
    out = []
    for f in sorted(glob.glob(driver.REPO + '/visitor/tests/fixture/**/input.*sx', recursive=True)):
        cfgp = os.path.join(os.path.dirname(f), 'config.json')
        cfg = json.load(open(cfgp)) if os.path.exists(cfgp) else {'optimize': True}
        out.append((f, open(f).read(), cfg, f.endswith('.tsx')))
    return out


RUST_NAMES = {v: k for k, v in world.JSON_NAMES.items()}


def opts_from_json(cfg):
    return {RUST_NAMES[k]: v for k, v in cfg.items() if k in RUST_NAMES}


def run_one(it, e3, src, cfg, tsx, trace=False):
    """-> ('same'|'diff'|'exc'|'native-problem', detail)"""
    r = e3.run(src, cfg, tsx)
    if 'pre' not in r or 'post' not in r:
        return 'native-problem', {k: v for k, v in r.items() if k in ('panic', 'parse_error', 'crash', 'options_error')}
    pre = astio.read_program(r['pre'])
    post = astio.read_program(r['post'])
    st = Stats()
    ctx = Ctx([], [], st)
    if trace:
        it.trace = []
    try:
        world.run_module(it, ctx, pre, opts_from_json(cfg), r)
    except (Unsupported, Panic, StepLimit) as e:
        return 'exc', '%s: %s' % (type(e).__name__, e)
    a = astio.canon(pre); b = astio.canon(post)
    if a == b:
        nd = [d for d in ctx.diags]
        if len(nd) != len(r.get('diags', [])):
            return 'diff', ('diagnostics', nd, r.get('diags'))
        return 'same', ctx.steps
    return 'diff', astio.first_diff(a, b)


def main(argv):
    it, info = load()
    e3 = driver.E3()
    ok = bad = 0
    only = argv[0] if argv else None
    agg = {}
    for f, src, cfg, tsx in fixture_inputs():
        name = f.split('/fixture/')[1]
        if only and only not in name:
            continue
        try:
            kind, detail = run_one(it, e3, src, cfg, tsx, trace=bool(only))
        except Exception as e:
            kind, detail = 'pyexc', traceback.format_exc()[-1500:]
        if kind == 'same':
            ok += 1
        else:
            bad += 1
            key = kind.upper() + ' ' + str(detail)[:260]
            agg.setdefault(key, []).append(name)
            if only:
                print(kind.upper(), name, str(detail)[:1500])
            if only and it.trace:
                for t in it.trace[-6:]:
                    print('    ', t[0][-50:], t[1], t[2][:200])
    for k, v in sorted(agg.items(), key=lambda kv: -len(kv[1]))[:12]:
        print(len(v), v[0], '::', k)
    print('validated ok=%d bad=%d' % (ok, bad))
    e3.close()
    return 0 if bad == 0 else 1


if __name__ == '__main__':
    sys.exit(main(sys.argv[1:]))
