"""Skeleton harness: source templates with symbolised leaves, whole-module symbolic execution, oracle obligations,
witness rendering and native confirmation."""
import re, json, time, hashlib
import z3
from .engine import *
from .values import *
from . import world, astio, driver, jsout

SAMPLE_CHARS = 'jkqwxyzJKQWXYZ'


class Leaf:
    """a symbolic string leaf. kind: text | name | tagname | str | comment | modifier"""

    def __init__(self, name, kind, length, forbid=(), ascii_only=None):
        self.name = name; self.kind = kind; self.length = length; self.forbid = forbid
        self.ascii = ascii_only if ascii_only is not None else kind in ('name', 'tagname', 'modifier', 'jsname', 'attrname')
        self.chars = None
        self.sample = None

    def make(self, idx):
        n = self.length
        ch = SAMPLE_CHARS[idx % len(SAMPLE_CHARS)]
        self.sample = (ch * n) if n else ''
        if self.ascii:
            self.vars = [z3.BitVec('%s_%d' % (self.name, i), 7) for i in range(n)]
            self.chars = [z3.ZeroExt(CHW - 7, v) for v in self.vars]
        else:
            self.vars = [z3.BitVec('%s_%d' % (self.name, i), CHW) for i in range(n)]
            self.chars = list(self.vars)
        if self.kind == 'textent':
            # every character is written as a numeric character reference `&#xHHHHHH;`: the AST's `raw` differs from `value`,
            # and is modelled exactly (hex digits as functions of the symbolic code point)
            self.src_sample = ''.join('&#x%06x;' % ord(c) for c in self.sample)
            self.raw_sample = self.src_sample
            rc = []
            for c in self.chars:
                rc.extend([ord('&'), ord('#'), ord('x')])
                for k in range(5, -1, -1):
                    d = z3.Extract(3, 0, z3.LShR(c, 4 * k))
                    d32 = z3.ZeroExt(CHW - 4, d)
                    rc.append(z3.If(z3.ULT(d32, 10), d32 + 48, d32 + 87))
                rc.append(ord(';'))
            self.raw_chars = rc
        return self

    def constraints(self):
        cs = []
        k = self.kind
        for i, c in enumerate(self.chars):
            if k in ('name', 'attrname', 'tagname', 'jsname', 'modifier'):
                alpha = z3.Or(z3.And(z3.UGE(c, 65), z3.ULE(c, 90)), z3.And(z3.UGE(c, 97), z3.ULE(c, 122)))
                extra = [c == 95, c == 36]          # _ $
                if i > 0:
                    extra.append(z3.And(z3.UGE(c, 48), z3.ULE(c, 57)))
                    if k in ('attrname', 'tagname', 'name'):
                        extra.append(c == 45)       # '-' inside JSX identifiers
                cs.append(z3.Or(alpha, *extra))
            elif k == 'uname':
                # a JSX / JS identifier part that may be non-ASCII: the ASCII name class or one of the exact ID_Start / ID_Continue
                # representatives (1-, 2-, 3- and 4-byte UTF-8 encodings)
                from .models import ID_REPS
                alpha = z3.Or(z3.And(z3.UGE(c, 65), z3.ULE(c, 90)), z3.And(z3.UGE(c, 97), z3.ULE(c, 122)))
                extra = [c == 95, c == 36] + [c == r for r in ID_REPS['start']]
                if i > 0:
                    extra += [z3.And(z3.UGE(c, 48), z3.ULE(c, 57)), c == 45] + [c == r for r in ID_REPS['continue']]
                cs.append(z3.Or(alpha, *extra))
            elif k == 'text':
                cs.append(z3.And(z3.ULE(c, 0x10ffff), z3.Or(z3.ULT(c, 0xd800), z3.UGT(c, 0xdfff))))
            elif k == 'textent':
                cs.append(z3.And(z3.ULE(c, 0x10ffff), z3.Or(z3.ULT(c, 0xd800), z3.UGT(c, 0xdfff)), c != 0))
            elif k == 'str':
                cs.append(z3.And(z3.ULE(c, 0x10ffff), z3.Or(z3.ULT(c, 0xd800), z3.UGT(c, 0xdfff))))
            elif k == 'jsstr':      # inside a double-quoted JS string literal, no escapes
                cs.append(z3.And(z3.ULE(c, 0x10ffff), z3.Or(z3.ULT(c, 0xd800), z3.UGT(c, 0xdfff)), c != 34, c != 92, c != 10, c != 13, c != 0x2028, c != 0x2029))
            elif k == 'jsstrx':     # any JS string value; written into the source with escapes (render_js_str)
                cs.append(z3.And(z3.ULE(c, 0x10ffff), z3.Or(z3.ULT(c, 0xd800), z3.UGT(c, 0xdfff))))
            elif k == 'comment':
                cs.append(z3.And(z3.ULE(c, 0x10ffff), z3.Or(z3.ULT(c, 0xd800), z3.UGT(c, 0xdfff)), c != 0))
                if i + 1 < len(self.chars):
                    cs.append(z3.Not(z3.And(c == 42, self.chars[i + 1] == 47)))   # no '*/'
            else:
                raise ValueError(k)
        for f in self.forbid:
            if len(f) == self.length:
                cs.append(z3.Not(z3.And([c == ord(x) for c, x in zip(self.chars, f)])) if f else z3.BoolVal(True))
        return cs

    def sstr(self):
        return SStr(self.chars)

    def render(self, model):
        s = ''.join(chr(mval(model, c)) for c in self.chars)
        return s


def render_text(s):
    out = []
    for i, c in enumerate(s):
        crlf = (c == '\r' and s[i + 1:i + 2] == '\n') or (c == '\n' and i > 0 and s[i - 1] == '\r')
        if c in '{}<>&' or crlf:
            out.append('&#%d;' % ord(c))
        else:
            out.append(c)
    return ''.join(out)


def render_js_str(s):
    """inside a double-quoted JavaScript string literal"""
    out = []
    for c in s:
        o = ord(c)
        if c in '"\\':
            out.append('\\' + c)
        elif o < 32 or o in (0x7f, 0x2028, 0x2029):
            out.append('\\u%04x' % o)
        else:
            out.append(c)
    return ''.join(out)


def render_attr_str(s):
    """inside double quotes of a JSX attribute"""
    out = []
    for i, c in enumerate(s):
        crlf = (c == '\r' and s[i + 1:i + 2] == '\n') or (c == '\n' and i > 0 and s[i - 1] == '\r')
        if c in '"&' or crlf:
            out.append('&#%d;' % ord(c))
        else:
            out.append(c)
    return ''.join(out)


class Skeleton:
    """template: source text with {leafname} placeholders; leaves: [Leaf]; opts: dict rust_option_name -> bool | 'sym' | value"""

    def __init__(self, sid, template, leaves=(), opts=None, tsx=False, patterns=None, pragma=None, meta=None, variants=None):
        self.sid = sid; self.template = template; self.leaves = [l.make(i) for i, l in enumerate(leaves)]
        self.opts = dict(opts or {}); self.tsx = tsx
        self.patterns = patterns            # None | [] | ['opaque']
        self.pragma = pragma
        self.meta = meta or {}
        self.optvars = {}
        self.variants = variants or []      # extra runs of the same input with some options overridden (relational oracles)
        self.alt_templates = []             # extra runs on other source texts sharing the same leaves (relational oracles over inputs)
        self.rerun_on_output = False        # also run the transform on its own output (idempotence)

    def sample_source(self):
        d = {l.name: getattr(l, 'src_sample', None) or l.sample for l in self.leaves}
        return self.template.format(**d)

    def render_source(self, model, template=None):
        d = {}
        for l in self.leaves:
            s = l.render(model)
            if l.kind == 'text':
                s = render_text(s)
            elif l.kind == 'textent':
                s = ''.join('&#x%06x;' % ord(c) for c in s)
            elif l.kind == 'str':
                s = render_attr_str(s)
            elif l.kind == 'jsstrx':
                s = render_js_str(s)
            d[l.name] = s
        return (template or self.template).format(**d)

    def sample_alt(self, template):
        return template.format(**{l.name: getattr(l, 'src_sample', None) or l.sample for l in self.leaves})

    def sym_options(self):
        """-> (opts for make_visitor, json-able description builder)"""
        o = {}
        for k in ('transform_on', 'optimize', 'merge_props', 'enable_object_slots', 'resolve_type'):
            v = self.opts.get(k, world.OPTION_DEFAULTS[k])
            if v == 'sym':
                v = self.optvars.setdefault(k, z3.Bool('opt_' + k))
            o[k] = v
        if self.patterns:
            o['custom_element_patterns'] = [{'kind': 'opaque', 'id': i} for i, _ in enumerate(self.patterns)]
        if self.pragma is not None:
            o['pragma'] = self.pragma
        return o

    def concrete_options(self, model, ctx=None):
        j = {}
        for k in ('transform_on', 'optimize', 'merge_props', 'enable_object_slots', 'resolve_type'):
            v = self.opts.get(k, world.OPTION_DEFAULTS[k])
            if v == 'sym':
                v = bool(mval(model, self.optvars[k])) if model is not None else False
            j[world.JSON_NAMES[k]] = bool(v)
        if self.patterns:
            matched = []
            for rid, s in (getattr(ctx, 'regex_calls', None) or []):
                fns = getattr(ctx, 'regex_fns', {})
                fn = fns.get((rid, len(s.cs)))
                if fn is None:
                    continue
                val = model.eval(fn(*[bv(c, CHW) for c in s.cs]) if len(s.cs) else fn, model_completion=True)
                if z3.is_true(val):
                    matched.append(re.escape(mval(model, s)))
            j['customElementPatterns'] = ['^(?:' + '|'.join(sorted(set(matched))) + ')$'] if matched else ['[^\\s\\S]']
        if self.pragma is not None:
            j['pragma'] = self.pragma if isinstance(self.pragma, str) else mval(model, self.pragma)
        return j


def symbolise(program, leaves):
    """replace every occurrence of each leaf's sample inside string fields by the leaf's symbolic characters."""
    count = {l.name: 0 for l in leaves}

    needles = []
    for l in leaves:
        if getattr(l, 'raw_sample', None):
            needles.append((l.raw_sample, l.raw_chars, None))
    for l in leaves:
        if l.sample:
            needles.append((l.sample, l.chars, l.name))

    def subst(s):
        if not isinstance(s, SStr) or not s.is_concrete():
            return s
        py = s.py()
        if not any(nd in py for nd, _, _ in needles):
            return s
        out = []
        i = 0
        while i < len(py):
            for nd, chars, nm in needles:
                if py.startswith(nd, i):
                    out.extend(chars); i += len(nd)
                    if nm is not None:
                        count[nm] += 1
                    break
            else:
                out.append(ord(py[i])); i += 1
        return SStr(out)

    def rec(v):
        if isinstance(v, Adt):
            for i, f in enumerate(v.fields):
                if isinstance(f, SStr):
                    v.fields[i] = subst(f)
                else:
                    rec(f)
        elif isinstance(v, list):
            for i, f in enumerate(v):
                if isinstance(f, SStr):
                    v[i] = subst(f)
                else:
                    rec(f)
    rec(program)
    return count


class Env:
    """what an oracle sees: input program, output program, diagnostics, options (possibly symbolic), ctx for decide()."""

    def __init__(self, pre, post, diags, opts, ctx, skel=None, extra=None):
        self.pre = pre; self.post = post; self.diags = diags; self.opts = opts; self.ctx = ctx; self.skel = skel
        self.extra = extra or {}

    def decide(self, c):
        return self.ctx.decide(c)


class ConcreteCtx:
    """stand-in for a path context when an oracle is evaluated on concrete (native) values"""

    def __init__(self):
        self.diags = []; self.notes = []

    def decide(self, c):
        if isinstance(c, bool):
            return c
        c = z3.simplify(c)
        if z3.is_true(c):
            return True
        if z3.is_false(c):
            return False
        raise ValueError('symbolic condition in concrete oracle evaluation: %s' % c)


_PARSE_CACHE = {}


def parse_skeleton(e3, skel):
    key = (skel.sample_source(), skel.tsx)
    if key not in _PARSE_CACHE:
        r = e3.run(skel.sample_source(), {}, skel.tsx)
        _PARSE_CACHE[key] = r
    return _PARSE_CACHE[key]


def _parse_alt(e3, skel, template):
    key = (skel.sample_alt(template), skel.tsx)
    if key not in _PARSE_CACHE:
        _PARSE_CACHE[key] = e3.run(key[0], {}, skel.tsx)
    return _PARSE_CACHE[key]


def run_skeleton(it, e3, skel, oracle, stats=None, deadline=None, max_paths=20000, want_samples=1, extra_base=()):
    """explore all paths of the real visitor on the skeleton; -> result dict (picklable)"""
    st = stats if stats is not None else Stats()
    res = {'violations': [], 'inconclusive': [], 'samples': [], 'obligations': 0, 'distinct': [], 'vacuity': {}, 'validated': 0,
           'validation_mismatches': []}
    r0 = parse_skeleton(e3, skel)
    if 'pre' not in r0:
        res['inconclusive'].append('skeleton %s does not parse: %s' % (skel.sid, {k: v for k, v in r0.items() if k != 'id'}))
        res['stats'] = stats_dict(st)
        return res
    base = list(extra_base)
    for l in skel.leaves:
        base.extend(l.constraints())
    opts = skel.sym_options()
    comments0 = world.comments_map(r0)

    def body(ctx):
        pre = astio.read_program(r0['pre'])
        cnt = symbolise(pre, skel.leaves)
        comments = {}
        for pos, items in comments0.items():
            lst = []
            for kind, text in items:
                t = SStr.of(text)
                holder = [t]
                symbolise(holder, skel.leaves)
                lst.append((kind, holder[0]))
            comments[pos] = lst
        inp = astio.read_program(r0['pre'])
        symbolise(inp, skel.leaves)
        world.run_module(it, ctx, pre, opts, r0, comments)
        posts = [pre]; diags_all = [list(ctx.diags)]
        for ov in skel.variants:
            o2 = dict(opts); o2.update(ov)
            p2 = astio.read_program(r0['pre'])
            symbolise(p2, skel.leaves)
            ctx.diags = []
            for attr in ('regex_calls',):
                pass
            world.run_module(it, ctx, p2, o2, r0, comments)
            posts.append(p2); diags_all.append(list(ctx.diags))
        post2 = None
        if skel.rerun_on_output:
            from .interp import clone_val
            post2 = clone_val(pre)
            keep = ctx.diags
            ctx.diags = []
            world.run_module(it, ctx, post2, opts, r0, comments)
            diags_all.append(list(ctx.diags))
            ctx.diags = keep
        alt_pres = []; alt_posts = []
        for at in skel.alt_templates:
            ra = _parse_alt(e3, skel, at)
            if 'pre' not in ra:
                raise Unsupported('harness: alternative source does not parse: %s' % ra.get('parse_error'))
            pa = astio.read_program(ra['pre']); symbolise(pa, skel.leaves)
            ia = astio.read_program(ra['pre']); symbolise(ia, skel.leaves)
            ctx.diags = []
            world.run_module(it, ctx, pa, opts, ra, world.comments_map(ra))
            alt_pres.append(ia); alt_posts.append(pa); diags_all.append(list(ctx.diags))
        ctx.diags = diags_all[0]
        env = Env(inp, pre, ctx.diags, dict(opts), ctx, skel, {'comments': comments, 'resp': r0, 'posts': posts, 'diags_all': diags_all, 'variants': skel.variants,
                                                         'alt_pres': alt_pres, 'alt_posts': alt_posts, 'post2': post2})
        ctx.env = env
        return oracle(env)

    nsamples = 0
    nfallback = 0
    for r in explore(body, base, st, deadline=deadline, max_paths=max_paths):
        if r.kind == 'ok':
            res['obligations'] += 1
            res['distinct'].append('%s/%s' % (skel.sid, ''.join('1' if d else '0' for d in r.ctx.taken)))
            res['vacuity'][skel.meta.get('family', skel.sid.split('#')[0])] = True
            if nsamples < want_samples and r.ctx.check() == z3.sat:
                nsamples += 1
                m = r.ctx.solver.model()
                src = skel.render_source(m)
                o = skel.concrete_options(m, r.ctx)
                ok, why = confirm_equal(e3, skel, src, o, r.ctx, m)
                res['validated'] += 1
                if ok is False:
                    res['validation_mismatches'].append({'skeleton': skel.sid, 'source': src, 'options': o, 'diff': str(why)[:600]})
                res['samples'].append({'skeleton': skel.sid, 'source': src, 'options': o, 'path_decisions': len(r.ctx.taken), 'native_agrees': ok})
        elif r.kind in ('violation', 'panic', 'steplimit'):
            res['obligations'] += 1
            if r.model is None:
                res['inconclusive'].append('%s: %s without model: %s' % (skel.sid, r.kind, r.detail))
                continue
            src = skel.render_source(r.model)
            o = skel.concrete_options(r.model, r.ctx)
            info = r.obligation.info if r.obligation is not None else None
            res['violations'].append({'skeleton': skel.sid, 'kind': r.kind, 'obligation': r.detail, 'source': src, 'options': o, 'tsx': skel.tsx,
                                      'info': _plain(r.model, info), 'variants': [{world.JSON_NAMES.get(k, k): v for k, v in ov.items()} for ov in skel.variants],
                                      'alt_sources': [skel.render_source(r.model, at) for at in skel.alt_templates], 'twice': skel.rerun_on_output})
        elif r.kind == 'budget':
            res['inconclusive'].append('%s: %s' % (skel.sid, r.detail))
        else:
            res['inconclusive'].append('%s: %s %s' % (skel.sid, r.kind, str(r.detail)[:300]))
            # Concolic completion: the executor could not finish this path (unmodelled library call, solver unknown).
            # The path prefix is still a solver-decided region of the input space: take a model of it, run the real build on
            # that instance and evaluate the same oracle on the native result. This decides one representative per unfinished
            # path, not the whole region - the path stays inconclusive - but a failure found this way is a real one.
            if r.ctx is not None and nfallback < 24:
                try:
                    leafvars = [c for l in skel.leaves for c in (getattr(l, 'vars', None) or [])]
                    alpha = _interesting_chars(it)
                    seen_src = set()
                    for rep in range(8):
                        # representative `rep`: a model of the path prefix steered towards the rep-th character constant the crate's
                        # own code compares against (taken from the MIR dump), which is where string-handling changes bite
                        r.ctx.solver.push()
                        want = alpha[rep % len(alpha)]
                        for c in leafvars:
                            if want >= (1 << c.size()):
                                continue
                            r.ctx.solver.push()
                            r.ctx.solver.add(c == want)
                            if r.ctx.solver.check() == z3.sat:
                                r.ctx.solver.pop(); r.ctx.solver.add(c == want)
                            else:
                                r.ctx.solver.pop()
                        sat = r.ctx.solver.check() == z3.sat
                        m = r.ctx.solver.model() if sat else None
                        r.ctx.solver.pop()
                        if not sat:
                            break
                        src = skel.render_source(m); o = skel.concrete_options(m, r.ctx)
                        if (src, json.dumps(o, sort_keys=True)) in seen_src:
                            continue
                        seen_src.add((src, json.dumps(o, sort_keys=True)))
                        cand = {'skeleton': skel.sid, 'kind': 'native-fallback', 'obligation': None, 'source': src, 'options': o, 'tsx': skel.tsx, 'info': None,
                                'variants': [{world.JSON_NAMES.get(k, k): v for k, v in ov.items()} for ov in skel.variants],
                                'alt_sources': [skel.render_source(m, at) for at in skel.alt_templates], 'twice': skel.rerun_on_output}
                        nfallback += 1
                        res['concolic'] = res.get('concolic', 0) + 1
                        ok, d = native_check(e3, oracle, cand, skel)
                        if ok is True:
                            cand['obligation'] = d.get('obligation') or ('panic: ' + str(d.get('message'))[:80])
                            cand['kind'] = 'panic' if d.get('native') == 'panic' else 'violation'
                            cand['info'] = d.get('info')
                            cand['via'] = 'concolic completion of an unfinished path (%s)' % str(r.detail)[:120]
                            res['violations'].append(cand)
                            break
                        if not leafvars:
                            break
                except Exception as e:          # the fallback must never turn into an alarm by itself
                    res['inconclusive'].append('%s: concolic completion failed: %s: %s' % (skel.sid, type(e).__name__, str(e)[:200]))
    res['stats'] = stats_dict(st)
    return res


_ALPHA = None


def _interesting_chars(it):
    global _ALPHA
    if _ALPHA is None:
        import re as _re
        cs = list(getattr(it.prog, 'char_consts', []))
        esc = {'\\t': 9, '\\n': 10, '\\r': 13}
        vals = []
        for c in cs:
            v = esc.get(c, ord(c[-1]))
            if v not in vals:
                vals.append(v)
        for v in (ord('v'), ord('-'), ord('_'), ord(':'), ord('o'), ord('n'), ord('A'), ord('0'), ord(' '), ord('$')):
            if v not in vals:
                vals.append(v)
        _ALPHA = vals
    return _ALPHA


def _plain(model, v):
    if v is None:
        return None
    if isinstance(v, dict):
        return {k: _plain(model, x) for k, x in v.items()}
    if isinstance(v, (list, tuple)):
        return [_plain(model, x) for x in v]
    if isinstance(v, SStr) or is_sym(v):
        return mval(model, v)
    if isinstance(v, (str, int, float, bool)):
        return v
    return repr(v)[:200]


def stats_dict(st):
    return {'xresults': list(getattr(st, 'xresults', [])), 'paths': st.paths, 'queries': st.queries, 'sat': st.sat, 'unsat': st.unsat, 'unknown': st.unknown,
            'solver_s': st.solver_s, 'steps': st.steps, 'fns': dict(st.fns), 'models': sorted(st.models)}


def confirm_equal(e3, skel, src, options, ctx, model):
    """differential validation on one concrete instance: native POST must equal the MIR output under the model."""
    r = e3.run(src, options, skel.tsx)
    if 'post' not in r:
        return None, {k: v for k, v in r.items() if k in ('panic', 'parse_error', 'crash')}
    post = astio.read_program(r['post'])
    mine = concretise(ctx.env.post, model)
    a = astio.canon(mine); b = astio.canon(post)
    if a == b:
        return True, None
    # was the input what the skeleton assumed?
    pre = astio.read_program(r['pre'])
    if astio.canon(pre) != astio.canon(concretise(ctx.env.pre, model)):
        return None, 'parser produced a different tree for this instance'
    return False, astio.first_diff(a, b)


def concretise(v, model):
    if isinstance(v, Adt):
        return Adt(v.ty, v.variant, [concretise(f, model) for f in v.fields], v.names)
    if isinstance(v, list):
        return [concretise(x, model) for x in v]
    if isinstance(v, SStr):
        return SStr([mval(model, c) for c in v.cs])
    if isinstance(v, Ref):
        return concretise(v.get(), model)
    if is_sym(v):
        return mval(model, v)
    return v


def native_check(e3, oracle, violation, skel_like=None):
    """re-run a solver witness on the real build and evaluate the same oracle on the native result.
       -> (reproduced: bool|None, detail)"""
    r = e3.run(violation['source'], violation['options'], violation.get('tsx', False), twice=bool(violation.get('twice')))
    if r.get('crash') or 'panic' in r:
        return True, {'native': 'panic', 'message': r.get('panic', 'process died (stack overflow / abort)')}
    if 'parse_error' in r:
        return None, {'native': 'parse_error', 'message': r['parse_error']}
    pre = astio.read_program(r['pre']); post = astio.read_program(r['post'])
    cctx = ConcreteCtx()
    cctx.diags = list(r.get('diags', []))
    opts = {k: violation['options'].get(j, world.OPTION_DEFAULTS[k]) for k, j in world.JSON_NAMES.items()}
    posts = [post]; diags_all = [list(cctx.diags)]; codes = [r.get('code')]
    for ov in violation.get('variants') or []:
        o2 = dict(violation['options']); o2.update(ov)
        r2 = e3.run(violation['source'], o2, violation.get('tsx', False))
        if r2.get('crash') or 'panic' in r2:
            return True, {'native': 'panic', 'message': r2.get('panic', 'process died'), 'variant': ov}
        posts.append(astio.read_program(r2['post'])); diags_all.append(list(r2.get('diags', []))); codes.append(r2.get('code'))
    alt_pres = []; alt_posts = []
    for asrc in violation.get('alt_sources') or []:
        ra = e3.run(asrc, violation['options'], violation.get('tsx', False))
        if ra.get('crash') or 'panic' in ra:
            return True, {'native': 'panic', 'message': ra.get('panic', 'process died'), 'alt': True}
        if 'pre' not in ra:
            return None, {'native': 'parse_error', 'message': ra.get('parse_error')}
        alt_pres.append(astio.read_program(ra['pre'])); alt_posts.append(astio.read_program(ra['post'])); diags_all.append(list(ra.get('diags', [])))
    post2 = astio.read_program(r['post_twice']) if 'post_twice' in r else None
    env = Env(pre, post, cctx.diags, opts, cctx, skel_like, {'post2': post2, 'alt_pres': alt_pres, 'alt_posts': alt_posts, 'resp': r, 'comments': world.comments_map(r), 'code': r.get('code'), 'reparse_ok': r.get('reparse_ok'),
                                                             'posts': posts, 'diags_all': diags_all, 'codes': codes,
                                                             'rerun': (lambda ov=None, prelude=None: e3.run(violation['source'], dict(violation['options'], **(ov or {})), violation.get('tsx', False),
                                                                                                              prelude=[{'src': violation['source'], 'tsx': violation.get('tsx', False), 'options': dict(violation['options'], **p)} for p in (prelude or [])]).get('code')),
                                                             'json_options': dict(violation['options']),
                                                             'variants': [{world.RUST.get(k, k): v for k, v in ov.items()} for ov in (violation.get('variants') or [])]})
    try:
        obs = oracle(env)
    except Exception as e:
        return None, {'native': 'oracle-error', 'message': '%s: %s' % (type(e).__name__, e)}
    failing = [ob for ob in obs if ob.holds is False or (not isinstance(ob.holds, bool) and z3.is_false(z3.simplify(ob.holds)))]
    if violation['kind'] in ('panic', 'steplimit'):
        return False, {'native': 'no panic', 'failing': [ob.name for ob in failing]}
    names = [ob.name for ob in failing]
    if violation['obligation'] in names:
        same = [o for o in failing if o.name == violation['obligation']]
        # several instances of one clause can fail in a module (one per prop, say): confirm the instance the witness is about
        want = json.dumps(violation.get('info'), sort_keys=True, default=str)
        exact = [o for o in same if json.dumps(_plain(None, o.info) if o.info else None, sort_keys=True, default=str) == want]
        if violation.get('info') and not exact and len(same) > 1:
            key = lambda o: sum(1 for k, v in (violation.get('info') or {}).items() if json.dumps((_plain(None, o.info) or {}).get(k), default=str) == json.dumps(v, default=str))
            same.sort(key=key, reverse=True)
        ob = (exact or same)[0]
        return True, {'native': 'oracle fails', 'obligation': ob.name, 'info': _plain(None, ob.info) if ob.info else None, 'code': r.get('code')}
    if names:
        return True, {'native': 'oracle fails (different clause)', 'obligation': names[0], 'code': r.get('code')}
    return False, {'native': 'oracle holds', 'code': r.get('code')}
