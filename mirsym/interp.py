"""Symbolic MIR interpreter with replay-based forking.

One `Ctx` = one path. `ctx.decide(cond)` resolves a symbolic branch: decisions are replayed from a prefix; past the
prefix both sides are checked with Z3, the infeasible one is dropped, and when both are feasible the alternative is
pushed on the work list (to be re-executed from scratch with the longer prefix)."""
import re, time
import z3
from .values import *
from . import mirparse
from .mirparse import Fn


class Panic(Exception):
    """a panic of the code under test is reachable on this path"""


class Unsupported(Exception):
    """no model / unknown construct: the path (and the check) is inconclusive"""


class StepLimit(Exception):
    pass


class Stats:
    def __init__(self):
        self.queries = 0; self.sat = 0; self.unsat = 0; self.unknown = 0; self.solver_s = 0.0
        self.paths = 0; self.steps = 0; self.fns = {}; self.models = set(); self.blocks = set()

    def merge(self, o):
        self.queries += o.queries; self.sat += o.sat; self.unsat += o.unsat; self.unknown += o.unknown
        self.solver_s += o.solver_s; self.paths += o.paths; self.steps += o.steps
        self.fns.update(o.fns); self.models |= o.models; self.blocks |= o.blocks


class Ctx:
    def __init__(self, prefix, worklist, stats, base_constraints=(), timeout_ms=20000):
        self.prefix = prefix; self.taken = []; self.pc = []; self.worklist = worklist; self.stats = stats
        self.solver = z3.Solver()
        self.solver.set('timeout', timeout_ms)
        for c in base_constraints:
            self.solver.add(c)
        self.base = list(base_constraints)
        self.diags = []
        self.next_mark = 1000
        self.next_ctxt = 1000
        self.ctxt_outer = {}       # ctxt id -> outer mark (hygiene model, single level)
        self.steps = 0
        self.unknown = False
        self.notes = []
        self.fresh = 0

    def check(self, *assumptions):
        t = time.time()
        r = self.solver.check(*assumptions)
        st = self.stats
        st.solver_s += time.time() - t; st.queries += 1
        if r == z3.sat:
            st.sat += 1
        elif r == z3.unsat:
            st.unsat += 1
        else:
            st.unknown += 1; self.unknown = True
        return r

    def decide(self, cond):
        if isinstance(cond, bool):
            return cond
        cond = z3.simplify(cond)
        if z3.is_true(cond):
            return True
        if z3.is_false(cond):
            return False
        k = len(self.taken)
        if k < len(self.prefix):
            d = self.prefix[k]
            self.taken.append(d)
            c = cond if d else z3.Not(cond)
            self.pc.append(c); self.solver.add(c)
            return d
        rt = self.check(cond)
        rf = self.check(z3.Not(cond))
        if rt == z3.unknown or rf == z3.unknown:
            # treat unknown as feasible (sound for violation search only after replay); flagged in stats
            pass
        t_ok = rt != z3.unsat
        f_ok = rf != z3.unsat
        if t_ok and f_ok:
            self.worklist.append(self.taken + [False])
            d = True
        elif t_ok:
            d = True
        elif f_ok:
            d = False
        else:
            raise Unsupported('path condition became unsatisfiable')
        self.taken.append(d)
        c = cond if d else z3.Not(cond)
        self.pc.append(c); self.solver.add(c)
        return d

    def fresh_mark(self):
        self.next_mark += 1
        return self.next_mark

    def apply_mark(self, ctxt, mark):
        # single-level hygiene: every (empty ctxt, mark) pair gets one context id
        for c, m in self.ctxt_outer.items():
            if m == mark:
                return c
        self.next_ctxt += 1
        self.ctxt_outer[self.next_ctxt] = mark
        return self.next_ctxt


_INT_TY = {'u8': (8, False), 'u16': (16, False), 'u32': (32, False), 'u64': (64, False), 'usize': (64, False), 'u128': (128, False),
           'i8': (8, True), 'i16': (16, True), 'i32': (32, True), 'i64': (64, True), 'isize': (64, True), 'i128': (128, True),
           'char': (32, False), 'bool': (1, False)}

_WRAPPERS = ('std::ptr::Unique<', 'std::ptr::NonNull<', 'std::mem::ManuallyDrop<', 'std::mem::MaybeDangling<',
             'std::mem::MaybeUninit<', 'std::mem::manually_drop::MaybeDangling<', 'core::ptr::Unique<', 'std::pin::Pin<')


def is_wrapper_ty(t):
    return t.startswith(_WRAPPERS)


def clone_val(v):
    if isinstance(v, Adt):
        return Adt(v.ty, v.variant, [clone_val(f) for f in v.fields], v.names)
    if isinstance(v, list):
        return [clone_val(x) for x in v]
    if isinstance(v, Closure):
        return Closure(v.ident, [clone_val(f) for f in v.fields], v.names)
    return v        # ints, bools, z3 terms, SStr (immutable), Ref (shared reference), Opaque


class Frame:
    __slots__ = ('fn', 'env')

    def __init__(self, fn):
        self.fn = fn; self.env = {}


class Interp:
    def __init__(self, prog, types, models, max_steps=400000):
        self.prog = prog; self.T = types; self.models = models; self.max_steps = max_steps; self.max_depth = 150
        self._resolve_cache = {}
        self._upvar_cache = {}
        self._const_cache = {}
        self._by_last = {}
        for name, fs in prog.fns.items():
            if '{closure#' in name.split('::')[-1]:
                continue
            last = name.split('::')[-1]
            self._by_last.setdefault(last, []).extend(fs)
        self.trace = None

    # ------------------------------------------------------------ places
    def read(self, fr, p):
        k = p[0]
        if k == 'local':
            try:
                return fr.env[p[1]]
            except KeyError:
                raise Unsupported('read of uninitialised %s in %s' % (p[1], fr.fn.name))
        if k == 'deref':
            v = self.read(fr, p[1])
            return v.get() if isinstance(v, Ref) else v
        if k == 'field':
            b = self.read(fr, p[1])
            if self._transparent(p):
                return b
            if isinstance(b, Ref):
                b = deref(b)        # (a box pointer copy standing for its pointee)
            if isinstance(b, (Adt, Closure)):
                try:
                    return b.fields[p[2]]
                except IndexError:
                    raise Unsupported('field %d of %r (%s)' % (p[2], b, p[3]))
            if isinstance(b, list):
                return b[p[2]]
            if isinstance(b, Uninit):
                return b.val
            raise Unsupported('field %d of %s in %s' % (p[2], type(b).__name__, fr.fn.name))
        if k == 'downcast':
            return self.read(fr, p[1])
        if k == 'index':
            b = self.read(fr, p[1]); i = fr.env[p[2]]
            if isinstance(b, SStr):
                raise Unsupported('index into str')
            if not isinstance(i, int):
                raise Unsupported('symbolic index')
            return b[i]
        if k == 'cindex':
            b = self.read(fr, p[1])
            return b[-p[2]] if p[4] else b[p[2]]
        if k == 'subslice':
            b = self.read(fr, p[1])
            return b[p[2]:(len(b) - p[3]) if p[4] else (p[3] or None)]
        raise Unsupported('place kind ' + k)

    def _transparent(self, p):
        t = p[3]
        if is_wrapper_ty(t):
            return True
        q = p[1]
        if q[0] == 'field' and is_wrapper_ty(q[3]):
            return True
        return False

    def ref(self, fr, p):
        """-> (container, key) such that container[key] is the place"""
        k = p[0]
        if k == 'local':
            return fr.env, p[1]
        if k == 'deref':
            v = self.read(fr, p[1])
            if isinstance(v, Ref):
                return v.c, v.k
            return self.ref(fr, p[1])
        if k == 'field':
            if self._transparent(p):
                b = self.read(fr, p[1])
                if isinstance(b, Uninit):
                    return b, 'val'
                return self.ref(fr, p[1])
            b = self.read_or_init(fr, p[1], p)
            if isinstance(b, Ref):
                b = deref(b)
            if isinstance(b, (Adt, Closure)):
                return b.fields, p[2]
            if isinstance(b, list):
                while len(b) <= p[2]:
                    b.append(None)
                return b, p[2]
            if isinstance(b, Uninit):
                return b, 'val'
            raise Unsupported('ref field of ' + type(b).__name__)
        if k == 'downcast':
            return self.ref(fr, p[1])
        if k == 'index':
            b = self.read(fr, p[1]); i = fr.env[p[2]]
            if not isinstance(i, int):
                raise Unsupported('symbolic index')
            if not isinstance(b, list) or i >= len(b):
                raise Panic('index out of bounds')
            return b, i
        if k == 'cindex':
            b = self.read(fr, p[1])
            return b, (len(b) - p[2] if p[4] else p[2])
        raise Unsupported('ref place kind ' + k)

    def read_or_init(self, fr, p, fieldp):
        """base of a field write; creates a tuple / struct shell when the local is built field by field."""
        if p[0] == 'local' and p[1] not in fr.env:
            ty = fr.fn.locals.get(p[1], '')
            if ty.startswith('('):
                fr.env[p[1]] = []
            else:
                head = ty.split('<')[0].split('::')[-1]
                fs = self.T.structs.get(head)
                fr.env[p[1]] = Adt(head, None, [None] * (len(fs) if fs else 0), [f for f, _ in fs] if fs else None)
        return self.read(fr, p)

    # ------------------------------------------------------------ constants
    def const(self, ctx, text):
        c = self._const_cache.get(text)
        if c is not None:
            v = c[0]
            return clone_val(v) if isinstance(v, (Adt, list)) else v
        v = self._const(ctx, text)
        if not isinstance(v, (Closure,)):
            self._const_cache[text] = (v,)
        return clone_val(v) if isinstance(v, (Adt, list)) else v

    def _const(self, ctx, t):
        if t[0] == '"':
            return SStr.of(_unescape(t[1:-1]))
        if t[0] == "'":
            return ord(_unescape(t[1:-1]))
        if t.startswith('b"'):
            return [b for b in _unescape_bytes(t[2:-1])]
        if t == 'true':
            return True
        if t == 'false':
            return False
        if t == '()':
            return []
        m = re.fullmatch(r'(-?\d+)_([iu](?:\d+|size))', t)
        if m:
            return int(m.group(1))
        m = re.fullmatch(r'(-?[\d.]+(?:e-?\d+)?)f(64|32)', t)
        if m:
            return float(m.group(1))
        if t.startswith('ZeroSized: '):
            c = t[11:]
            if c.startswith('{closure@'):
                return Closure(c, [], [])
            m = re.match(r'^fn\(.*\) -> .*? \{(.*)\}$', c, re.S)
            if m:
                return FnItem(m.group(1))
            return FnItem(c)
        m = re.fullmatch(r'\{(alloc\d+): (.*)\}', t, re.S)
        if m:
            hdr = self.prog.allocs.get(m.group(1), '')
            sm = re.match(r'static: ([^,]+)', hdr)
            return mkref(Opaque('static', sm.group(1) if sm else hdr))
        if t == 'swc_core::common::DUMMY_SP' or t.endswith('::DUMMY_SP'):
            return Adt('Span', None, [0, 0], ['lo', 'hi'])
        if re.fullmatch(r'<[iu]\d+ as bitflags::Bits>::EMPTY', t):
            return 0
        if re.fullmatch(r'<[iu]\d+ as bitflags::Bits>::ALL', t):
            return -1
        m = re.match(r'^std::option::Option::<.*>::None$', t)
        if m:
            return NoneV()
        # named constants with a body or a literal in the dump
        name = t
        cands = [name, name.split('::')[-1]]
        for nm in cands:
            c = self.prog.consts.get(nm)
            if c is not None:
                break
        else:
            c = self._find_const(name)
        if c is None:
            raise Unsupported('const ' + t[:160])
        if isinstance(c, tuple):
            return self._const(ctx, c[1])
        return self.run(ctx, c, [])

    def _find_const(self, name):
        # promoted[k] of a function / associated consts printed with <impl at ...> paths
        want = path_tail(name)
        hits = [c for k, c in self.prog.consts.items() if path_tail(k) == want]
        if not hits:
            hits = [c for k, c in self.prog.consts.items() if path_tail(k) and want[-len(path_tail(k)):] == path_tail(k) and
                    all(sg[:1].isupper() for sg in want[:-len(path_tail(k))])]
        if not hits:
            # items nested in a function body (`const FIELDS` inside a derived `deserialize`) are printed bare at their definition
            loose = [c for k, c in self.prog.consts.items() if path_tail(k) and want[-len(path_tail(k)):] == path_tail(k)]
            if len(loose) == 1:
                return loose[0]
        if len(hits) == 1:
            return hits[0]
        if len(hits) > 1:
            # bitflags consts exist once per impl (PatchFlags / InternalBitFlags): prefer the path sharing the first segment
            stem = _strip_generics(name).split('::')[0]
            h2 = [c for k, c in self.prog.consts.items() if path_tail(k) == want and k.split('::')[0] == stem]
            if len(h2) >= 1:
                return h2[0]
            raise Unsupported('ambiguous const ' + name)
        return None

    # ------------------------------------------------------------ operands / rvalues
    def operand(self, ctx, fr, op):
        k = op[0]
        if k == 'move':
            return self.read(fr, op[1])
        if k == 'copy':
            v = self.read(fr, op[1])
            if isinstance(v, list):
                return list(v)
            return v
        return self.const(ctx, op[1])

    def op_type(self, fr, op):
        if op[0] == 'const':
            m = re.search(r'_([iu](?:\d+|size))$', op[1])
            if m:
                return m.group(1)
            if op[1][0] == "'":
                return 'char'
            if op[1] in ('true', 'false'):
                return 'bool'
            m = re.search(r'as ([iu](?:\d+|size)) \(IntToInt\)', op[1])
            return m.group(1) if m else None
        p = op[1]
        if p[0] == 'local':
            return fr.fn.locals.get(p[1])
        if p[0] == 'field':
            return p[3]
        if p[0] == 'deref' and p[1][0] == 'local':
            t = fr.fn.locals.get(p[1][1], '')
            return re.sub(r"^&('\w+ )?(mut )?", '', t)
        if p[0] in ('index', 'cindex'):
            return None
        return None

    def rvalue(self, ctx, fr, rv, dest_ty=None):
        k = rv[0]
        if k == 'use':
            return self.operand(ctx, fr, rv[1])
        if k == 'boxptr':
            # only a Box reached through a reference (`b: &mut Box<T>`) can be written through (`**b = v`); a Box owned by a
            # local or a field keeps value semantics (its pointee is the value itself)
            if rv[1][0] == 'deref' and rv[1][1][0] == 'local' and isinstance(fr.env.get(rv[1][1][1]), Ref):
                c, key = self.ref(fr, rv[1])
                return Ref(c, key)
            return self.operand(ctx, fr, ('copy', rv[1]))
        if k == 'ref' or k == 'rawptr':
            p = rv[1]
            # &(*_x) where _x holds a Ref: re-borrow = same reference
            c, key = self.ref(fr, p)
            return Ref(c, key)
        if k == 'variant':
            path = rv[1]
            segs = _strip_generics(path).split('::')
            fields = [self.operand(ctx, fr, o) for o in rv[2]]
            if len(segs) >= 2 and segs[-2] in self.T.enums and any(v[0] == segs[-1] for v in self.T.enums[segs[-2]]):
                return Adt(segs[-2], segs[-1], fields)
            # tuple struct
            return Adt(segs[-1], None, fields)
        if k == 'struct':
            path = rv[1]
            segs = _strip_generics(path).split('::')
            names = [n for n, _ in rv[2]]
            fields = [self.operand(ctx, fr, o) for _, o in rv[2]]
            if len(segs) >= 2 and segs[-2] in self.T.enums and any(v[0] == segs[-1] for v in self.T.enums[segs[-2]]):
                return Adt(segs[-2], segs[-1], fields, names)
            return Adt(segs[-1], None, fields, names)
        if k == 'disc':
            v = self.read(fr, rv[1])
            return self.discriminant(v)
        if k == 'cast':
            return self.cast(ctx, fr, rv)
        if k == 'bin':
            return self.binop(ctx, fr, rv)
        if k == 'un':
            a = self.operand(ctx, fr, rv[2])
            if rv[1] == 'Not':
                if isinstance(a, bool):
                    return not a
                if is_sym(a):
                    return z3.Not(a) if z3.is_bool(a) else ~a
                t = self.op_type(fr, rv[2])
                w, s = _INT_TY.get(t, (64, False))
                return _wrap(~a, w, s)
            if rv[1] == 'Neg':
                return -a
        if k == 'ptrmeta' or k == 'len':
            v = self.operand(ctx, fr, rv[1]) if k == 'ptrmeta' else self.read(fr, rv[1])
            v = deref(v)
            if isinstance(v, SStr):
                return self.utf8_len(ctx, v)
            return len(v)
        if k == 'closure':
            fields = [self.operand(ctx, fr, o) for _, o in rv[2]]
            names = [n for n, _ in rv[2]]
            extra = self._missing_upvars(fr.fn, rv)
            for loc in extra:
                fields.append(fr.env[loc]); names.append('?' + loc)
            return Closure(rv[1], fields, names)
        if k == 'array' or k == 'tuple':
            return [self.operand(ctx, fr, o) for o in rv[1]]
        if k == 'repeat':
            v = self.operand(ctx, fr, rv[1])
            return [clone_val(v) for _ in range(int(re.match(r'\d+', rv[2].replace('const ', '')).group(0)))]
        raise Unsupported('rvalue ' + repr(rv)[:200])

    def _missing_upvars(self, fn, rv):
        """rustc's MIR printer zips captured *variables* with the aggregate's operands, so when one variable is captured
        through several places (`self.options.x`, `self.helper`: edition-2021 disjoint captures) the trailing operands are not
        printed. They are the temporaries assigned right after the last printed operand; recovered here and verified by type
        against the upvar types the closure body declares."""
        key = (fn.name, rv[1])
        hit = self._upvar_cache.get(key)
        if hit is not None:
            return hit
        body = self.prog.closures.get(rv[1])
        need = {}
        if body is not None:
            for m in re.finditer(r"\('field', \('deref', \('local', '_1'\)\), (\d+), '((?:[^'\\\\]|\\\\.)*)'", repr(list(body.blocks.values()))):
                need[int(m.group(1))] = m.group(2)
            for m in re.finditer(r"\('field', \('local', '_1'\), (\d+), '((?:[^'\\\\]|\\\\.)*)'", repr(list(body.blocks.values()))):
                need[int(m.group(1))] = m.group(2)
        have = len(rv[2])
        extra = []
        if need and max(need) >= have:
            last = rv[2][-1][1]
            if last[0] != 'const' and last[1][0] == 'local':
                n0 = int(last[1][1][1:])
                for idx in range(have, max(need) + 1):
                    loc = '_%d' % (n0 + 1 + idx - have)
                    ty = fn.locals.get(loc)
                    want = need.get(idx)
                    if ty is None or (want is not None and _norm_ty(ty) != _norm_ty(want)):
                        raise Unsupported('cannot recover unprinted closure upvar %d of %s (%s vs %s)' % (idx, rv[1], ty, want))
                    extra.append(loc)
            else:
                raise Unsupported('cannot recover unprinted closure upvars of ' + rv[1])
        self._upvar_cache[key] = extra
        return extra

    def utf8_len(self, ctx, s):
        n = 0
        for c in s.cs:
            if isinstance(c, int):
                n += 1 if c < 0x80 else 2 if c < 0x800 else 3 if c < 0x10000 else 4
            else:
                if ctx.decide(z3.ULT(c, 0x80)): n += 1
                elif ctx.decide(z3.ULT(c, 0x800)): n += 2
                elif ctx.decide(z3.ULT(c, 0x10000)): n += 3
                else: n += 4
        return n

    def discriminant(self, v):
        v = deref(v)
        if isinstance(v, Adt):
            if v.ty in self.T.enums and v.variant is not None:
                return self.T.disc(v.ty, v.variant)
            raise Unsupported('discriminant of %s::%s' % (v.ty, v.variant))
        if isinstance(v, bool):
            return int(v)
        raise Unsupported('discriminant of ' + type(v).__name__)

    def cast(self, ctx, fr, rv):
        v = self.operand(ctx, fr, rv[1]); ty = rv[2]; kind = rv[3]
        if kind in ('Transmute', 'PtrToPtr') or kind.startswith('PointerCoercion'):
            if isinstance(v, Closure) and 'ClosureFnPointer' in kind:
                return v
            return v
        if kind == 'IntToInt':
            w, s = _INT_TY[ty]
            st = self.op_type(fr, rv[1])
            sw, ss = _INT_TY.get(st, (64, False))
            if is_sym(v):
                if z3.is_bool(v):
                    return z3.If(v, z3.BitVecVal(1, w), z3.BitVecVal(0, w))
                if v.size() > w:
                    return z3.Extract(w - 1, 0, v)
                if v.size() < w:
                    return z3.SignExt(w - v.size(), v) if ss else z3.ZeroExt(w - v.size(), v)
                return v
            if isinstance(v, bool):
                v = int(v)
            return _wrap(v, w, s)
        if kind == 'IntToFloat':
            if is_sym(v):
                raise Unsupported('symbolic int to float')
            return float(v)
        if kind == 'FloatToInt':
            return int(v)
        raise Unsupported('cast ' + kind)

    def binop(self, ctx, fr, rv):
        op = rv[1]
        a = self.operand(ctx, fr, rv[2]); b = self.operand(ctx, fr, rv[3])
        if op in ('Eq', 'Ne'):
            r = v_eq(a, b)
            return r if op == 'Eq' else b_not(r)
        t = self.op_type(fr, rv[2]) or self.op_type(fr, rv[3])
        w, s = _INT_TY.get(t, (64, False))
        sym = is_sym(a) or is_sym(b)
        if op in ('Lt', 'Le', 'Gt', 'Ge'):
            if not sym:
                return {'Lt': a < b, 'Le': a <= b, 'Gt': a > b, 'Ge': a >= b}[op]
            ww = a.size() if is_sym(a) else b.size()
            x, y = bv(a, ww), bv(b, ww)
            if s:
                return {'Lt': x < y, 'Le': x <= y, 'Gt': x > y, 'Ge': x >= y}[op]
            return {'Lt': z3.ULT(x, y), 'Le': z3.ULE(x, y), 'Gt': z3.UGT(x, y), 'Ge': z3.UGE(x, y)}[op]
        if isinstance(a, bool) or isinstance(b, bool) or (is_sym(a) and z3.is_bool(a)) or (is_sym(b) and z3.is_bool(b)):
            if op == 'BitAnd': return b_and(a, b)
            if op == 'BitOr': return b_or(a, b)
            if op == 'BitXor': return b_not(v_eq(a, b))
        if not sym:
            if op in ('AddWithOverflow', 'SubWithOverflow', 'MulWithOverflow'):
                r = {'A': a + b, 'S': a - b, 'M': a * b}[op[0]]
                wr = _wrap(r, w, s)
                return [wr, wr != r]
            r = {'Add': lambda: a + b, 'Sub': lambda: a - b, 'Mul': lambda: a * b, 'BitAnd': lambda: a & b, 'BitOr': lambda: a | b,
                 'BitXor': lambda: a ^ b, 'Shl': lambda: a << b, 'Shr': lambda: a >> b, 'AddUnchecked': lambda: a + b,
                 'SubUnchecked': lambda: a - b, 'MulUnchecked': lambda: a * b, 'ShlUnchecked': lambda: a << b,
                 'ShrUnchecked': lambda: a >> b, 'Div': lambda: _div(a, b), 'Rem': lambda: _rem(a, b)}.get(op)
            if r is None:
                raise Unsupported('binop ' + op)
            return _wrap(r(), w, s)
        ww = a.size() if is_sym(a) else b.size()
        x, y = bv(a, ww), bv(b, ww)
        if op in ('Add', 'AddUnchecked'): return x + y
        if op in ('Sub', 'SubUnchecked'): return x - y
        if op == 'BitAnd': return x & y
        if op == 'BitOr': return x | y
        if op == 'BitXor': return x ^ y
        if op == 'AddWithOverflow':
            ov = z3.Not(z3.BVAddNoOverflow(x, y, s)) if not s else z3.Or(z3.Not(z3.BVAddNoOverflow(x, y, True)), z3.Not(z3.BVAddNoUnderflow(x, y)))
            return [x + y, ov]
        if op == 'SubWithOverflow':
            ov = z3.Not(z3.BVSubNoUnderflow(x, y, s)) if not s else z3.Or(z3.Not(z3.BVSubNoOverflow(x, y)), z3.Not(z3.BVSubNoUnderflow(x, y, True)))
            return [x - y, ov]
        raise Unsupported('symbolic binop ' + op)

    # ------------------------------------------------------------ calls
    def resolve(self, callee):
        r = self._resolve_cache.get(callee, 0)
        if r != 0:
            return r
        r = self._resolve(callee)
        self._resolve_cache[callee] = r
        return r

    _MODS = ('util', 'directive', 'resolve_type', 'options', 'slot_flag', 'patch_flags')

    def _resolve(self, callee):
        c = _strip_generics(callee)
        if 'bitflags' in c or 'BitFlags' in c or 'PatchFlags' in c:
            return None
        segs = c.split('::')
        last = segs[-1]
        cands = self._by_last.get(last)
        if not cands:
            return None
        if 'VueJsxTransformVisitor' in callee:
            if c.startswith('<VueJsxTransformVisitor<C> as'):
                hits = [f for f in cands if f.name.startswith('<impl at visitor/src/lib.rs') and 'VisitMut' in f.sig or f.name.startswith('<impl at visitor/src/lib.rs')]
            else:
                hits = [f for f in cands if '<impl at visitor/src/' in f.name]
            # nested fn inside a method (get_atom): match the enclosing method name too
            if len(segs) >= 2 and len(hits) > 1:
                hits2 = [f for f in hits if _strip_generics(mirparse.norm_impl(f.name)).split('::')[-2:] == segs[-2:]]
                if hits2:
                    hits = hits2
            if len(hits) >= 1:
                return hits if len(hits) > 1 else hits[0]
            return None
        mt = re.match(r'^<([\w:]+)(<.*>)? as ([\w:]+)(<.*>)?>::(\w+)$', c)
        if mt and mt.group(1).split('::')[-1] in self.T.structs and not mt.group(3).endswith(('VisitMut', 'VisitMutWith', 'Clone', 'Debug', 'PartialEq', 'Deserialize')):
            # trait method implemented in the crate for a crate type, e.g. <Options as Default>::default
            tname = mt.group(1).split('::')[-1]
            hits = [f for f in cands if '<impl at visitor/src/' in f.name and re.search(r'\b' + tname + r'\b', f.sig)]
            if len(hits) == 1:
                return hits[0]
        if all(s in self._MODS for s in segs[:-1]):
            hits = [f for f in cands if not f.name.startswith('<') and '<impl' not in f.name and f.name.split('::')[-1] == last
                    and (len(f.name.split('::')) == 1 or f.name.split('::')[:-1] == segs[:-1] or all(s in self._MODS for s in f.name.split('::')[:-1]))]
            if len(hits) == 1:
                return hits[0]
            if len(hits) > 1 and len({f.name for f in hits}) == 1 and len({len(f.blocks) for f in hits}) == 1:
                return hits[0]          # a tuple-struct constructor is printed once per use as a function
            if len(hits) > 1:
                raise Unsupported('ambiguous crate fn ' + callee)
        return None

    def call(self, ctx, callee, args, vcallee=None):
        f = self.resolve(callee)
        if isinstance(f, list):
            # same printed name (atom! expansions): use the verbose (disambiguated) name
            f = self._pick_by_vname(f, vcallee, callee)
        if f is not None:
            return self.run(ctx, f, args)
        ctx.stats.models.add(_model_key(callee))
        return self.models.call(self, ctx, callee, args)

    def _pick_by_vname(self, fs, vcallee, callee):
        if vcallee:
            want = _vtail(vcallee)
            hits = [f for f in fs if f.vname and _vtail(f.vname) == want]
            if len(hits) == 1:
                return hits[0]
        raise Unsupported('ambiguous callee ' + callee)

    def call_closure(self, ctx, c, args):
        c = deref(c)
        if isinstance(c, FnItem):
            return self.call(ctx, c.name, list(args))
        if isinstance(c, Closure):
            fn = self.prog.closures.get(c.ident)
            if fn is None:
                raise Unsupported('closure body not in dump: ' + c.ident)
            nparams = len(fn.params)
            if nparams == len(args) + 1:
                return self.run(ctx, fn, [c] + list(args))
            # closure taking its args as one tuple
            return self.run(ctx, fn, [c] + list(args))
        raise Unsupported('call of non-callable ' + type(c).__name__)

    # ------------------------------------------------------------ the interpreter loop
    def run(self, ctx, fn, args):
        if isinstance(fn, str):
            fn = self.fn(fn)
        if fn.name.endswith('::get_atom'):
            return self._atom_literal(fn)
        ctx.depth = getattr(ctx, 'depth', 0) + 1
        if ctx.depth > self.max_depth:
            ctx.depth = 0
            raise StepLimit('call depth %d exceeded in %s (unbounded recursion)' % (self.max_depth, fn.name))
        try:
            return self._run(ctx, fn, args)
        finally:
            ctx.depth -= 1

    def _run(self, ctx, fn, args):
        fr = Frame(fn)
        env = fr.env
        for name, v in zip(fn.params, args):
            env[name] = v
        # zero-sized closures (no captures) are never assigned in MIR: give their locals a value up front
        zs = getattr(fn, '_zst', None)
        if zs is None:
            zs = [(n, t) for n, t in fn.locals.items() if isinstance(t, str) and t.startswith('{closure@') and n not in fn.params]
            try:
                fn._zst = zs
            except AttributeError:
                pass
        for n, t in zs:
            env.setdefault(n, Closure(t, [], []))
        st = ctx.stats
        st.fns[fn.name] = fn.sha
        blocks = fn.blocks
        bb = 'bb0'
        fname = fn.name
        while True:
            st.blocks.add((fname, bb))
            for s in blocks[bb]:
                ctx.steps += 1
                k = s[0]
                if k == 'assign':
                    v = self.rvalue(ctx, fr, s[2])
                    p = s[1]
                    if p[0] == 'local':
                        env[p[1]] = v
                    else:
                        c, key = self.ref(fr, p)
                        c[key] = v
                elif k == 'nop':
                    continue
                elif k == 'call':
                    a = [self.operand(ctx, fr, o) for o in s[3]]
                    if self.trace is not None:
                        self.trace.append((fname, bb, s[2][:200]))
                    r = self.call(ctx, s[2], a, s[5] if len(s) > 5 else None)
                    if s[4] is None:
                        raise Panic('diverging call %s in %s' % (s[2][:80], fname))
                    p = s[1]
                    if p[0] == 'local':
                        env[p[1]] = r
                    else:
                        c, key = self.ref(fr, p)
                        c[key] = r
                    bb = s[4]
                    break
                elif k == 'switch':
                    v = self.operand(ctx, fr, s[1])
                    tgt = None
                    if isinstance(v, bool):
                        v = int(v)
                    if isinstance(v, int):
                        for val, t in s[2]:
                            if val == v:
                                tgt = t; break
                    elif z3.is_bool(v):
                        for val, t in s[2]:
                            if ctx.decide(v if val else z3.Not(v)):
                                tgt = t; break
                    else:
                        for val, t in s[2]:
                            if ctx.decide(v == val):
                                tgt = t; break
                    bb = tgt or s[3]
                    if bb is None:
                        raise Unsupported('switch without target')
                    break
                elif k == 'goto':
                    bb = s[1]; break
                elif k == 'drop':
                    bb = s[2]; break
                elif k == 'return':
                    if ctx.steps > self.max_steps:
                        raise StepLimit(fname)
                    return env.get('_0', [])
                elif k == 'assert':
                    c = self.operand(ctx, fr, s[1])
                    ok = c if s[2] else b_not(c)
                    if not ctx.decide(ok):
                        raise Panic('assertion failed: ' + s[3][:100] + ' in ' + fname)
                    bb = s[4]; break
                elif k == 'unreachable':
                    raise Panic('reached `unreachable` terminator in ' + fname)
                elif k == 'setdisc':
                    raise Unsupported('SetDiscriminant')
                elif k == 'resume':
                    raise Panic('unwinding in ' + fname)
                else:
                    raise Unsupported('statement ' + repr(s)[:200])
            if ctx.steps > self.max_steps:
                raise StepLimit(fname)

    def _atom_literal(self, fn):
        """`atom!("x")` expands to a nested `fn get_atom()` reading a Lazy static whose initialiser closure (printed right
        before it in the dump) builds the atom from a string literal; the literal is read from that closure's MIR."""
        best = None
        if fn.vname:
            needle = '>::' + _vtail(fn.vname) + '::CACHE::'
            for name, fs in self.prog.fns.items():
                if name.endswith('get_atom::CACHE::{closure#0}'):
                    for f in fs:
                        if f.vsig and needle in f.vsig:
                            best = f
        if best is None:
            for name, fs in self.prog.fns.items():
                if name.endswith('get_atom::CACHE::{closure#0}'):
                    for f in fs:
                        if f.line > fn.line and (best is None or f.line < best.line):
                            best = f
        if best is not None:
            for st in best.blocks.get('bb0', []):
                if st[0] == 'call' and st[3] and st[3][0][0] == 'const' and st[3][0][1].startswith('"'):
                    return SStr.of(_unescape(st[3][0][1][1:-1]))
        raise Unsupported('atom! literal of %s not found' % fn.name)

    def fn(self, name, nth=0):
        """look up a crate function by (suffix of) its printed name."""
        if name in self.prog.fns:
            return self.prog.fns[name][nth]
        hits = [f for k, fs in self.prog.fns.items() for f in fs if k.endswith('::' + name) or k == name]
        if len(hits) == 1:
            return hits[0]
        if not hits:
            raise Unsupported('function %s is not in the MIR dump' % name)
        raise Unsupported('function name %s is ambiguous (%d)' % (name, len(hits)))


def _vtail(v):
    """item path after the impl head of a verbose (-Zverbose-internals) name: 'infer_runtime_type::get_atom#3'"""
    v = re.sub(r'[})\s]+$', '', v)
    return v.split('>::')[-1]


def _norm_ty(t):
    t = re.sub(r"'\w+ ", '', t)
    t = re.sub(r'\b(std|core|alloc)::(\w+::)*', '', t)
    t = re.sub(r'\bswc_core::(\w+::)*', '', t)
    return t.replace(' ', '')


def _model_key(callee):
    return re.sub(r'<[^<>]*>', '<_>', _strip_generics(callee))[:120]


def _strip_generics(s):
    """remove ::<...> turbofish groups (balanced)."""
    out = []
    i = 0
    n = len(s)
    while i < n:
        if s.startswith('::<', i):
            d = 0
            j = i + 2
            while j < n:
                if s[j] == '<':
                    d += 1
                elif s[j] == '>' and s[j - 1] not in '-=':
                    d -= 1
                    if d == 0:
                        break
                j += 1
            i = j + 1
            continue
        out.append(s[i]); i += 1
    return ''.join(out)


def split_path(p):
    """split a rust path at top-level '::' (respecting <...>, (...), {...})"""
    out = []; d = 0; cur = []
    i = 0
    n = len(p)
    while i < n:
        c = p[i]
        if c in '<({[':
            d += 1
        elif c in ')}]':
            d -= 1
        elif c == '>' and i > 0 and p[i - 1] not in '-=':
            d -= 1
        if c == ':' and d == 0 and p[i:i + 2] == '::':
            out.append(''.join(cur)); cur = []; i += 2
            continue
        cur.append(c); i += 1
    out.append(''.join(cur))
    return out


_TAIL_CACHE = {}


def path_tail(p):
    """the item-path part that definition sites and use sites print identically: segments without impl heads,
    module names, the visitor type and turbofish groups."""
    r = _TAIL_CACHE.get(p)
    if r is None:
        segs = []
        for sg in split_path(p):
            if not sg or sg.startswith('<') or sg in Interp._MODS or sg in ('VueJsxTransformVisitor', '_', 'crate'):
                continue
            segs.append(sg)
        r = tuple(segs)
        _TAIL_CACHE[p] = r
    return r


def _tail_match(defname, callname):
    """does the call-site path (e.g. VueJsxTransformVisitor::<C>::f::{closure#0}) denote the definition path?"""
    d = [x for x in _strip_generics(mirparse.norm_impl(defname)).split('::') if not x.startswith('<impl')]
    c = [x for x in callname.split('::') if x not in ('VueJsxTransformVisitor',) and not x.startswith('<impl')]
    k = min(len(d), len(c))
    # compare from the end, ignoring module / impl prefixes
    i = 1
    while i <= k and d[-i] == c[-i]:
        i += 1
    return i > 1 and (i > k or d[-i] in Interp._MODS or c[-i] in Interp._MODS or True)


def _wrap(v, w, signed):
    v &= (1 << w) - 1
    if signed and v >> (w - 1):
        v -= 1 << w
    return v


def _div(a, b):
    if b == 0:
        raise Panic('division by zero')
    q = abs(a) // abs(b)
    return q if (a < 0) == (b < 0) else -q


def _rem(a, b):
    if b == 0:
        raise Panic('remainder by zero')
    return a - b * _div(a, b)


def _unescape(s):
    out = []
    i = 0
    n = len(s)
    while i < n:
        c = s[i]
        if c == '\\':
            d = s[i + 1]
            if d == 'n': out.append('\n'); i += 2
            elif d == 't': out.append('\t'); i += 2
            elif d == 'r': out.append('\r'); i += 2
            elif d == '0': out.append('\0'); i += 2
            elif d == 'x': out.append(chr(int(s[i + 2:i + 4], 16))); i += 4
            elif d == 'u':
                j = s.index('}', i); out.append(chr(int(s[i + 3:j], 16))); i = j + 1
            else: out.append(d); i += 2
        else:
            out.append(c); i += 1
    return ''.join(out)


def _unescape_bytes(s):
    return [ord(c) for c in _unescape(s)]
