"""Small helpers to look at emitted (output) expressions, for native replay and oracles."""
from .values import *
from . import astio


def find_decl_init(program, name):
    """init expression of `const|let|var <name> = <init>` anywhere in the program."""
    hits = []

    def f(v, p):
        if isinstance(v, Adt) and v.ty == 'VarDeclarator':
            nm = v.get('name')
            if nm.variant == 'Ident' and nm.fields[0].get('id').get('sym').py() == name and is_some(v.get('init')):
                hits.append(v.get('init').fields[0])
    astio.walk(program, f)
    return hits[0] if hits else None


def is_call(e):
    return isinstance(e, Adt) and e.ty == 'Expr' and e.variant == 'Call'


def call_parts(e):
    """Expr::Call -> (callee_name | None, [arg Expr or ('spread', Expr)])"""
    c = e.fields[0]
    callee = c.get('callee')
    name = None
    if callee.variant == 'Expr':
        ce = deref(callee.fields[0])
        if ce.variant == 'Ident':
            name = S(ce.fields[0].get('sym'))
    args = []
    for a in c.get('args'):
        args.append(deref(a.get('expr')) if not is_some(a.get('spread')) else ('spread', deref(a.get('expr'))))
    return name, args


def S(v):
    v = deref(v)
    return v.py() if isinstance(v, SStr) and v.is_concrete() else v


def str_lit(e):
    e = deref(e)
    if isinstance(e, Adt) and e.ty == 'Expr' and e.variant == 'Lit' and e.fields[0].variant == 'Str':
        return e.fields[0].fields[0].get('value')
    return None


def is_null(e):
    e = deref(e)
    return isinstance(e, Adt) and e.ty == 'Expr' and e.variant == 'Lit' and e.fields[0].variant == 'Null'


def array_elems(e):
    e = deref(e)
    if isinstance(e, Adt) and e.ty == 'Expr' and e.variant == 'Array':
        return e.fields[0].get('elems')
    return None
