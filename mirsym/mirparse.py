"""Parser for rustc's `-Zunpretty=mir` text (nightly 1.97) into a compact structure.

Program.fns[name] = Fn(name, params, ret_ty, locals, blocks, text_sha)
Block = (stmts, term).  Statements / terminators / places / operands / rvalues are tuples:

place   : ('local', '_N') | ('deref', p) | ('field', p, idx, ty) | ('downcast', p, variant)
          | ('index', p, '_N') | ('cindex', p, off, minlen, from_end) | ('subslice', p, a, b, from_end)
operand : ('copy', place) | ('move', place) | ('const', text)
rvalue  : ('use', operand) | ('ref', place, mut) | ('rawptr', place) | ('disc', place) | ('len', place)
          | ('ptrmeta', operand) | ('bin', op, a, b) | ('un', op, a) | ('cast', operand, ty, kind)
          | ('array', [ops]) | ('tuple', [ops]) | ('struct', path, [(name, op)]) | ('variant', path, [ops])
          | ('closure', ident, [(name, op)]) | ('repeat', op, n) | ('unknown', text)
stmt    : ('assign', place, rvalue) | ('nop',) | ('setdisc', place, variant_index)
term    : ('goto', bb) | ('switch', operand, [(int, bb)], otherwise_bb) | ('call', dest_place, callee, [ops], ret_bb)
          | ('drop', place, bb) | ('assert', operand, expected_bool, msg, bb) | ('return',) | ('unreachable',)
          | ('resume',) | ('unknown', text)
"""
import re, hashlib


class Fn:
    __slots__ = ('name', 'params', 'ret_ty', 'locals', 'blocks', 'sha', 'kind', 'line', 'vname', 'sig', 'vsig', '_zst')

    def __init__(self, name, kind):
        self.name = name; self.kind = kind; self.params = []; self.ret_ty = None
        self.locals = {}; self.blocks = {}; self.sha = None; self.line = 0; self.vname = None; self.sig = ''; self.vsig = ''; self._zst = None


class Program:
    def __init__(self):
        self.fns = {}        # name -> [Fn] (same printed name may occur several times)
        self.consts = {}     # name -> Fn | ('lit', text)
        self.statics = {}    # name -> Fn
        self.allocs = {}     # allocN -> header text (static name, fn shim, ...) / bytes
        self.closures = {}   # '{closure@file:l:c: l:c}' -> Fn
        self.char_consts = []


def find_close(s, i, open_ch='(', close_ch=')'):
    """index of the bracket closing the one at s[i]."""
    d = 0
    n = len(s)
    while i < n:
        c = s[i]
        if c == open_ch:
            d += 1
        elif c == close_ch:
            d -= 1
            if d == 0:
                return i
        elif c == '"':
            i += 1
            while i < n and s[i] != '"':
                if s[i] == '\\':
                    i += 1
                i += 1
        i += 1
    raise ValueError('unbalanced: ' + s[:120])


def split_top(s, sep=','):
    out = []; d = 0; cur = []; i = 0; n = len(s)
    while i < n:
        c = s[i]
        if c == '"':
            j = i + 1
            while j < n and s[j] != '"':
                if s[j] == '\\':
                    j += 1
                j += 1
            cur.append(s[i:j + 1]); i = j + 1; continue
        if c == "'" and i + 2 < n and (s[i + 2] == "'" or (s[i + 1] == '\\')):
            # char literal
            j = s.index("'", i + 2 if s[i + 1] != '\\' else i + 3)
            cur.append(s[i:j + 1]); i = j + 1; continue
        if c in '([{':
            d += 1
        elif c in ')]}':
            d -= 1
        elif c == '<':
            d += 1
        elif c == '>' and i > 0 and s[i - 1] not in '-=':
            d -= 1
        if c == sep and d == 0:
            out.append(''.join(cur)); cur = []
        else:
            cur.append(c)
        i += 1
    last = ''.join(cur)
    if last.strip():
        out.append(last)
    return [x.strip() for x in out]


# ------------------------------------------------------------------ places
_local_re = re.compile(r'_\d+')


def parse_place(s):
    s = s.strip()
    p, i = _place(s, 0)
    if i != len(s):
        raise ValueError('trailing in place: %r at %d' % (s, i))
    return p


def _place(s, i):
    if s[i] == '_':
        m = _local_re.match(s, i)
        p = ('local', m.group(0)); i = m.end()
    elif s[i] == '(':
        j = find_close(s, i)
        inner = s[i + 1:j]
        p = _paren(inner)
        i = j + 1
    elif s[i] == '*':           # bare deref without parens (rare)
        q, i = _place(s, i + 1)
        p = ('deref', q)
    else:
        raise ValueError('place? %r' % s[i:i + 60])
    # postfix index projections
    while i < len(s) and s[i] == '[':
        j = find_close(s, i, '[', ']')
        ix = s[i + 1:j]
        m = re.fullmatch(r'(-?)(\d+) of (\d+)', ix)
        if m:
            p = ('cindex', p, int(m.group(2)), int(m.group(3)), m.group(1) == '-')
        elif re.fullmatch(r'_\d+', ix):
            p = ('index', p, ix)
        else:
            m = re.fullmatch(r'(\d+):(-?)(\d*)', ix) or re.fullmatch(r'(\d+)\.\.(-?)(\d*)', ix)
            if not m:
                raise ValueError('index? ' + ix)
            p = ('subslice', p, int(m.group(1)), int(m.group(3) or 0), m.group(2) == '-')
        i = j + 1
    return p, i


def _paren(inner):
    if inner.startswith('*'):
        q, k = _place(inner, 1)
        if k != len(inner):
            raise ValueError('deref trailing ' + inner)
        return ('deref', q)
    q, k = _place(inner, 0)
    rest = inner[k:]
    m = re.fullmatch(r' as (\w+)', rest)
    if m:
        return ('downcast', q, m.group(1))
    m = re.match(r'\.(\d+): ', rest)
    if m:
        return ('field', q, int(m.group(1)), rest[m.end():])
    m = re.fullmatch(r' as variant#(\d+)', rest)
    if m:
        return ('downcast', q, int(m.group(1)))
    raise ValueError('projection? %r' % inner[:200])


# ------------------------------------------------------------------ operands / rvalues
def parse_operand(s):
    s = s.strip()
    if s.startswith('no_retag '):
        s = s[9:]
    if s.startswith('copy '):
        return ('copy', parse_place(s[5:]))
    if s.startswith('move '):
        return ('move', parse_place(s[5:]))
    if s.startswith('const '):
        return ('const', s[6:].strip())
    if re.match(r'^[<A-Za-z_{]', s):
        return ('const', 'ZeroSized: ' + s)
    raise ValueError('operand? %r' % s[:120])


_BIN = ('Eq', 'Ne', 'Lt', 'Le', 'Gt', 'Ge', 'Add', 'Sub', 'Mul', 'Div', 'Rem', 'BitAnd', 'BitOr', 'BitXor', 'Shl', 'Shr',
        'AddWithOverflow', 'SubWithOverflow', 'MulWithOverflow', 'AddUnchecked', 'SubUnchecked', 'MulUnchecked',
        'ShlUnchecked', 'ShrUnchecked', 'Offset', 'Cmp')
_bin_re = re.compile(r'(' + '|'.join(_BIN) + r')\((.*)\)$', re.S)
_cast_re = re.compile(r'^(.*) as (.*) \(([A-Za-z]+(?:\(.*\))?)\)$', re.S)


def parse_rvalue(s):
    s = s.strip()
    if s.startswith('no_retag copy '):
        # `_b = no_retag copy <place of a Box>` (then `(_b.0).0 as *const T`): the box pointer is read to reach its pointee;
        # the copy aliases the place, so that `**b = v` / `&mut **b` land in the tree
        try:
            return ('boxptr', parse_place(s[14:]))
        except ValueError:
            pass
    if s.startswith('no_retag '):
        s = s[9:]
    try:
        return _rvalue(s)
    except ValueError as e:
        return ('unknown', s, str(e))


def _rvalue(s):
    if s.startswith('&raw const ') or s.startswith('&raw mut '):
        rest = s.split(' ', 2)[2]
        rest = re.sub(r'^\(fake\) ', '', rest)      # `&raw const (fake) (*_x)`: the pointer slice patterns take the length from
        return ('rawptr', parse_place(rest))
    if s.startswith('&mut '):
        return ('ref', parse_place(s[5:]), True)
    if s.startswith('&'):
        t = s[1:]
        t = re.sub(r"^'\w+ ", '', t)
        if t.startswith('fake '):
            t = re.sub(r'^fake (shallow |deep )?', '', t)
        return ('ref', parse_place(t), False)
    if s.startswith('discriminant('):
        return ('disc', parse_place(s[13:-1]))
    if s.startswith('PtrMetadata('):
        return ('ptrmeta', parse_operand(s[12:-1]))
    if s.startswith('Len('):
        return ('len', parse_place(s[4:-1]))
    if s.startswith('Not(') or s.startswith('Neg('):
        return ('un', s[:3], parse_operand(s[4:-1]))
    m = _bin_re.match(s)
    if m:
        a, b = split_top(m.group(2))
        return ('bin', m.group(1), parse_operand(a), parse_operand(b))
    if s.startswith(('copy ', 'move ', 'const ')):
        m = _cast_re.match(s)
        if m and not (s.startswith('const ') and '"' in m.group(1)):
            return ('cast', parse_operand(m.group(1)), m.group(2), m.group(3))
        return ('use', parse_operand(s))
    if s.startswith('['):
        j = find_close(s, 0, '[', ']')
        inner = s[1:j]
        parts = split_top(inner, ';')
        if len(parts) == 2 and j == len(s) - 1 and not inner.startswith(('copy', 'move', 'const')) is False and ';' in inner:
            try:
                return ('repeat', parse_operand(parts[0]), parts[1])
            except ValueError:
                pass
        return ('array', [parse_operand(x) for x in split_top(inner)])
    if s.startswith('{closure@') or s.startswith('{coroutine@'):
        j = find_close(s, 0, '{', '}')
        ident = s[:j + 1]; rest = s[j + 1:].strip()
        fields = []
        if rest:
            assert rest[0] == '{' and rest[-1] == '}', s
            for f in split_top(rest[1:-1].strip()):
                n, v = f.split(': ', 1)
                fields.append((n, parse_operand(v)))
        return ('closure', ident, fields)
    if s.startswith('('):
        j = find_close(s, 0)
        if j == len(s) - 1:
            inner = s[1:j]
            if inner.strip() == '':
                return ('tuple', [])
            return ('tuple', [parse_operand(x) for x in split_top(inner)])
    # struct / variant aggregates:  Path { a: op, .. } | Path(op, ..) | Path
    if s.endswith('}'):
        k = _find_top_brace(s)
        if k is not None:
            path = s[:k].strip()
            body = s[k + 1:-1].strip()
            fields = []
            for f in (split_top(body) if body else []):
                n, v = f.split(': ', 1)
                fields.append((n, parse_operand(v)))
            return ('struct', path, fields)
    if s.endswith(')'):
        k = _match_paren_back(s)
        path = s[:k]
        if re.match(r'^[\w:<>&\', \[\]\(\);\-\{\}@/\.#*=+]+$', path) and ('::' in path or re.match(r'^\w+$', path)):
            inner = s[k + 1:-1]
            return ('variant', path, [parse_operand(x) for x in split_top(inner)] if inner.strip() else [])
    if re.match(r'^[\w:<>&\', \[\]\(\);\-]+$', s):
        return ('variant', s, [])
    raise ValueError('rvalue? %r' % s[:200])


def _find_top_brace(s):
    """index of the '{' that opens the trailing '{...}' body of a struct aggregate (top-level)."""
    d = 0
    i = len(s) - 1
    while i >= 0:
        c = s[i]
        if c == '}':
            d += 1
        elif c == '{':
            d -= 1
            if d == 0:
                return i if i > 0 and s[i - 1] == ' ' else None
        i -= 1
    return None


def _match_paren_back(s):
    d = 0
    k = len(s) - 1
    while k >= 0:
        c = s[k]
        if c == ')':
            d += 1
        elif c == '(':
            d -= 1
            if d == 0:
                return k
        k -= 1
    raise ValueError('unbalanced back: ' + s[:100])


# ------------------------------------------------------------------ statements / terminators
_call_re = re.compile(r'^(.+?) = (.*) -> \[return: (bb\d+)(?:, unwind[^\]]*)?\];$', re.S)
_call_noret_re = re.compile(r'^(.+?) = (.*) -> (unwind [a-z]+|\[unwind[^\]]*\]|unwind: bb\d+);$', re.S)


def parse_line(line):
    if line.startswith(('StorageLive', 'StorageDead', 'FakeRead', 'PlaceMention', 'AscribeUserType', 'ConstEvalCounter', 'Coverage', 'nop', 'Retag', 'BackwardIncompatibleDropHint')):
        return ('nop',)
    if line == 'return;':
        return ('return',)
    if line == 'unreachable;':
        return ('unreachable',)
    if line.startswith('resume') or line.startswith('terminate') or line.startswith('abort'):
        return ('resume',)
    m = re.match(r'goto -> (bb\d+);', line)
    if m:
        return ('goto', m.group(1))
    m = re.match(r'(?:falseEdge|falseUnwind) -> \[real: (bb\d+)', line)
    if m:
        return ('goto', m.group(1))
    m = re.match(r'drop\((.*)\) -> \[return: (bb\d+)', line)
    if m:
        return ('drop', parse_place(m.group(1)), m.group(2))
    m = re.match(r'switchInt\((.*)\) -> \[(.*)\];$', line, re.S)
    if m:
        arms = []; other = None
        for arm in m.group(2).split(', '):
            k, t = arm.split(': ')
            if k == 'otherwise':
                other = t
            else:
                arms.append((int(k), t))
        return ('switch', parse_operand(m.group(1)), arms, other)
    m = re.match(r'assert\((!?)(.*?), (".*) -> \[success: (bb\d+)', line, re.S)
    if m:
        return ('assert', parse_operand(m.group(2)), m.group(1) != '!', m.group(3)[:200], m.group(4))
    m = _call_re.match(line)
    if m and m.group(2).endswith(')'):
        ce = m.group(2)
        k = _match_paren_back(ce)
        args = [parse_operand(x) for x in split_top(ce[k + 1:-1])] if ce[k + 1:-1].strip() else []
        return ('call', parse_place(m.group(1)), ce[:k], args, m.group(3))
    m = _call_noret_re.match(line)
    if m and m.group(2).endswith(')'):
        ce = m.group(2)
        k = _match_paren_back(ce)
        args = [parse_operand(x) for x in split_top(ce[k + 1:-1])] if ce[k + 1:-1].strip() else []
        return ('call', parse_place(m.group(1)), ce[:k], args, None)
    m = re.match(r'discriminant\((.*)\) = (\d+);', line)
    if m:
        return ('setdisc', parse_place(m.group(1)), int(m.group(2)))
    m = re.match(r'^(.+?) = (.*);$', line, re.S)
    if m:
        try:
            return ('assign', parse_place(m.group(1)), parse_rvalue(m.group(2)))
        except ValueError as e:
            return ('unknown', line, str(e))
    return ('unknown', line, 'no pattern')


_hdr_re = re.compile(r'^(fn|const|static(?: mut)?) (.*)$')
_bb_re = re.compile(r'^    (bb\d+)(?: \(cleanup\))?: \{$')


def norm_impl(name):
    return re.sub(r'<impl at [^>]*?(\d+:\d+: \d+:\d+)>', r'<impl@\1>', name)


def parse_program(text, verbose_text=None):
    prog = Program()
    prog.char_consts = re.findall(r"const '(\\?.)'", text)
    lines = text.split('\n')
    vlines = verbose_text.split('\n') if verbose_text is not None else None
    if vlines is not None and len(vlines) != len(lines):
        vlines = None
    i = 0
    n = len(lines)
    while i < n:
        line = lines[i]
        m = _hdr_re.match(line) if line and line[0] in 'fcs' else None
        if not m:
            m2 = re.match(r'^(alloc\d+) \((.*)\) \{', line)
            if m2:
                prog.allocs[m2.group(1)] = m2.group(2)
            else:
                m3 = re.match(r'^(alloc\d+) \((fn: .*)\)$', line)
                if m3:
                    prog.allocs[m3.group(1)] = m3.group(2)
            i += 1
            continue
        kind = m.group(1).split()[0]
        rest = m.group(2)
        if kind in ('const', 'static') and not rest.rstrip().endswith('{'):
            # const NAME: TY = const VALUE;
            k0 = _top_colon(rest)
            mm = re.match(r'^(.*) = const (.*);$', rest[k0 + 2:], re.S) if k0 is not None else None
            if mm:
                prog.consts[rest[:k0]] = ('lit', mm.group(2), mm.group(1))
            i += 1
            continue
        # find end of item: a line that is exactly '}'
        j = i + 1
        while j < n and lines[j] != '}':
            j += 1
        body = lines[i:j + 1]
        if kind == 'fn':
            k = rest.index('(') if not rest.startswith('<') else _fn_name_end(rest)
            name = rest[:k]
            close = find_close(rest, k)
            params_txt = rest[k + 1:close]
            fn = Fn(name, 'fn')
            fn.sig = rest
            for p in split_top(params_txt):
                pm = re.match(r'(_\d+): (.*)$', p, re.S)
                if pm:
                    fn.params.append(pm.group(1)); fn.locals[pm.group(1)] = pm.group(2)
            rm = re.match(r' -> (.*) \{$', rest[close + 1:])
            fn.ret_ty = rm.group(1) if rm else '()'
        else:
            k0 = _top_colon(rest)
            name = rest[:k0] if k0 is not None else rest
            fn = Fn(name, kind)
            fn.ret_ty = rest[k0 + 2:].rsplit(' = {', 1)[0] if k0 is not None else None
        fn.line = i + 1
        if vlines is not None:
            vm = _hdr_re.match(vlines[i])
            if vm:
                vr = vm.group(2)
                fn.vsig = vr
                fn.vname = vr[:(vr.index('(') if not vr.startswith('<') else _fn_name_end(vr))] if kind == 'fn' else vr[:_top_colon(vr) or len(vr)]
        cur = None
        cur_lines = None
        for off, bl in enumerate(body):
            if cur is None:
                bm = _bb_re.match(bl)
                if bm:
                    cur = bm.group(1); cur_lines = []
                    continue
                lm = re.match(r'^\s+let (?:mut )?(_\d+): (.*);$', bl)
                if lm:
                    fn.locals[lm.group(1)] = lm.group(2)
            else:
                if bl == '    }':
                    stmts = [parse_line(x) for x in cur_lines]
                    if vlines is not None:
                        # attach verbose callee names to call terminators
                        for si, st in enumerate(stmts):
                            if st[0] == 'call' and 'get_atom' in st[2]:
                                vl = vlines[i + cur_start + si].strip()
                                vm2 = _call_re.match(vl)
                                if vm2:
                                    ce = vm2.group(2); kk = _match_paren_back(ce)
                                    stmts[si] = st + (ce[:kk],)
                    fn.blocks[cur] = stmts
                    cur = None
                else:
                    if not cur_lines:
                        cur_start = off
                    t = bl.strip()
                    if t:
                        cur_lines.append(t)
                    else:
                        cur_lines.append('nop')
        fn.sha = hashlib.sha256('\n'.join(body).encode()).hexdigest()[:16]
        if kind == 'fn':
            prog.fns.setdefault(name, []).append(fn)
            if fn.params:
                cm = re.match(r"^&?(?:'\w+ )?(?:mut )?(\{closure@[^}]*\})", fn.locals[fn.params[0]])
                if cm and '{closure#' in name:
                    prog.closures[cm.group(1)] = fn
        elif kind == 'const':
            prog.consts[name] = fn
        else:
            prog.statics.setdefault(name, []).append(fn)
        i = j + 1
    return prog


def _top_colon(rest):
    """index of the first ': ' that is not inside <...> (impl paths contain 'file:l:c: l:c')"""
    d = 0
    for k, c in enumerate(rest):
        if c == '<':
            d += 1
        elif c == '>' and k > 0 and rest[k - 1] not in '-=':
            d -= 1
        elif c == ':' and d == 0 and rest[k:k + 2] == ': ' and rest[k - 1] != ':':
            return k
    return None


def _fn_name_end(rest):
    # name may start with '<impl at ...>::' or '<T as Trait>::'; find the '(' that opens the params at depth 0
    d = 0
    for k, c in enumerate(rest):
        if c == '<':
            d += 1
        elif c == '>' and k > 0 and rest[k - 1] not in '-=':
            d -= 1
        elif c == '(' and d == 0:
            return k
    raise ValueError(rest)


if __name__ == '__main__':
    import sys, time, collections
    t = time.time()
    prog = parse_program(open(sys.argv[1]).read(), open(sys.argv[2]).read() if len(sys.argv) > 2 else None)
    print('fns', sum(len(v) for v in prog.fns.values()), 'consts', len(prog.consts), 'closures', len(prog.closures), 'time %.2f' % (time.time() - t))
    unk = collections.Counter()
    for fs in list(prog.fns.values()) + [[c] for c in prog.consts.values() if isinstance(c, Fn)]:
        for f in fs:
            for bb, stmts in f.blocks.items():
                for st in stmts:
                    if st[0] == 'unknown':
                        unk[st[1][:150] + ' :: ' + st[2][:60]] += 1
                    if st[0] == 'assign' and st[2][0] == 'unknown':
                        unk['RV ' + st[2][1][:150] + ' :: ' + st[2][2][:80]] += 1
    for k, v in unk.most_common(40):
        print(v, k)
