"""C07 - output is plain valid ECMAScript/TypeScript, or an error was reported.
Decided at AST level on whole-module runs: (no JSX node, no empty identifier, identifier-keyed members and callees are
IdentifierNames) or a diagnostic; the native replay uses the real printer + parser (re-parse as a non-JSX module)."""
import sys, itertools, json, re
import z3
from ..engine import *
from ..values import *
from .. import harness, denote, astio, driver, jsout, world
from ..harness import Leaf, Skeleton
from . import common, elements
from .elements import PRELUDE

PROP = 'C07'
MOD = 'mirsym.checks.c07'

FORMS = {
    'attr-element': '<div a=<b/> />', 'attr-fragment': '<div a=<>x</> />', 'attr-element-comp': '<Foo a=<b>{{v1}}</b> />', 'attr-nested': '<div a=<i b=<u/> /> />',
    'ns-tag': '<a:b/>', 'ns-tag-children': '<svg:rect x="1">t</svg:rect>', 'member-tag': '<v1.Foo/>', 'member-this': '<this.Foo/>', 'member-deep': '<v1.a.b>x</v1.a.b>',
    'dir-valueless': '<div v-foo/>', 'dir-valueless-mod': '<div v-foo_m/>', 'model-valueless': '<input v-model/>', 'html-valueless': '<div v-html/>', 'text-valueless': '<div v-text/>',
    'show-valueless': '<div v-show/>', 'slots-valueless': '<Foo v-slots/>', 'dir-str': '<div v-foo="s"/>', 'model-str': '<input v-model="s"/>',
    'dir-empty-array': '<div v-foo={{[]}}/>', 'dir-hole': '<div v-foo={{[, v1]}}/>', 'dir-spread': '<div v-foo={{[...v1]}}/>', 'dir-hole2': '<div v-foo={{[v1, , ["m"]]}}/>',
    'model-empty-array': '<input v-model={{[]}}/>', 'model-hole': '<Foo v-model={{[, "a"]}}/>', 'model-spread': '<Foo v-model={{[...v1]}}/>', 'models-nonarray': '<Foo v-models={{v1}}/>',
    'models-holes': '<Foo v-models={{[, [v1], ...v2]}}/>', 'models-str': '<Foo v-models="x"/>', 'models-valueless': '<Foo v-models/>', 'models-inner-hole': '<Foo v-models={{[[, "a"]]}}/>',
    'mod-nonident': '<div v-foo={{[v1, ["a-b", "1x"]]}}/>', 'mod-empty': '<div v-foo={{[v1, [""]]}}/>', 'mod-nonident-model': '<input v-model={{[v1, ["a b"]]}}/>',
    'mod-nonident-comp': '<Foo v-model={{[v1, ["a-b"]]}}/>', 'mod-suffix-hyphen': '<div v-foo_a-b={{v1}}/>', 'mod-suffix-digit': '<div v-foo_1={{v1}}/>', 'mod-suffix-model': '<input v-model_a-b={{v1}}/>',
    'mod-sym-el': '<div v-foo={{[v1, ["{M}"]]}}/>', 'mod-sym-model-el': '<input v-model={{[v1, ["{M}"]]}}/>', 'mod-sym-comp': '<Foo v-model={{[v1, ["{M}"]]}}/>', 'mod-sym-show': '<div v-show={{[v1, "a", ["{M}"]]}}/>',
    'spread-child': '<div>{{...v1}}</div>', 'empty-child': '<div>{{}}</div>', 'cmt-child': '<Foo>{{/* c */}}</Foo>', 'str-entities': '<div title="a&quot;b">x &amp; y</div>',
    'attr-str-sym': '<div title="{M}"/>', 'attr-str-sym-comp': '<Foo title="{M}" id="k"/>', 'html-str-sym': '<div v-html="{M}"/>', 'text-str-sym': '<p v-text="{M}"/>',
    'dir-str-sym': '<div v-foo="{M}"/>', 'attr-ns': '<div xlink:href="u" a:b={{v1}}/>', 'key-hyphen': '<div data-x="1" aria-label={{v1}}/>', 'text-only-ws': '<div>   </div>',
    'vslots-el': '<Foo v-slots=<b/>/>', 'dir-element': '<div v-foo=<b/> />', 'dir-fragment': '<div v-foo=<>x<i/></> />', 'show-fragment': '<div v-show=<>y</> />',
    'dir-ns-fragment': '<Foo v-foo:arg_m=<>z</> />', 'dir-camel-element': '<Foo vFoo_m=<b>{{v1}}</b> />', 'model-element': '<input v-model=<b/> />', 'model-fragment': '<Foo v-model=<>m</> />',
    'models-element': '<Foo v-models=<b/> />',
    'on-ns': '<div on:click={{v1}} on:update-value={{v2}}/>', 'nativeon-ns': '<Foo nativeOn:key-up={{v1}} on:after-leave/>', 'on-ns-member': '<v1.a.b on:x-y={{v2}}/>', 'on-obj-keys': '<div on={{{{"a-b": v1, c: v2}}}}/>',
    'model-sum': '<input v-model={{v1 + v2}}/>', 'model-call': '<Foo v-model={{f1()}}/>', 'model-lit': '<Foo v-model={{1}}/>', 'model-arrow': '<input v-model={{() => v1}}/>', 'model-cond': '<Foo v-model={{v1 ? v2 : v3}}/>',
    'model-this': '<Foo v-model={{this}}/>', 'model-optchain': '<Foo v-model={{v1?.x}}/>',
    'model-optchain-tail': '<input v-model={{v1?.x.y}}/>', 'model-optchain-index': '<Foo v-model={{v1.r?.[v2].value}}/>', 'model-optchain-array': '<Foo v-model={{[v1?.f.t, "q", ["trim"]]}}/>', 'model-optcall': '<Foo v-model={{v1?.x.get()}}/>',
    'model-optchain-paren': '<input v-model={{(v1?.x.y)}}/>', 'models-optchain': '<Foo v-models={{[[v1?.a.b, "a"]]}}/>', 'model-update': '<Foo v-model={{v1++}}/>', 'model-assign': '<input v-model={{v1 = v2}}/>', 'model-new': '<Foo v-model={{new v1()}}/>',
    'model-tagged': '<Foo v-model={{v1`t`}}/>', 'model-unary': '<input v-model={{!v1}}/>', 'model-seq': '<Foo v-model={{(v1, v2)}}/>', 'model-tpl': '<Foo v-model={{`a${{v1}}`}}/>', 'model-fn': '<Foo v-model={{function () {{}}}}/>',
    'model-member-call-member': '<Foo v-model={{f1().x}}/>', 'models-sum': '<Foo v-models={{[[v1 + v2, "a"]]}}/>', 'model-paren-member': '<Foo v-model={{(v1.x)}}/>', 'model-index': '<Foo v-model={{v1[v2]}}/>', 'arg-nonstr': '<div v-foo:arg={{v1}}/>', 'ns-dir-suffix': '<div v-foo:a-b_c-d={{v1}}/>',
}


# whole modules: JSX at places other than an initialiser - wherever the transform copies or re-inserts syntax, the copy must be lowered too
MODULES = {
    'dc-default-static': "import {{ defineComponent }} from 'vue';\ninterface P {{ label?: string; icon?: () => any; el?: object }}\nexport default defineComponent((props: P = {{ label: 'ok', icon: () => <i class=\"dot\"/>, el: <b>x</b> }}) => () => <button>{{props.label}}</button>);",
    'dc-default-dynamic': "import {{ defineComponent }} from 'vue';\nconst base: any = {{}};\nexport default defineComponent((props: {{ empty?: () => any }} = {{ ...base, empty: () => <i>nothing</i> }}) => () => null);",
    'dc-default-getter': "import {{ defineComponent }} from 'vue';\nexport default defineComponent((props: {{ a?: object; m?(): any }} = {{ get a() {{ return <u/> }}, m() {{ return <s/> }} }}) => () => null);",
    'dc-default-fn': "import {{ defineComponent }} from 'vue';\nexport const C = defineComponent(function (props: {{ a?: object }} = {{ a: <>frag</> }}) {{ return () => <Foo>{{props.a}}</Foo> }});",
    'dc-options': "import {{ defineComponent }} from 'vue';\nexport const C = defineComponent((props: {{ a: string }}) => () => <p/>, {{ name: 'N', render: () => <div/>, slots: [<b/>] }});",
    'dc-emits-body': "import {{ defineComponent, type SetupContext }} from 'vue';\nexport const C = defineComponent((props: {{ a: string }}, ctx: SetupContext<{{ (e: 'x'): void }}>) => () => <p onClick={{() => ctx.emit('x')}}/>);",
    'class-members': "class K {{ static s = <a/>; f = () => <b/>; [v1] = <i/>; m(p = <u/>) {{ return <s>{{p}}</s> }} get g() {{ return <>g</> }} static {{ f1(<em/>) }} }}",
    'params-patterns': "function g({{ a = <a/> }} = {{}}, [b = <b/>] = [], ...r) {{ return [a, b, r] }} const h = ({{ x: {{ y = <i/> }} = {{}} }}) => y;",
    'templates-tags': "const t = `a${{<b/>}}c${{`n${{<i/>}}`}}`, u = f1`x${{<u/>}}`;",
    'await-child': "async function f() {{ return <Foo>{{await v1}}</Foo>; }} async function g() {{ return <div>{{await v1}}</div>; }}",
    'await-child-kids': "const h = async () => <Foo a={{await v1}}>x{{await v2}}</Foo>;",
    'yield-child': "function* g() {{ const x = <Foo>{{yield v1}}</Foo>; return x; }}",
    'exports': "export default <div/>;\nexport const a = <a/>, b = [<b/>, ...[<i/>]];",
    'ts-wrappers': "const a = (<a/> as any), b = (<b/>)!, c = (<i/> satisfies object), d = f1<string>(<u/>);\nenum E {{ A = 1 }}\nnamespace N {{ export const n = <s/> }}\nabstract class Q {{ p: any = <em/>; constructor(public q = <q/>) {{}} }}",
    'control-flow': "if (v1) v2 = <a/>; else v2 = <b/>; for (const x of [<i/>]) f1(x); while (f1(<u/>)) break; do v3 = <s/>; while (0); switch (v1) {{ case <em/>: break }} try {{ throw <q/> }} catch (e) {{ f1(<p/>) }} lbl: v4 = <span/>;",
    'objects': "const o = {{ a: <a/>, [f1(<b/>)]: 1, m() {{ return <i/> }}, get g() {{ return <u/> }}, set s(v) {{ f1(<s/>) }}, ...{{ z: <em/> }} }};",
    'operators': "const r = v1 ? <a/> : <b/>, s = v1 || <i/>, t = (f1(), <u/>), u = [v1 && <s/>], w = typeof <em/>, y = void <q/>, z = new C1(<p/>), q = v1?.(<span/>), aw = async () => await <div/>; function* gen() {{ yield <li/>; yield* [<ul/>] }}",
}


def make_skeleton(spec):
    leaves = []
    if 'module' in spec:
        src = (PRELUDE if not spec['module'].startswith('dc-') else '') + MODULES[spec['module']] + '\n'
        return Skeleton('c07#module:%s||' % spec['module'], src, leaves, {'optimize': 'sym', 'resolve_type': spec['module'].startswith('dc-') or 'sym'}, tsx=True, meta={'family': 'c07/module'})
    f = FORMS[spec['form']]
    if '{M}' in f:
        leaves.append(Leaf('M', 'str' if 'str-sym' in spec['form'] else 'jsstr', spec.get('n', 2)))
    head = ''
    if spec.get('pragma_comment'):
        head = '/* %s */\n' % spec['pragma_comment']
    src = head + PRELUDE + 'const _0 = %s;\n' % f
    opts = {'optimize': 'sym', 'merge_props': 'sym'}
    if spec['form'].startswith(('on-', 'nativeon-')):
        opts['transform_on'] = 'sym'
    return Skeleton('c07#%s|%s|%s' % (spec['form'], spec.get('n', ''), spec.get('pragma_comment', '')), src, leaves, opts, meta={'family': 'c07'})


def extra_constraints(skel):
    from ..models import ID_REPS
    reps = ID_REPS['start'] + ID_REPS['continue'] + ID_REPS['neither']
    cs = []
    for l in skel.leaves:
        for c in l.chars:
            cs.append(z3.Or(z3.ULT(c, 128), z3.Or([c == r for r in reps])))
    return cs


def ident_name_ok(ctx, s):
    """is the string an IdentifierName (ASCII approximation is exact for the ASCII part; non-ASCII is accepted)?"""
    cs = s.cs
    if len(cs) == 0:
        return False
    from ..models import _id_char
    return b_and(*[_id_char(ctx, c, i == 0) for i, c in enumerate(cs)])


def jsx_string_spans(pre):
    """spans of the string literals that are JSX attribute values in the input (their `raw` is JSX text, not JS text)"""
    out = set()

    def f(v, p):
        if isinstance(v, Adt) and v.ty == 'JSXAttrValue' and v.variant == 'Lit' and v.fields[0].variant == 'Str':
            sp = v.fields[0].fields[0].get('span')
            out.add((sp.fields[0], sp.fields[1]))
    astio.walk(pre, f)
    return out


def raw_is_js_text(ctx, s):
    """a JSX attribute string copied verbatim is JS string text only if it needs no escaping"""
    r = s.get('raw')
    if not is_some(r):
        return True
    raw = deref(r.fields[0])
    cs = raw.cs
    if len(cs) < 2:
        return False
    q = cs[0]
    rs = [v_eq(cs[-1], q)]
    for c in cs[1:-1]:
        rs.append(b_not(b_or(v_eq(c, 92), v_eq(c, 10), v_eq(c, 13), v_eq(c, 0x2028), v_eq(c, 0x2029), v_eq(c, q))))
    return b_and(*rs)


def _assignable(e):
    e = denote.E(e)
    for _ in range(8):
        if e.variant in ('Ident', 'Member', 'SuperProp'):
            return True
        if e.variant in ('Paren', 'TsAs', 'TsNonNull', 'TsTypeAssertion', 'TsSatisfies'):
            e = denote.E(e.fields[0].get('expr'))
            continue
        return False
    return False


def scan(ctx, program, jsx_spans=()):
    """-> (has_jsx, [conditions that must hold for the tree to print as a program])"""
    jsx = []
    conds = []

    def f(v, p):
        if isinstance(v, Adt):
            if v.ty == 'Expr' and v.variant and v.variant.startswith('JSX') and v.variant != 'JSXMember':      # (swc prints a JSXMember expression as `a.b`)
                jsx.append(v.variant)
            if v.ty in ('Ident', 'IdentName', 'BindingIdent') and v.names and 'sym' in v.names:
                s = v.get('sym')
                if isinstance(s, SStr):
                    if len(s.cs) == 0:
                        conds.append(('identifier is not empty', False, {'ident': ''}))
                    elif v.ty == 'Ident':
                        # an identifier reference (e.g. the factory a pragma names) prints as written: it must be an IdentifierName
                        if s.is_concrete():
                            # (swc prints the name as written, so a dotted path `a.b` is still a valid expression)
                            ok = all(seg and not seg[0].isdigit() and all(c.isalnum() or c in '_$' or ord(c) > 127 for c in seg) for seg in s.py().split('.'))
                        else:
                            ok = ident_name_ok(ctx, s)
                        if ok is not True:
                            conds.append(('an identifier reference is an IdentifierName', ok, {'key': s}))
            if v.ty == 'Str' and v.names and 'raw' in v.names:
                sp = v.get('span')
                if (sp.fields[0], sp.fields[1]) in jsx_spans and (sp.fields[0], sp.fields[1]) != (0, 0):
                    conds.append(('a JSX attribute string is not copied verbatim as JS string text unless it needs no escaping', raw_is_js_text(ctx, v), {'key': v.get('value')}))
            if v.ty == 'PropName' and v.variant == 'Ident':
                s = v.fields[0].get('sym')
                conds.append(('an identifier-keyed member has an IdentifierName key', ident_name_ok(ctx, s), {'key': s}))
            if v.ty == 'SimpleAssignTarget' and v.variant == 'Paren':
                # `(expr) = value`: an early error unless expr is a reference (identifier / member / super property, TS wrappers aside)
                conds.append(('a parenthesised assignment target is assignable', _assignable(v.fields[0].get('expr')), {'key': SStr.of(deref(v.fields[0].get('expr')).variant or '?')}))
            if v.ty == 'MemberProp' and v.variant == 'Ident':
                s = v.fields[0].get('sym')
                conds.append(('a member property is an IdentifierName', ident_name_ok(ctx, s), {'key': s}))
    astio.walk(program, f)
    # `await` / `yield` must sit directly in an async / generator function (top-level await aside)
    def g(v, fn):
        v = deref(v)
        if isinstance(v, list):
            for x in v:
                g(x, fn)
            return
        if not isinstance(v, Adt):
            return
        if v.ty in ('Function', 'ArrowExpr'):
            fn = ('async' if v.get('is_async') else '') + ('gen' if v.get('is_generator') else '') or 'plain'
        elif v.ty in ('Constructor', 'GetterProp', 'SetterProp', 'StaticBlock', 'ClassProp', 'PrivateProp'):
            fn = 'plain'
        if v.ty == 'AwaitExpr' and fn is not None and 'async' not in fn:
            conds.append(('`await` only inside an async function', False, {'key': SStr.of('await')}))
        if v.ty == 'YieldExpr' and (fn is None or 'gen' not in fn):
            conds.append(('`yield` only inside a generator', False, {'key': SStr.of('yield')}))
        for x in v.fields:
            g(x, fn)
    g(program, None)
    return jsx, conds


def oracle(env):
    ctx = env.ctx
    errors = [d for d in env.diags if not str(d).startswith('warn')]
    if errors:
        return []
    if env.extra.get('reparse_ok') is not None:
        # native run: the real printer and parser decide
        jsx, _ = scan(ctx, env.post)
        return [Obligation('without a reported error the output contains no JSX and re-parses as a plain module', (not jsx) and env.extra['reparse_ok'] is True,
                           {'jsx_left': jsx[:3], 'reparse_ok': env.extra['reparse_ok'], 'code': (env.extra.get('code') or '')[-300:]})]
    jsx, conds = scan(ctx, env.post, jsx_string_spans(env.pre))
    obs = [Obligation('without a reported error the output contains no JSX and re-parses as a plain module', b_and(not jsx, *[c[1] for c in conds]),
                      {'jsx_left': jsx[:3], 'failing': [c[0] for c in conds if c[1] is False], 'keys': [c[2].get('key') for c in conds if 'key' in c[2]][:4]})]
    return obs


def jobs(tier):
    out = []
    for f in FORMS:
        if '{M}' in FORMS[f]:
            for n in ([0, 1, 2, 3] if tier == 'quick' else [0, 1, 2, 3, 4, 5]) if 'str-sym' not in f else ([1, 2] if tier == 'quick' else [1, 2, 3]):
                out.append({'form': f, 'n': n})
        else:
            out.append({'form': f})
    for m in MODULES:
        out.append({'module': m})
    for pc in ('@jsx h extra words', '@jsxFrag F', '@jsx', '@jsx a.b', '@jsx 1x', '@jsx h -- why', '* @jsx h\n * more'):
        out.append({'form': 'key-hyphen', 'pragma_comment': pc})
    return [{'module': MOD, 'spec': s} for s in out]


def classify(v, detail):
    if v['kind'] == 'panic':
        return 'panic:' + v['skeleton'].split('#')[1].split('|')[0]
    form = v['skeleton'].split('#')[1].split('|')[0]
    info = (detail or {}).get('info') or v.get('info') or {}
    pc = v['skeleton'].split('#')[1].split('|')
    if len(pc) >= 3 and pc[2].strip():
        # keyed by the annotation text itself: another annotation that goes wrong is another violation
        return 'pragma-comment-factory-printed-as-written:' + pc[2].strip().replace(' ', '_')
    groups = {'attr-element': 'jsx-element-or-fragment-as-attribute-value-is-left-as-jsx', 'attr-fragment': 'jsx-element-or-fragment-as-attribute-value-is-left-as-jsx',
              'attr-element-comp': 'jsx-element-or-fragment-as-attribute-value-is-left-as-jsx', 'attr-nested': 'jsx-element-or-fragment-as-attribute-value-is-left-as-jsx',
              'vslots-el': 'jsx-element-or-fragment-as-attribute-value-is-left-as-jsx',
              'ns-tag': 'namespaced-tag-name-is-left-as-jsx', 'ns-tag-children': 'namespaced-tag-name-is-left-as-jsx',
              'member-tag': 'member-tag-is-left-as-jsx-member-expression', 'member-this': 'member-tag-is-left-as-jsx-member-expression', 'member-deep': 'member-tag-is-left-as-jsx-member-expression'}
    if form in groups:
        return groups[form]
    if form.startswith(('module:await-child', 'module:yield-child')):
        return 'await-or-yield-written-in-component-children-ends-up-in-a-plain-slot-function'
    if 'str-sym' in form:
        return 'jsx-attribute-string-copied-verbatim-into-a-js-string-literal:' + ('directive' if form.startswith(('html', 'text', 'dir')) else 'attribute')
    if form.startswith('mod-'):
        return 'modifier-text-that-is-not-an-identifier-becomes-an-identifier-key'
    if form.startswith(('dir-', 'model-', 'models-', 'show-', 'slots-')):
        return 'directive-without-usable-value-emits-an-empty-identifier'
    return 'c07:' + form


def main(argv):
    rep = common.Report(PROP)
    js = jobs(rep.tier)
    rep.bounds = {'forms': sorted(FORMS), 'symbolic_modifier_text_length': '0..3 (quick) / 0..5; every ASCII character a JS string literal can hold without escapes plus 11 non-ASCII representatives of the Unicode ID_Start / ID_Continue-only / neither classes', 'options': 'optimize, mergeProps symbolic'}
    rep.assumptions = ['kernel level: the listed legal-but-unusual forms, one per module; the whole-module quantifier (all parseable modules) is not decided',
                       'AST-level sufficient conditions for "prints as a program" (no JSX node, no empty identifier, IdentifierName keys); the native replay uses the real swc printer and parser']
    res = common.run_jobs('mirsym.checks.elements', 'run_family_job', js)
    raw = []
    for r in res:
        raw.extend(r.pop('violations', []))
        rep.absorb(r)
    import importlib
    elements.triage(rep, PROP, importlib.import_module(MOD), raw, classify)
    if rep.validation_mismatches:
        rep.inconclusive.append('MIR executor and native build disagree on %d sampled instances' % len(rep.validation_mismatches))
    return common.finish(rep, explanation='whole-module symbolic execution of the anchored mechanisms on legal-but-unusual inputs; output scanned for non-program syntax unless a diagnostic was recorded')


def replay(path):
    import importlib
    return elements.replay_dir(PROP, importlib.import_module(MOD), path)
