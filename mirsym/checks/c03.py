"""C03 - component children become the slots the source denotes (also hosts the child-list skeleton family used by C02)."""
import sys, itertools, json
import z3
from ..engine import *
from ..values import *
from .. import harness, denote, astio, driver, jsout, world
from ..denote import OracleGap
from ..harness import Leaf, Skeleton
from . import common, elements, c01, children
from .elements import PRELUDE, BOUND, find_input_element

PROP = 'C03'
MOD = 'mirsym.checks.c03'

KIDS = {
    'T1': None, 'T2': None, 'T3': None,          # symbolic text of that length
    'E1': None, 'E2': None,                      # the same, every character written as a numeric character reference (raw differs from value)
    'hi': 'hi', 'sp': ' a  b ', 'nl': '\n  foo\n  ', 'blank': '\n   \n',
    'id': '{{v1}}', 'un': '{{u9}}', 'call': '{{f1(v2)}}', 'arrow': '{{() => v1}}', 'fn': '{{function () {{ return v2 }}}}',
    'obj': '{{{{a: () => v2}}}}', 'lit': '{{"s"}}', 'num': '{{1}}', 'nul': '{{null}}', 'tru': '{{true}}', 'fal': '{{false}}', 'undef': '{{undefined}}', 'void0': '{{void 0}}', 'tplk': '{{`t`}}', 'neg': '{{-1}}', 'bigi': '{{1n}}', 'rgx': '{{/x/}}', 'mem': '{{v1.x}}', 'cond': '{{v1 ? v2 : v3}}',
    'optcall': '{{f1?.(v2)}}', 'optmem': '{{v1?.x}}', 'optmcall': '{{v1.m?.()}}', 'newx': '{{new C1(v2)}}', 'tagged': '{{f1`t`}}', 'await': '{{(async () => await f1())()}}', 'paren': '{{(f1(v1))}}', 'seq': '{{(v1, f1())}}',
    'eld': '<div v-show={{v1}}>hi</div>', 'elf': '<input v-foo={{v2}}/>', 'spcall': '{{...f1(v2)}}', 'spobj': '{{...[v1, v2]}}', 'spfn': '{{...(() => [v1])()}}', 'empty': '{{}}', 'cmt': '{{/* c */}}', 'spread': '{{...v3}}', 'el': '<b/>', 'elt': '<i>x</i>', 'frag': '<>y</>', 'comp': '<C1/>',
}
HOSTS = {'div': ('div', 'div'), 'Foo': ('Foo', 'Foo'), 'C1': ('C1', 'C1'), 'mem': ('v1.Foo', 'v1.Foo'), 'memtag': ('v1.button', 'v1.button'), 'memsvg': ('v2.svg', 'v2.svg'), 'memdeep': ('v1.ui.table', 'v1.ui.table'), 'KeepAlive': ('KeepAlive', 'KeepAlive'),
         'frag': ('', ''), 'cust': ('x-y', 'x-y'), 'Fragment': ('Fragment', 'Fragment'),
         # native tags whose content is whitespace-sensitive or raw text in HTML: JSX treats them like any other element
         'pre': ('pre', 'pre'), 'textarea': ('textarea', 'textarea'), 'code': ('code', 'code'), 'style': ('style', 'style'), 'script': ('script', 'script'), 'svgtext': ('text', 'text'), 'title': ('title', 'title'),
         'option': ('option', 'option'), 'template': ('template', 'template'), 'slot': ('slot', 'slot')}
TEXT_HOSTS = ['pre', 'textarea', 'code', 'style', 'script', 'svgtext', 'title', 'option', 'template', 'slot']
VSLOTS = {'': '', 'id': ' v-slots={{s1}}', 'obj': ' v-slots={{{{foo: f1}}}}', 'call': ' v-slots={{f1()}}'}


def make_skeleton(spec):
    leaves = []
    parts = []
    for i, k in enumerate(spec['kids']):
        if k in ('T1', 'T2', 'T3', 'E1', 'E2'):
            nm = 'X%d' % i
            leaves.append(Leaf(nm, 'text' if k[0] == 'T' else 'textent', int(k[1])))
            parts.append('{%s}' % nm)
        else:
            parts.append(KIDS[k])
    o, c = HOSTS[spec['host']]
    vs = VSLOTS[spec.get('vslots', '')] if spec['host'] != 'frag' else ''
    jsx = '<%s%s>%s</%s>' % (o, vs, ''.join(parts), c)
    # the element as the right-hand side of an assignment: to an unrelated variable, to a variable spelled like a generated temporary,
    # to a variable one of whose namesakes (another binding) is the child
    wrap = {None: 'const _0 = %s;', 'assign': 'const _0 = (v4 = %s);', 'assign-tempname': 'let _slot = 0;\nconst _0 = (_slot = %s);',
            'assign-shadow': 'const _0 = (v1 = ((v1) => %s)(v2));',
            # enclosing statements that run their body more than once per activation, and other nested statement lists
            'for-of': 'for (const v5 of [v1, v2]) {{ const _0 = %s; f1(_0); }}', 'while': 'while (f1()) {{ const _0 = %s; f1(_0); }}',
            'for': 'for (let i = 0; i < 2; i++) {{ const _0 = %s; f1(_0); }}', 'do': 'do {{ const _0 = %s; f1(_0); }} while (f1());',
            'for-in': 'for (const k in o1) {{ const _0 = %s; f1(_0); }}', 'for-of-bare': 'for (const v5 of [v1, v2]) var _0 = %s;',
            'switch': 'switch (v1) {{ case 1: const _0 = %s; f1(_0); }}', 'fn': 'function g() {{ const _0 = %s; return _0; }}',
            'arrow-expr': 'const _0 = (() => %s)();', 'arrow-loop': 'const g = () => {{ for (;;) {{ const _0 = %s; return _0; }} }};',
            'if-in-loop': 'for (const v5 of [v1]) {{ if (v5) {{ const _0 = %s; f1(_0); }} }}', 'try-in-loop': 'while (v1) {{ try {{ const _0 = %s; f1(_0); }} finally {{ f1(); }} }}',
            'labeled': 'outer: for (;;) {{ const _0 = %s; if (_0) break outer; }}',
            'param-default-fn': 'function g(a = %s) {{ return a; }}', 'param-default-arrow': 'const g = (a = %s) => a;', 'class-field': 'class K {{ f = %s; }}', 'static-field': 'class K {{ static f = %s; }}',
            'while-test': 'while (f1(%s)) {{ f1(); }}', 'for-update': 'for (let i = 0; i < 2; i = f1(%s)) {{ f1(); }}', 'for-init': 'for (let q = %s; v1; ) {{ f1(q); }}',
            'for-of-right': 'for (const q of [%s]) {{ f1(q); }}', 'method': 'class K {{ m() {{ return %s; }} }}', 'arrow-in-loop': 'for (const q of [v1]) f1(() => %s);',
            'do-test': 'do {{ f1(); }} while (f1(%s));'}[spec.get('wrap')]
    src = PRELUDE + wrap % jsx + '\n'
    opts = {'enable_object_slots': 'sym', 'optimize': 'sym'}
    opts.update(spec.get('opts', {}))
    return Skeleton('kids#%s|%s|%s%s' % (spec['host'], ','.join(spec['kids']), spec.get('vslots', ''), '|' + spec['wrap'] if spec.get('wrap') else ''), src, leaves, opts,
                    patterns=['opaque'] if spec['host'] == 'cust' else None, meta={'family': 'kids/' + spec['host'], 'no_decl': '_0' not in wrap})


def extra_constraints(skel):
    """adjacent symbolic text leaves would be one JSXText token; a symbolic text directly next to concrete text likewise:
    the generator never produces those."""
    return []


def oracle(env):
    ctx = env.ctx
    el = find_input_element(env.pre)
    out = jsout.find_decl_init(env.post, '_0')
    if el is None and jsout.find_decl_init(env.pre, '_0') is None:
        # positions that cannot hold a `const _0 = ...` (parameter defaults, class fields, loop heads): only the obligations on
        # the temporaries are stated here; what the children become is decided in the declaration contexts
        mv0 = denote.ModuleView(env.post)
        obs0 = temp_obligations(env, mv0)
        if ctx.decide(env.opts.get('enable_object_slots', True)) and not obs0:
            obs0.append(Obligation('harness: the call child goes through a temporary', False))
        return obs0
    if el is None or out is None:
        raise Unsupported('harness: element not found')
    if not (isinstance(el, Adt) and el.ty == 'Expr' and el.variant in ('JSXElement', 'JSXFragment')):
        hits = []

        def f(v, p):
            if isinstance(v, Adt) and v.ty == 'Expr' and v.variant in ('JSXElement', 'JSXFragment') and not hits:
                hits.append(v)
        astio.walk(el, f)
        if not hits:
            raise Unsupported('harness: element not found')
        el = hits[0]
    # unwrap `(x = <vnode>)` and `(x = ((x) => <vnode>)(y))`
    for _ in range(6):
        o2 = denote.E(out)
        if denote.is_expr(o2, 'Paren'):
            out = o2.fields[0].get('expr')
        elif denote.is_expr(o2, 'Assign'):
            out = o2.fields[0].get('right')
        elif denote.is_expr(o2, 'Call') and o2.fields[0].get('callee').variant == 'Expr' and denote.is_expr(denote.E(o2.fields[0].get('callee').fields[0]), 'Paren'):
            fn = denote.E(denote.E(o2.fields[0].get('callee').fields[0]).fields[0].get('expr'))
            if denote.is_expr(fn, 'Arrow'):
                b = deref(fn.fields[0].get('body'))
                if b.variant == 'Expr':
                    out = b.fields[0]
                else:
                    st = b.fields[0].get('stmts')
                    rets = [x for x in st if x.variant == 'Return']
                    if len(rets) != 1 or not is_some(rets[0].fields[0].get('arg')):
                        break
                    out = rets[0].fields[0].get('arg').fields[0]
            else:
                break
        else:
            break
    mv = denote.ModuleView(env.post)
    try:
        v = denote.vnode_view(out, mv)
    except OracleGap as g:
        raise Unsupported('oracle gap: %s' % g)
    if v is None:
        return [Obligation('element becomes a vnode call', False)]
    if el.variant == 'JSXFragment':
        kids = el.fields[0].get('children')
        r = children.children_ok(env, mv, kids, v.children, False, None)
        return [Obligation('fragment is a Fragment vnode', denote.tag_view(v.tag, mv) == ('vue', 'Fragment')),
                Obligation('children are exactly the written children in order (JSX text rule, empties dropped, spreads spliced, null when none)', r,
                           {'host': 'fragment', 'shape': _shape(env, kids)})]
    jel = deref(el.fields[0])
    name = jel.get('opening').get('name')
    comp = children.is_component_host(env, name, mv)
    vs = children.vslots_value(env, jel.get('opening').get('attrs'))
    if vs == 'other':
        vs = None
    try:
        r = children.children_ok(env, mv, jel.get('children'), v.children, comp, vs)
    except OracleGap as g:
        raise Unsupported('oracle gap: %s' % g)
    shape = _shape(env, jel.get('children'))
    if comp:
        return [Obligation('component children are delivered as the slots the source denotes', r, {'host': 'component', 'shape': shape})] + temp_obligations(env, mv)
    return [Obligation('children are exactly the written children in order (JSX text rule, empties dropped, spreads spliced, null when none)', r, {'host': 'element', 'shape': shape})]


LOOP_TYS = ('ForStmt', 'ForInStmt', 'ForOfStmt', 'WhileStmt', 'DoWhileStmt')
FN_TYS = ('Function', 'ArrowExpr', 'Constructor', 'GetterProp', 'SetterProp', 'StaticBlock')
FIELD_TYS = ('ClassProp', 'PrivateProp')


# which parts of a loop statement are evaluated once per iteration
REPEATED = {'ForStmt': ('test', 'update', 'body'), 'ForInStmt': ('body',), 'ForOfStmt': ('body',), 'WhileStmt': ('test', 'body'), 'DoWhileStmt': ('test', 'body')}


def _path_to(root, target):
    """[(node, name of the field of that node the path continues through)] from root down to target (by identity), or None"""
    stack = []

    def go(v):
        if v is target:
            stack.append((v, None)); return True
        if isinstance(v, Adt):
            for i, f in enumerate(v.fields):
                stack.append((v, v.names[i] if v.names and i < len(v.names) else i))
                if go(f):
                    return True
                stack.pop()
        elif isinstance(v, list):
            for f in v:
                if go(f):
                    return True
        elif isinstance(v, Ref):
            try:
                inner = v.get()
            except Exception:
                return False
            return go(inner)
        return False
    return stack if go(root) else None


def temp_obligations(env, mv):
    """the temporary that carries a call child's value into the lazily called default slot belongs to one evaluation of the element:
    between its declaration's scope and its use there is no loop, function or class-field boundary (else a later evaluation
    overwrites what an earlier vnode's slot still has to read)"""
    prog = env.post
    uses = []

    def f(v, p):
        if isinstance(v, Adt) and v.ty == 'CondExpr':
            test = denote.call_view(v.get('test'))
            if test is None or test[0] is None or len(test[1]) != 1 or not children.helper_is_slot_test(mv, test[0]):
                return
            arg = denote.E(test[1][0][1])
            if denote.is_expr(arg, 'Assign'):
                t = children._assign_target_ident(arg.fields[0].get('left'))
                if t is not None:
                    uses.append((v, t))
    astio.walk(prog, f)
    obs = []
    for use, t in uses:
        decls = []

        def g(v, p):
            if isinstance(v, Adt) and v.ty == 'VarDecl':
                for d in v.get('decls'):
                    nm = deref(d.get('name'))
                    if nm.variant == 'Ident' and children._same_ident(nm.fields[0].get('id'), t):
                        decls.append(v)
        astio.walk(prog, g)
        if len(decls) != 1:
            continue            # (undeclared / doubly declared: C06)
        dp = _path_to(prog, decls[0]); up = _path_to(prog, use)
        if dp is None or up is None:
            continue
        kind = decls[0].get('kind').variant
        chain = [n for n, _ in dp[:-1] if isinstance(n, Adt)]
        if kind == 'Var':
            scope = [n for n in chain if n.ty in FN_TYS + ('Module', 'Script')][-1]
        else:
            scope = [n for n in chain if n.ty in ('BlockStmt', 'Module', 'Script', 'SwitchStmt') or n.ty in FN_TYS][-1]
        ids = [id(n) for n, _ in up]
        if id(scope) not in ids:
            continue            # (not in scope: C06)
        last = len(ids) - 1 - ids[::-1].index(id(scope))
        crossing = []
        for n, fld in up[last + 1:]:
            if not isinstance(n, Adt):
                continue
            if n.ty in LOOP_TYS and fld in REPEATED[n.ty]:
                crossing.append('loop ' + str(fld))
            elif n.ty in FN_TYS:
                crossing.append('function')
            elif n.ty in FIELD_TYS and fld == 'value' and n.get('is_static') is not True:
                crossing.append('class-field')
        obs.append(Obligation('the temporary holding a call child belongs to one evaluation of the element (no loop / function between its scope and its use)',
                              not crossing, {'crossing': crossing[:2], 'declared_with': kind.lower(), 'temp': t.get('sym')}))
    return obs


def _shape(env, kids):
    """shape of the effective child list (after dropping empties), for reporting"""
    try:
        items = children.expected_items(env, kids)
    except OracleGap:
        return '?'
    items = [it for it in items if it[0] != 'text?']
    if not items:
        return 'none'
    if len(items) > 1:
        return 'many'
    it = items[0]
    if it[0] != 'expr':
        return it[0]
    e = it[1]
    for k in ('Fn', 'Arrow', 'Object', 'Ident', 'Call'):
        if denote.is_expr(e, k):
            return {'Fn': 'function', 'Arrow': 'function'}.get(k, k.lower())
    return 'expr'


COMP_HOSTS = ['Foo', 'C1', 'mem', 'memtag', 'memsvg', 'memdeep']       # a member expression is a component host whatever its last segment spells
ELEM_HOSTS = ['div', 'frag', 'KeepAlive', 'cust']
ONE = ['nul', 'tru', 'fal', 'undef', 'void0', 'tplk', 'neg', 'bigi', 'rgx', 'optcall', 'optmem', 'optmcall', 'newx', 'tagged', 'paren', 'seq', 'id', 'un', 'call', 'arrow', 'fn', 'obj', 'lit', 'mem', 'cond', 'hi', 'sp', 'nl', 'blank', 'T1', 'T2', 'E1', 'E2', 'empty', 'cmt', 'spread', 'spcall', 'spobj', 'spfn', 'el', 'elt', 'eld', 'elf', 'frag', 'comp', 'num']


def kid_jobs(tier, hosts, vslots_for):
    out = []
    for h in hosts:
        out.append({'host': h, 'kids': []})
        for vs in vslots_for(h):
            if vs:
                out.append({'host': h, 'kids': [], 'vslots': vs})
            for k in ONE:
                out.append({'host': h, 'kids': [k], 'vslots': vs})
        pal2 = ['id', 'call', 'arrow', 'obj', 'hi', 'T2', 'E2', 'empty', 'spread', 'el', 'nl', 'nul', 'fal'] if tier == 'quick' else ONE
        for a, b in itertools.product(pal2, repeat=2):
            if _adjacent_text(a, b):
                continue
            out.append({'host': h, 'kids': [a, b]})
        if tier != 'quick':
            pal3 = ['id', 'call', 'arrow', 'hi', 'T1', 'empty', 'spread', 'el']
            for tr in itertools.product(pal3, repeat=3):
                if _adjacent_text(tr[0], tr[1]) or _adjacent_text(tr[1], tr[2]):
                    continue
                out.append({'host': h, 'kids': list(tr)})
        # text on both sides of a child that contributes nothing ({} or a comment): two text runs, each cleaned on its own
        for t1 in ('T2', 'nl', 'hi', 'sp'):
            for mid in ('empty', 'cmt'):
                for t2 in ('T2', 'nl', 'hi'):
                    if tier == 'quick' and (t1, t2) not in (('T2', 'T2'), ('nl', 'hi'), ('hi', 'nl'), ('sp', 'T2'), ('T2', 'nl')):
                        continue
                    out.append({'host': h, 'kids': [t1, mid, t2]})
        # text between / around other children (the position dimension of C02)
        for t in (['T2', 'T3'] if tier == 'quick' else ['T1', 'T2', 'T3']):
            out.append({'host': h, 'kids': ['el', t, 'el']})
            out.append({'host': h, 'kids': ['id', t, 'call']})
            out.append({'host': h, 'kids': [t, 'el']})
    return out


def text_host_jobs(tier):
    """text-bearing child lists on the native tags of TEXT_HOSTS"""
    out = []
    for h in TEXT_HOSTS:
        for kids in (['T2'], ['nl'], ['sp'], ['blank'], ['E2'], ['nl', 'el'], ['el', 'T2', 'el'], ['nl', 'id', 'nl'], ['T2', 'empty', 'T2'], ['hi', 'call']):
            if tier == 'quick' and h not in ('pre', 'textarea', 'svgtext', 'template') and kids not in (['nl'], ['nl', 'el'], ['T2']):
                continue
            out.append({'host': h, 'kids': kids})
    return out


def _adjacent_text(a, b):
    txt = ('T1', 'T2', 'T3', 'E1', 'E2', 'hi', 'sp', 'nl', 'blank')
    return a in txt and b in txt


def jobs(tier):
    extra = []
    for h in ('Foo', 'C1'):
        for k in ('id', 'call', 'un', 'mem', 'arrow'):
            for w in ('assign', 'assign-tempname', 'assign-shadow'):
                extra.append({'module': MOD, 'spec': {'host': h, 'kids': [k], 'wrap': w}})
    for h in (('Foo',) if tier == 'quick' else ('Foo', 'C1', 'mem')):
        for k in (('call', 'id', 'mem') if tier == 'quick' else ('call', 'id', 'mem', 'optcall', 'spcall', 'el', 'arrow')):
            for w in ('for-of', 'while', 'for', 'do', 'for-in', 'for-of-bare', 'switch', 'fn', 'arrow-expr', 'arrow-loop', 'if-in-loop', 'try-in-loop', 'labeled') + \
                    (('param-default-fn', 'param-default-arrow', 'class-field', 'static-field', 'while-test', 'for-update', 'for-init', 'for-of-right', 'method', 'arrow-in-loop', 'do-test') if k == 'call' else ()):
                extra.append({'module': MOD, 'spec': {'host': h, 'kids': [k], 'wrap': w}})
    return extra + _jobs(tier)


def _jobs(tier):
    js = kid_jobs(tier, COMP_HOSTS if tier != 'quick' else ['Foo', 'C1', 'memtag'], lambda h: ['', 'id', 'obj', 'call'] if h in ('Foo',) or tier != 'quick' else [''])
    return [{'module': MOD, 'spec': s} for s in js]


def classify(v, detail):
    if v['kind'] == 'panic':
        return 'panic'
    import re
    m = re.search(r'(?:const|var) _0 = \(*(?:\(\) => )?<([^\s>]*)([^>]*)>(.*)</', v['source'], re.S)
    host = m.group(1) if m else '?'
    kids = m.group(3) if m else ''
    shape = 'none' if not kids.strip() else 'fn' if re.fullmatch(r'\{\s*(\(\)\s*=>|function).*\}', kids.strip(), re.S) else 'obj' if kids.strip().startswith('{{') else \
        'ident' if re.fullmatch(r'\{\w+\}', kids.strip()) else 'call' if re.fullmatch(r'\{\w+\(.*\)\}', kids.strip()) else 'mixed'
    vs = 'v-slots' if 'v-slots' in (m.group(2) if m else '') else 'no-v-slots'
    info = (detail or {}).get('info') or v.get('info') or {}
    if info.get('shape'):
        shape = info['shape']
    if v['obligation'].startswith('the temporary holding a call child'):
        ctxm = re.search(r'\n(for|while|do|switch|function|outer:|const g)\b', v['source'])
        bare = ' without a block' if re.search(r'\) var _0 = ', v['source']) else ''
        wrap = v['skeleton'].rsplit('|', 1)[-1]
        if wrap in ('param-default-fn', 'param-default-arrow', 'class-field', 'while-test', 'for-update', 'do-test') and info.get('declared_with') == 'let':
            # positions that are evaluated repeatedly and cannot hold a declaration
            pos = {'param-default-fn': 'parameter-default', 'param-default-arrow': 'parameter-default', 'while-test': 'loop-test', 'do-test': 'loop-test', 'for-update': 'loop-update'}.get(wrap, wrap)
            return 'call-child-temporary-is-shared-by-all-evaluations-of-a-%s' % pos
        return 'temporary of a call child shared across %s (declared with %s)%s' % ('/'.join(info.get('crossing') or ['?']), info.get('declared_with'), bare)
    return '%s | child=%s | %s' % (v['obligation'][:40], shape, vs)


def main(argv):
    rep = common.Report(PROP)
    js = jobs(rep.tier)
    rep.bounds = {'children_per_element': '<=2 (+ text-between triples) quick / <=3 thorough', 'symbolic_text_length': '1..3', 'hosts': COMP_HOSTS,
                  'v-slots': sorted(VSLOTS), 'options': 'enableObjectSlots, optimize symbolic', 'child_kinds': sorted(KIDS)}
    rep.assumptions = ['embedded expressions are JSX-free opaque tokens (nested elements are separate child kinds)',
                       'runtime value kinds of the slot test: function, plain object, vnode, array, string, number, null, undefined',
                       'that the temporary for a call child is bound and initialised is C06; here that it is declared and belongs to one evaluation of the element (enclosing loops, functions)']
    res = common.run_jobs('mirsym.checks.elements', 'run_family_job', js)
    raw = []
    for r in res:
        raw.extend(r.pop('violations', []))
        rep.absorb(r)
    import importlib
    elements.triage(rep, PROP, importlib.import_module(MOD), raw, classify)
    if rep.validation_mismatches:
        rep.inconclusive.append('MIR executor and native build disagree on %d sampled instances' % len(rep.validation_mismatches))
    return common.finish(rep, explanation='whole-module symbolic execution on component elements; the emitted third argument is evaluated abstractly (slot object / runtime conditional with the helper evaluated over value kinds)')


def replay(path):
    import importlib
    return elements.replay_dir(PROP, importlib.import_module(MOD), path)
