"""C03 - component children become the slots the source denotes (also hosts the child-list skeleton family used by C02)."""
import sys, itertools, json
import z3
from ..engine import *
from ..values import *
from .. import harness, denote, astio, driver, jsout, world
from ..denote import OracleGap
from ..harness import Leaf, Skeleton
from . import common, elements, c01, children
from .elements import PRELUDE, BOUND, find_input_element

PROP = 'C03'
MOD = 'mirsym.checks.c03'

KIDS = {
    'T1': None, 'T2': None, 'T3': None,          # symbolic text of that length
    'E1': None, 'E2': None,                      # the same, every character written as a numeric character reference (raw differs from value)
    'hi': 'hi', 'sp': ' a  b ', 'nl': '\n  foo\n  ', 'blank': '\n   \n',
    'id': '{{v1}}', 'un': '{{u9}}', 'call': '{{f1(v2)}}', 'arrow': '{{() => v1}}', 'fn': '{{function () {{ return v2 }}}}',
    'obj': '{{{{a: () => v2}}}}', 'lit': '{{"s"}}', 'num': '{{1}}', 'mem': '{{v1.x}}', 'cond': '{{v1 ? v2 : v3}}',
    'optcall': '{{f1?.(v2)}}', 'optmem': '{{v1?.x}}', 'optmcall': '{{v1.m?.()}}', 'newx': '{{new C1(v2)}}', 'tagged': '{{f1`t`}}', 'await': '{{(async () => await f1())()}}', 'paren': '{{(f1(v1))}}', 'seq': '{{(v1, f1())}}',
    'eld': '<div v-show={{v1}}>hi</div>', 'elf': '<input v-foo={{v2}}/>', 'spcall': '{{...f1(v2)}}', 'spobj': '{{...[v1, v2]}}', 'spfn': '{{...(() => [v1])()}}', 'empty': '{{}}', 'cmt': '{{/* c */}}', 'spread': '{{...v3}}', 'el': '<b/>', 'elt': '<i>x</i>', 'frag': '<>y</>', 'comp': '<C1/>',
}
HOSTS = {'div': ('div', 'div'), 'Foo': ('Foo', 'Foo'), 'C1': ('C1', 'C1'), 'mem': ('v1.Foo', 'v1.Foo'), 'memtag': ('v1.button', 'v1.button'), 'memsvg': ('v2.svg', 'v2.svg'), 'memdeep': ('v1.ui.table', 'v1.ui.table'), 'KeepAlive': ('KeepAlive', 'KeepAlive'),
         'frag': ('', ''), 'cust': ('x-y', 'x-y'), 'Fragment': ('Fragment', 'Fragment')}
VSLOTS = {'': '', 'id': ' v-slots={{s1}}', 'obj': ' v-slots={{{{foo: f1}}}}', 'call': ' v-slots={{f1()}}'}


def make_skeleton(spec):
    leaves = []
    parts = []
    for i, k in enumerate(spec['kids']):
        if k in ('T1', 'T2', 'T3', 'E1', 'E2'):
            nm = 'X%d' % i
            leaves.append(Leaf(nm, 'text' if k[0] == 'T' else 'textent', int(k[1])))
            parts.append('{%s}' % nm)
        else:
            parts.append(KIDS[k])
    o, c = HOSTS[spec['host']]
    vs = VSLOTS[spec.get('vslots', '')] if spec['host'] != 'frag' else ''
    jsx = '<%s%s>%s</%s>' % (o, vs, ''.join(parts), c)
    # the element as the right-hand side of an assignment: to an unrelated variable, to a variable spelled like a generated temporary,
    # to a variable one of whose namesakes (another binding) is the child
    wrap = {None: 'const _0 = %s;', 'assign': 'const _0 = (v4 = %s);', 'assign-tempname': 'let _slot = 0;\nconst _0 = (_slot = %s);',
            'assign-shadow': 'const _0 = (v1 = ((v1) => %s)(v2));'}[spec.get('wrap')]
    src = PRELUDE + wrap % jsx + '\n'
    opts = {'enable_object_slots': 'sym', 'optimize': 'sym'}
    opts.update(spec.get('opts', {}))
    return Skeleton('kids#%s|%s|%s%s' % (spec['host'], ','.join(spec['kids']), spec.get('vslots', ''), '|' + spec['wrap'] if spec.get('wrap') else ''), src, leaves, opts,
                    patterns=['opaque'] if spec['host'] == 'cust' else None, meta={'family': 'kids/' + spec['host']})


def extra_constraints(skel):
    """adjacent symbolic text leaves would be one JSXText token; a symbolic text directly next to concrete text likewise:
    the generator never produces those."""
    return []


def oracle(env):
    ctx = env.ctx
    el = find_input_element(env.pre)
    out = jsout.find_decl_init(env.post, '_0')
    if el is None or out is None:
        raise Unsupported('harness: element not found')
    if not (isinstance(el, Adt) and el.ty == 'Expr' and el.variant in ('JSXElement', 'JSXFragment')):
        hits = []

        def f(v, p):
            if isinstance(v, Adt) and v.ty == 'Expr' and v.variant in ('JSXElement', 'JSXFragment') and not hits:
                hits.append(v)
        astio.walk(el, f)
        if not hits:
            raise Unsupported('harness: element not found')
        el = hits[0]
    # unwrap `(x = <vnode>)` and `(x = ((x) => <vnode>)(y))`
    for _ in range(6):
        o2 = denote.E(out)
        if denote.is_expr(o2, 'Paren'):
            out = o2.fields[0].get('expr')
        elif denote.is_expr(o2, 'Assign'):
            out = o2.fields[0].get('right')
        elif denote.is_expr(o2, 'Call') and o2.fields[0].get('callee').variant == 'Expr' and denote.is_expr(denote.E(o2.fields[0].get('callee').fields[0]), 'Paren'):
            fn = denote.E(denote.E(o2.fields[0].get('callee').fields[0]).fields[0].get('expr'))
            if denote.is_expr(fn, 'Arrow'):
                b = deref(fn.fields[0].get('body'))
                if b.variant == 'Expr':
                    out = b.fields[0]
                else:
                    st = b.fields[0].get('stmts')
                    rets = [x for x in st if x.variant == 'Return']
                    if len(rets) != 1 or not is_some(rets[0].fields[0].get('arg')):
                        break
                    out = rets[0].fields[0].get('arg').fields[0]
            else:
                break
        else:
            break
    mv = denote.ModuleView(env.post)
    try:
        v = denote.vnode_view(out, mv)
    except OracleGap as g:
        raise Unsupported('oracle gap: %s' % g)
    if v is None:
        return [Obligation('element becomes a vnode call', False)]
    if el.variant == 'JSXFragment':
        kids = el.fields[0].get('children')
        r = children.children_ok(env, mv, kids, v.children, False, None)
        return [Obligation('fragment is a Fragment vnode', denote.tag_view(v.tag, mv) == ('vue', 'Fragment')),
                Obligation('children are exactly the written children in order (JSX text rule, empties dropped, spreads spliced, null when none)', r,
                           {'host': 'fragment', 'shape': _shape(env, kids)})]
    jel = deref(el.fields[0])
    name = jel.get('opening').get('name')
    comp = children.is_component_host(env, name, mv)
    vs = children.vslots_value(env, jel.get('opening').get('attrs'))
    if vs == 'other':
        vs = None
    try:
        r = children.children_ok(env, mv, jel.get('children'), v.children, comp, vs)
    except OracleGap as g:
        raise Unsupported('oracle gap: %s' % g)
    shape = _shape(env, jel.get('children'))
    if comp:
        return [Obligation('component children are delivered as the slots the source denotes', r, {'host': 'component', 'shape': shape})]
    return [Obligation('children are exactly the written children in order (JSX text rule, empties dropped, spreads spliced, null when none)', r, {'host': 'element', 'shape': shape})]


def _shape(env, kids):
    """shape of the effective child list (after dropping empties), for reporting"""
    try:
        items = children.expected_items(env, kids)
    except OracleGap:
        return '?'
    items = [it for it in items if it[0] != 'text?']
    if not items:
        return 'none'
    if len(items) > 1:
        return 'many'
    it = items[0]
    if it[0] != 'expr':
        return it[0]
    e = it[1]
    for k in ('Fn', 'Arrow', 'Object', 'Ident', 'Call'):
        if denote.is_expr(e, k):
            return {'Fn': 'function', 'Arrow': 'function'}.get(k, k.lower())
    return 'expr'


COMP_HOSTS = ['Foo', 'C1', 'mem', 'memtag', 'memsvg', 'memdeep']       # a member expression is a component host whatever its last segment spells
ELEM_HOSTS = ['div', 'frag', 'KeepAlive', 'cust']
ONE = ['optcall', 'optmem', 'optmcall', 'newx', 'tagged', 'paren', 'seq', 'id', 'un', 'call', 'arrow', 'fn', 'obj', 'lit', 'mem', 'cond', 'hi', 'sp', 'nl', 'blank', 'T1', 'T2', 'E1', 'E2', 'empty', 'cmt', 'spread', 'spcall', 'spobj', 'spfn', 'el', 'elt', 'eld', 'elf', 'frag', 'comp', 'num']


def kid_jobs(tier, hosts, vslots_for):
    out = []
    for h in hosts:
        out.append({'host': h, 'kids': []})
        for vs in vslots_for(h):
            if vs:
                out.append({'host': h, 'kids': [], 'vslots': vs})
            for k in ONE:
                out.append({'host': h, 'kids': [k], 'vslots': vs})
        pal2 = ['id', 'call', 'arrow', 'obj', 'hi', 'T2', 'E2', 'empty', 'spread', 'el', 'nl'] if tier == 'quick' else ONE
        for a, b in itertools.product(pal2, repeat=2):
            if _adjacent_text(a, b):
                continue
            out.append({'host': h, 'kids': [a, b]})
        if tier != 'quick':
            pal3 = ['id', 'call', 'arrow', 'hi', 'T1', 'empty', 'spread', 'el']
            for tr in itertools.product(pal3, repeat=3):
                if _adjacent_text(tr[0], tr[1]) or _adjacent_text(tr[1], tr[2]):
                    continue
                out.append({'host': h, 'kids': list(tr)})
        # text on both sides of a child that contributes nothing ({} or a comment): two text runs, each cleaned on its own
        for t1 in ('T2', 'nl', 'hi', 'sp'):
            for mid in ('empty', 'cmt'):
                for t2 in ('T2', 'nl', 'hi'):
                    if tier == 'quick' and (t1, t2) not in (('T2', 'T2'), ('nl', 'hi'), ('hi', 'nl'), ('sp', 'T2'), ('T2', 'nl')):
                        continue
                    out.append({'host': h, 'kids': [t1, mid, t2]})
        # text between / around other children (the position dimension of C02)
        for t in (['T2', 'T3'] if tier == 'quick' else ['T1', 'T2', 'T3']):
            out.append({'host': h, 'kids': ['el', t, 'el']})
            out.append({'host': h, 'kids': ['id', t, 'call']})
            out.append({'host': h, 'kids': [t, 'el']})
    return out


def _adjacent_text(a, b):
    txt = ('T1', 'T2', 'T3', 'E1', 'E2', 'hi', 'sp', 'nl', 'blank')
    return a in txt and b in txt


def jobs(tier):
    extra = []
    for h in ('Foo', 'C1'):
        for k in ('id', 'call', 'un', 'mem', 'arrow'):
            for w in ('assign', 'assign-tempname', 'assign-shadow'):
                extra.append({'module': MOD, 'spec': {'host': h, 'kids': [k], 'wrap': w}})
    return extra + _jobs(tier)


def _jobs(tier):
    js = kid_jobs(tier, COMP_HOSTS if tier != 'quick' else ['Foo', 'C1', 'memtag'], lambda h: ['', 'id', 'obj', 'call'] if h in ('Foo',) or tier != 'quick' else [''])
    return [{'module': MOD, 'spec': s} for s in js]


def classify(v, detail):
    if v['kind'] == 'panic':
        return 'panic'
    import re
    m = re.search(r'const _0 = <([^\s>]*)([^>]*)>(.*)</', v['source'], re.S)
    host = m.group(1) if m else '?'
    kids = m.group(3) if m else ''
    shape = 'none' if not kids.strip() else 'fn' if re.fullmatch(r'\{\s*(\(\)\s*=>|function).*\}', kids.strip(), re.S) else 'obj' if kids.strip().startswith('{{') else \
        'ident' if re.fullmatch(r'\{\w+\}', kids.strip()) else 'call' if re.fullmatch(r'\{\w+\(.*\)\}', kids.strip()) else 'mixed'
    vs = 'v-slots' if 'v-slots' in (m.group(2) if m else '') else 'no-v-slots'
    info = (detail or {}).get('info') or v.get('info') or {}
    if info.get('shape'):
        shape = info['shape']
    return '%s | child=%s | %s' % (v['obligation'][:40], shape, vs)


def main(argv):
    rep = common.Report(PROP)
    js = jobs(rep.tier)
    rep.bounds = {'children_per_element': '<=2 (+ text-between triples) quick / <=3 thorough', 'symbolic_text_length': '1..3', 'hosts': COMP_HOSTS,
                  'v-slots': sorted(VSLOTS), 'options': 'enableObjectSlots, optimize symbolic', 'child_kinds': sorted(KIDS)}
    rep.assumptions = ['embedded expressions are JSX-free opaque tokens (nested elements are separate child kinds)',
                       'runtime value kinds of the slot test: function, plain object, vnode, array, string, number, null, undefined',
                       'where the temporary for a call child is declared relative to its use is C06 (not applicable); here only that it is declared']
    res = common.run_jobs('mirsym.checks.elements', 'run_family_job', js)
    raw = []
    for r in res:
        raw.extend(r.pop('violations', []))
        rep.absorb(r)
    import importlib
    elements.triage(rep, PROP, importlib.import_module(MOD), raw, classify)
    if rep.validation_mismatches:
        rep.inconclusive.append('MIR executor and native build disagree on %d sampled instances' % len(rep.validation_mismatches))
    return common.finish(rep, explanation='whole-module symbolic execution on component elements; the emitted third argument is evaluated abstractly (slot object / runtime conditional with the helper evaluated over value kinds)')


def replay(path):
    import importlib
    return elements.replay_dir(PROP, importlib.import_module(MOD), path)
