"""C01 - every JSX element renders the vnode type and props its source denotes."""
import sys, itertools, json
import z3
from ..engine import *
from ..values import *
from .. import harness, denote, astio, driver, jsout, world
from ..denote import OracleGap
from ..harness import Leaf, Skeleton
from ..models import _tags
from . import common, elements
from .elements import PRELUDE, BOUND, sym_clean_str, find_input_element

PROP = 'C01'
MOD = 'mirsym.checks.c01'

ATTR_SRC = {
    'cls': 'class="c  d"', 'clsE': 'class={{v1}}', 'clsA': 'class={{[v1, "x"]}}', 'styE': 'style={{v2}}', 'sty': 'style="color:red"',
    'clk': 'onClick={{f1}}', 'clkA': 'onClick={{[f1, v3]}}', 'onF': 'onFoo={{v3}}',
    'spI': '{{...s1}}', 'spO': '{{...{{class: v2, id: "k"}}}}', 'spC': '{{...f1()}}',
    'on': 'on={{o1}}', 'non': 'nativeOn={{o1}}', 'ns': 'xlink:href="u"', 'key': 'key={{v4}}', 'ref': 'ref={{v3}}',
    'lit': 'title={{1}}', 'arr': 'data={{[1, "a"]}}', 'obj': 'info={{{{a: v1}}}}', 'arrow': 'cb={{() => v1}}', 'mem': 'm={{v1.x}}',
    'undef': 'u={{undefined}}', 'id': 'id="a"', 'bool': 'disabled',
}
TAG_SRC = {'div': 'div', 'svg': 'svg', 'Foo': 'Foo', 'C1': 'C1', 'KeepAlive': 'KeepAlive', 'Fragment': 'Fragment', 'mem': 'v1.Foo', 'memtag': 'v1.button', 'memsvg': 'v2.svg', 'cust': 'x-y',
           'mem3': 'v1.ui.Input', 'mem4': 'v1.a.table.Row', 'memthis': 'this.Foo', 'memthis3': 'this.ui.div'}


def make_skeleton(spec):
    leaves = []
    tag = spec['tag']
    if tag.startswith('sym'):
        n = int(tag[3:])
        leaves.append(Leaf('T', 'tagname', n, forbid=BOUND + ['_0']))
        tag_src = '{T}'
    else:
        tag_src = TAG_SRC[tag]
    parts = []
    for i, a in enumerate(spec['attrs']):
        if ':' in a:
            kind, n = a.split(':'); n = int(n)
            name = 'A%d' % i
            leaves.append(Leaf(name, 'attrname', n))
            if kind == 'S':
                sl = 'S%d' % i
                leaves.append(Leaf(sl, 'str', 2))
                parts.append('{%s}="{%s}"' % (name, sl))
            elif kind == 'J':       # a JavaScript string literal in braces: the prop is the string's value, untouched
                sl = 'J%d' % i
                leaves.append(Leaf(sl, 'jsstrx', 3))
                parts.append('{%s}={{"{%s}"}}' % (name, sl))
            elif kind == 'B':
                parts.append('{%s}' % name)
            else:
                parts.append('{%s}={{v%d}}' % (name, 1 + i % 4))
        else:
            parts.append(ATTR_SRC[a])
    src = PRELUDE + 'const _0 = <%s %s/>;\n' % (tag_src, ' '.join(parts))
    opts = {'merge_props': 'sym', 'transform_on': 'sym', 'optimize': False}
    opts.update(spec.get('opts', {}))
    return Skeleton('c01#%s|%s%s' % (tag, ','.join(spec['attrs']), '|pat' if spec.get('patterns') else ''), src, leaves, opts,
                    patterns=['opaque'] if spec.get('patterns') else None, meta={'family': 'c01/' + ('symtag' if tag.startswith('sym') else tag)})


def extra_constraints(skel):
    """symbolic attribute names: never a directive (v-/vX: covered by C04/C05), and two equal names only when the
    statement defines their combination (class / style / onX listeners)."""
    cs = []
    names = [l for l in skel.leaves if l.kind == 'attrname']
    for l in names:
        if l.length >= 2:
            c0, c1 = l.chars[0], l.chars[1]
            cs.append(z3.Not(z3.And(c0 == ord('v'), z3.Or(c1 == ord('-'), z3.And(z3.UGE(c1, 65), z3.ULE(c1, 90))))))
    concrete = ['class', 'style', 'onClick', 'onFoo', 'on', 'nativeOn', 'key', 'ref', 'title', 'data', 'info', 'cb', 'm', 'u', 'id', 'disabled']
    for l in names:
        for cn in concrete:
            if len(cn) == l.length and cn not in ('class', 'style', 'onClick', 'onFoo'):
                cs.append(z3.Not(z3.And([c == ord(x) for c, x in zip(l.chars, cn)])))
    for a, b in itertools.combinations(names, 2):
        if a.length == b.length:
            eq = z3.And([x == y for x, y in zip(a.chars, b.chars)])
            merge = _mergeable_z3(a.chars)
            cs.append(z3.Implies(eq, merge))
    return cs


def _mergeable_z3(cs):
    alts = []
    for w in ('class', 'style'):
        if len(cs) == len(w):
            alts.append(z3.And([c == ord(x) for c, x in zip(cs, w)]))
    if len(cs) >= 3:
        alts.append(z3.And(cs[0] == ord('o'), cs[1] == ord('n'), z3.Not(z3.And(z3.UGE(cs[2], 97), z3.ULE(cs[2], 122)))))
    return z3.Or(alts) if alts else z3.BoolVal(False)


# ------------------------------------------------------------------ oracle
def expected_tag(env, elname, mv):
    """classification of the statement: -> expected tag view"""
    ctx = env.ctx
    if elname.variant == 'Ident':
        ident = elname.fields[0]
        name = ident.get('sym')
        cs = name.cs
        is_html = False
        if len(cs) and ctx.decide(in_range(cs[0], 97, 122)):
            n = len(cs)
            member = b_or(*[seq(name, SStr.of(t)) for t in set(_tags('STANDARD_HTML_TAGS')) | set(_tags('SVG_TAGS')) if len(t) == n])
            is_html = ctx.decide(member)
        if is_html:
            return ('str', name)
        if ctx.decide(seq(name, SStr.of('Fragment'))):
            return ('vue', 'Fragment')
        if pattern_matches(env, name):
            return ('str', name)
        ct = ident.get('ctxt')
        outer = ctx_outer(env, ct)
        if outer == env.extra['resp']['unresolved_mark']:
            return ('resolve', name)
        return ('ident', ident)
    if elname.variant == 'JSXMemberExpr':
        return ('member', elname.fields[0])
    return ('namespaced', elname.fields[0])


def ctx_outer(env, ct):
    marks = env.extra['resp'].get('ctxt_outer_marks', [])
    return marks[ct] if ct < len(marks) else None


def pattern_matches(env, name):
    """does a configured custom-element pattern match? (the opaque predicate the executor used; concrete regex natively)"""
    ctx = env.ctx
    if env.skel is not None and env.skel.patterns:
        fns = getattr(ctx, 'regex_fns', {})
        n = len(name.cs)
        fn = fns.get((0, n))
        if fn is None:
            # the implementation never asked: the oracle asks itself (fresh predicate instance = same function symbol)
            fn = z3.Function('rx%d_len%d' % (0, n), *([z3.BitVecSort(CHW)] * n + [z3.BoolSort()])) if n else z3.Bool('rx0_empty')
            ctx.__dict__.setdefault('regex_fns', {})[(0, n)] = fn
            ctx.__dict__.setdefault('regex_calls', []).append((0, name))
        return ctx.decide(fn(*[bv(c, CHW) for c in name.cs]) if n else fn)
    pats = env.opts.get('custom_element_patterns') or env.extra.get('patterns') or []
    import re as _re
    for p in pats:
        if _re.search(p, name.py()):
            return True
    return False


def tag_matches(env, exp, got):
    ctx = env.ctx
    if exp[0] == 'member':
        # a JSX member tag denotes the member value; swc prints Expr::JSXMember as `a.b`
        if got[0] == 'jsx' and got[1].variant == 'JSXMember':
            return denote.expr_eq(ctx, got[1].fields[0], exp[1])
        if got[0] == 'member':
            return _member_same(ctx, got[1], exp[1])
        return False
    if exp[0] != got[0]:
        return False
    if exp[0] in ('str', 'resolve'):
        return seq(exp[1], got[1])
    if exp[0] == 'vue':
        return exp[1] == got[1]
    if exp[0] == 'ident':
        return b_and(seq(exp[1].get('sym'), got[1].get('sym')), exp[1].get('ctxt') == got[1].get('ctxt'))
    return False


def _jsx_member_path(jm):
    """JSXMemberExpr -> [root Ident Adt, 'prop', ...] (outermost property last)"""
    jm = deref(jm)
    obj = deref(jm.get('obj'))
    prop = denote.pystr(jm.get('prop').get('sym'))
    if obj.variant == 'Ident':
        return [obj.fields[0], prop]
    if obj.variant == 'JSXMemberExpr':
        return _jsx_member_path(obj.fields[0]) + [prop]
    raise OracleGap('jsx member object ' + str(obj.variant))


def _member_path(e):
    """Expr::Member with identifier properties -> [root Ident Adt | 'this', 'prop', ...], or None"""
    e = denote.E(e)
    if denote.is_expr(e, 'Ident'):
        return [e.fields[0]]
    if denote.is_expr(e, 'This'):
        return ['this']
    if denote.is_expr(e, 'Member'):
        pr = e.fields[0].get('prop')
        if pr.variant != 'Ident':
            return None
        base = _member_path(e.fields[0].get('obj'))
        return None if base is None else base + [denote.pystr(pr.fields[0].get('sym'))]
    return None


def _member_same(ctx, member_expr, jsx_member):
    """a plain member expression denotes the same value as the JSX member tag: same root binding, same property path"""
    try:
        want = _jsx_member_path(jsx_member)
    except OracleGap:
        return False
    got = _member_path(member_expr)
    if got is None or len(got) != len(want) or got[1:] != want[1:]:
        return False
    r0, g0 = want[0], got[0]
    if g0 == 'this':
        return denote.pystr(r0.get('sym')) == 'this'
    return b_and(seq(r0.get('sym'), g0.get('sym')), r0.get('ctxt') == g0.get('ctxt'))


def expected_groups(env, attrs):
    """input attributes as merge groups (one group per attribute; object-literal spreads are literals)"""
    ctx = env.ctx
    groups = []
    ton = env.opts.get('transform_on', False)
    for a in attrs:
        if a.variant == 'SpreadElement':
            ex = denote.E(a.fields[0].get('expr'))
            if denote.is_expr(ex, 'Object'):
                groups.append(denote.Group('lit', denote.lit_entries(ex.fields[0])))
            else:
                groups.append(denote.Group('spread', ex))
            continue
        attr = a.fields[0]
        name = denote.attr_name(attr)
        tok = denote.attr_value_token(ctx, attr, sym_clean_str)
        if (ctx.decide(seq(name, SStr.of('on'))) or ctx.decide(seq(name, SStr.of('nativeOn')))) and ctx.decide(ton):
            groups.append(denote.Group('on', tok))
        else:
            groups.append(denote.Group('lit', [('kv', name, tok)]))
    return groups


def all_keys(groups):
    ks = []
    for g in groups:
        if g.kind == 'lit':
            for en in g.payload:
                if en[0] == 'kv' and isinstance(en[1], SStr):
                    ks.append(en[1])
    return ks


def distinct_keys(ctx, keys):
    out = []
    for k in keys:
        if not any(ctx.decide(seq(k, o)) for o in out):
            out.append(k)
    return out


def oracle(env):
    ctx = env.ctx
    obs = []
    el = find_input_element(env.pre)
    out = jsout.find_decl_init(env.post, '_0')
    if el is None or out is None or not (isinstance(el, Adt) and el.variant == 'JSXElement'):
        raise Unsupported('harness: input element / output initialiser not found')
    jel = deref(el.fields[0])
    mv = denote.ModuleView(env.post)
    try:
        v = denote.vnode_view(out, mv)
    except OracleGap as g:
        raise Unsupported('oracle gap: %s' % g)
    if v is None:
        return [Obligation('element becomes a vnode call', False, {'output': repr(out)[:200]})]
    opening = jel.get('opening')
    # ---- tag
    exp_tag = expected_tag(env, opening.get('name'), mv)
    if exp_tag[0] != 'namespaced':
        got_tag = denote.tag_view(v.tag, mv)
        obs.append(Obligation('vnode type is what the tag denotes', tag_matches(env, exp_tag, got_tag),
                              {'expected': exp_tag[0], 'got': got_tag[0], 'tag': opening.get('name').fields[0].get('sym') if opening.get('name').variant == 'Ident' else None}))
    # ---- props
    attrs = opening.get('attrs')
    try:
        exp = expected_groups(env, attrs)
        got = denote.props_groups(v.props, mv)
    except OracleGap as g:
        raise Unsupported('oracle gap: %s' % g)
    merge = ctx.decide(env.opts.get('merge_props', True))
    if not merge:
        flat = []
        for g in exp:
            if g.kind == 'lit':
                flat.extend(g.payload)
            elif g.kind == 'spread':
                flat.append(('spread', g.payload))
            else:
                flat.append(('spread', ('on', g.payload)))
        exp_eval = [denote.Group('lit', flat)]
    else:
        exp_eval = exp
    got_eval = got
    if not merge:
        # with mergeProps off the runtime has plain object semantics: a transformOn() result is spread like any object
        g2 = []
        for g in got:
            g2.append(g)
        got_eval = g2
    keys = distinct_keys(ctx, all_keys(exp) + all_keys(got) + [SStr.of('\x00other')])
    # the on/nativeOn objects: each handed to the transformOn helper exactly once (where its listeners sit relative to explicit
    # listeners of the same event is not fixed by the statement)
    e_on = [g.payload for g in exp if g.kind == 'on']
    g_on = [g.payload for g in got if g.kind == 'on']
    obs.append(Obligation('on/nativeOn objects become listeners exactly once',
                          len(e_on) == len(g_on) and (len(e_on) != 1 or denote.token_eq(ctx, e_on[0], g_on[0])),
                          {'expected_tokens': len(e_on), 'got_tokens': len(g_on), 'mergeProps': merge}))
    exp_eval = [g for g in exp_eval if g.kind != 'on']
    got_eval = [g for g in got_eval if g.kind != 'on']
    forced = (not merge) and len(e_on) > 0          # an on/nativeOn object under transformOn goes through mergeProps even when the option is off
    for k in keys:
        mode0 = denote.mergeable_mode(ctx, k)
        if mode0 != 'shallow' and not (ctx.decide(seq(k, SStr.of('class'))) or ctx.decide(seq(k, SStr.of('style')))):
            # a plain attribute name written twice: outside the quantifier of the statement (listed under assumptions)
            if sum(1 for x in _attr_names(attrs) if ctx.decide(seq(x, k))) >= 2:
                continue
        e_t = denote.denote_key(ctx, exp_eval, k, True)
        g_t = denote.denote_key(ctx, got_eval, k, True)
        e_t = [t for t in e_t if not _is_on_tok(t)]; g_t = [t for t in g_t if not _is_on_tok(t)]
        mode = denote.mergeable_mode(ctx, k)
        if mode == 'shallow':
            # main clause: the same handlers in the same order (arrays flattened completely) ...
            e_d = _deep(e_t); g_d = _deep(g_t)
            obs.append(Obligation('props are exactly the written attributes', denote.tokens_equal(ctx, e_d, g_d),
                                  {'key': k, 'expected_tokens': len(e_d), 'got_tokens': len(g_d), 'mergeProps': merge, 'on_forces_merge': forced}))
            # ... and the listener value is a flat array as Vue's own merging produces (DOM listeners do not accept nested arrays)
            obs.append(Obligation('merged listeners form a flat array', denote.tokens_equal(ctx, e_t, g_t),
                                  {'key': k, 'expected_tokens': len(e_t), 'got_tokens': len(g_t), 'mergeProps': merge, 'on_forces_merge': forced}))
        else:
            obs.append(Obligation('props are exactly the written attributes', denote.tokens_equal(ctx, e_t, g_t),
                                  {'key': k, 'expected_tokens': len(e_t), 'got_tokens': len(g_t), 'mergeProps': merge, 'on_forces_merge': forced}))
    return obs


def _attr_names(attrs):
    out = []
    for a in attrs:
        if a.variant != 'SpreadElement':
            out.append(denote.attr_name(a.fields[0]))
    return out


def _is_on_tok(t):
    return isinstance(t, tuple) and (t[0] == 'on' or (t[0] == 'spread' and isinstance(t[1], tuple) and t[1][0] == 'on'))


def _deep(tokens):
    out = []
    for t in tokens:
        if isinstance(t, tuple):
            out.append(t)
        else:
            out.extend(denote.flatten_value(t, True))
    return out


def _norm_on(tokens):
    out = []
    for t in tokens:
        if isinstance(t, tuple) and t[0] == 'on':
            out.append(('spread', ('on', t[1])))
        else:
            out.append(t)
    return out


# ------------------------------------------------------------------ job lists
MERGEABLE_ITEMS = ('cls', 'clsE', 'clsA', 'styE', 'sty', 'clk', 'clkA', 'onF')
QUICK_ATTRS = ['S:2', 'J:3', 'B:5', 'E:3', 'cls', 'clsE', 'styE', 'clk', 'clkA', 'spI', 'spO', 'spC', 'on', 'non', 'ns', 'key', 'ref', 'obj', 'undef']
MORE_ATTRS = ['E:5', 'S:5', 'clsA', 'sty', 'onF', 'lit', 'arr', 'arrow', 'mem', 'id', 'bool']


def jobs(tier):
    out = []
    tags_q = ['div', 'Foo', 'C1']
    tags_all = ['div', 'svg', 'Foo', 'C1', 'KeepAlive', 'mem', 'memtag', 'memsvg', 'cust', 'mem3', 'mem4', 'memthis', 'memthis3']
    pal = QUICK_ATTRS if tier == 'quick' else QUICK_ATTRS + MORE_ATTRS
    # tag forms (symbolic names of every length up to the bound) with and without a custom-element pattern
    for n in range(1, (4 if tier == 'quick' else 6) + 1):
        for pat in (False, True):
            out.append({'tag': 'sym%d' % n, 'attrs': ['id'], 'patterns': pat})
    for t in tags_all:
        out.append({'tag': t, 'attrs': [], 'patterns': False})
        out.append({'tag': t, 'attrs': ['id'], 'patterns': True})
    # attribute sequences
    for t in (tags_q if tier == 'quick' else tags_all):
        for a in pal:
            out.append({'tag': t, 'attrs': [a]})
    pairs = list(itertools.product(pal, repeat=2))
    for t in (['div', 'Foo'] if tier == 'quick' else ['div', 'Foo', 'C1']):
        for a, b in pairs:
            if tier == 'quick' and ':' in a and ':' in b and (a, b) != ('E:3', 'E:3'):
                continue        # two fully symbolic names: thorough tier (one such pair kept: equal-name interplay)
            if a == b and a not in MERGEABLE_ITEMS and ':' not in a and not a.startswith('sp'):
                continue        # a repeated plain attribute is outside the statement's quantifier
            if {a, b} == {'arr', 'lit'} and False:
                continue
            out.append({'tag': t, 'attrs': [a, b], 'opts': ({} if tier == 'quick' else {'optimize': 'sym'})})
    if tier == 'quick':
        # spread x on-object x mergeable name: the triples in which transformOn and mergeProps interact (thorough: all triples)
        for t in ['div', 'Foo']:
            for sp in ('spI', 'spO'):
                for mname in ('cls', 'clk', 'clsE', 'S:2'):
                    for tr in itertools.permutations([sp, 'on', mname]):
                        out.append({'tag': t, 'attrs': list(tr)})
    if tier != 'quick':
        core = ['S:2', 'clsE', 'cls', 'clk', 'spI', 'spO', 'on', 'key', 'obj']
        for t in ['div', 'Foo']:
            for tr in itertools.product(core, repeat=3):
                out.append({'tag': t, 'attrs': list(tr)})
    return [{'module': MOD, 'spec': s} for s in out]


def classify(v, detail):
    ob = v['obligation']
    info = (detail or {}).get('info') or v.get('info') or {}
    if v['kind'] == 'panic':
        return 'panic'
    if ob.startswith('vnode type'):
        return 'tag:%s->%s' % (info.get('expected'), info.get('got'))
    if info.get('on_forces_merge') and (ob.startswith('merged listeners') or ob.startswith('props')):
        return 'mergeProps-off:an-on-object-under-transformOn-still-combines-the-element-through-mergeProps'
    if ob.startswith('merged listeners'):
        return 'listener:nested-array-from-repeated-attribute'
    if ob.startswith('props'):
        k = info.get('key')
        kind = 'class/style' if k in ('class', 'style') else 'listener' if isinstance(k, str) and k.startswith('on') and len(k) > 2 and not k[2].islower() else 'plain'
        return 'props:%s:mergeProps=%s' % (kind, info.get('mergeProps'))
    return ob


def main(argv):
    rep = common.Report(PROP)
    js = jobs(rep.tier)
    rep.bounds = {'attributes_per_element': '<=2 (quick) / <=3 (thorough)', 'symbolic_tag_name_length': '1..4 quick / 1..6 thorough',
                  'symbolic_attribute_name_length': '2,3,5', 'attribute_string_length': 2,
                  'options': 'mergeProps, transformOn, optimize symbolic; customElementPatterns: none or one opaque pattern',
                  'hosts': 'HTML/SVG element, unbound component, bound component, KeepAlive, member tag, custom element'}
    rep.assumptions = ['embedded user expressions are opaque JSX-free tokens', 'helper semantics (mergeProps, object literal last-wins, class/style/listener array flattening) follow Vue 3 documented behaviour',
                       'repeated plain (non class/style/onX) attribute names are outside the quantifier of the statement',
                       'generic traversal (swc_ecma_visit) modelled: fields in declaration order; validated against the native build on the fixtures and on one witness per skeleton']
    res = common.run_jobs(MOD.replace('c01', 'elements'), 'run_family_job', js)
    raw = []
    for r in res:
        raw.extend(r.pop('violations', []))
        rep.absorb(r)
    import importlib
    mod = importlib.import_module(MOD)
    elements.triage(rep, PROP, mod, raw, classify)
    if rep.validation_mismatches:
        rep.inconclusive.append('MIR executor and native build disagree on %d sampled instances' % len(rep.validation_mismatches))
    return common.finish(rep, explanation='whole-module symbolic execution of the visitor MIR on element skeletons; abstract evaluation of the emitted props vs the written attributes decided per key by Z3')


def replay(path):
    import importlib
    return elements.replay_dir(PROP, importlib.import_module(MOD), path)
