"""Shared skeleton generator for the resolveType properties C16 (props + requiredness), C18 (defaults), C19 (emits).
The expectation the generator knows (the prop map / event set an encoding stands for) travels inside the module as a
leading `// EXPECT {...}` comment, so the same oracle reads it symbolically and on the native replay."""
import json, itertools, re
from ..engine import *
from ..values import *
from .. import denote, astio, jsout
from ..harness import Leaf, Skeleton
from . import c17

# ---------------------------------------------------------------- prop maps and their encodings
# a member: (key source text, key as emitted, optional?, kind)
MEMBERS = {
    'a': ('a', 'a', False, 'prop'), 'b?': ('b', 'b', True, 'prop'), 'q': ("'b-c'", 'b-c', False, 'prop'), 'q?': ("'d:e'", 'd:e', True, 'prop'),
    'm': ('m', 'm', False, 'method'), 'm?': ('n', 'n', True, 'method'), 'g': ('g', 'g', False, 'getter'), 'c': ('c', 'c', False, 'prop'), 'z?': ('z', 'z', True, 'prop'),
}


def member_src(code):
    src, _, opt, kind = MEMBERS[code]
    if kind == 'prop':
        return '%s%s: string' % (src, '?' if opt else '')
    if kind == 'method':
        return '%s%s(): void' % (src, '?' if opt else '')
    return 'get %s(): string' % src


def body(codes):
    return '{{ ' + '; '.join(member_src(c) for c in codes) + ' }}'


def expect_of(codes):
    return {MEMBERS[c][1]: (not MEMBERS[c][2]) for c in codes}


def encodings(codes):
    """-> list of (name, decls_before, type_expr, decls_after, expected {key: required} | 'ERROR')"""
    E = expect_of(codes)
    half = max(1, len(codes) // 2)
    A, B = codes[:half], codes[half:]
    out = []
    out.append(('inline', '', body(codes), '', E))
    out.append(('alias', 'type P = %s;\n' % body(codes), 'P', '', E))
    out.append(('alias-chain', 'type P0 = %s;\ntype P1 = P0;\ntype P = P1;\n' % body(codes), 'P', '', E))
    out.append(('interface', 'interface P %s\n' % body(codes), 'P', '', E))
    out.append(('paren', '', '(%s)' % body(codes), '', E))
    out.append(('exported-interface', 'export interface P %s\n' % body(codes), 'P', '', E))
    out.append(('exported-alias', 'export type P = %s;\n' % body(codes), 'P', '', E))
    out.append(('after-interface', '', 'P', 'interface P %s\n' % body(codes), E))
    out.append(('after-alias', '', 'P', 'type P = %s;\n' % body(codes), E))
    if B:
        out.append(('merged', 'interface P %s\ninterface P %s\n' % (body(A), body(B)), 'P', '', E))
        out.append(('merged-after', 'interface P %s\n' % body(A), 'P', 'interface P %s\n' % body(B), E))
        # the same method key declared at several source positions (overloads, intersection operands, parent and child)
        if any(MEMBERS[c][3] == 'method' and not MEMBERS[c][2] for c in codes):
            mk = [MEMBERS[c][0] for c in codes if MEMBERS[c][3] == 'method' and not MEMBERS[c][2]][0]
            out.append(('method-overloads', 'interface P %s\ninterface Q {{ %s(x: number): string }}\n' % (body(codes), mk), 'P & Q', '', E))
            out.append(('method-overload-inline', '', '%s & {{ %s(x: number, y: string): void }}' % (body(codes), mk), '', E))
            out.append(('method-parent-child', 'interface Base {{ %s(): void }}\ninterface P extends Base %s\n' % (mk, body(codes)), 'P', '', E))
        # every declaration of a merged interface may have its own heritage clause
        out.append(('merged-extends-later', 'interface Base %s\ninterface P {{}}\ninterface P extends Base %s\n' % (body(A), body(B)), 'P', '', E))
        out.append(('merged-extends-both', 'interface B0 %s\ninterface B1 %s\ninterface P extends B0 {{}}\ninterface P extends B1 {{}}\n' % (body(A), body(B)), 'P', '', E))
        out.append(('extends', 'interface Base %s\ninterface P extends Base %s\n' % (body(A), body(B)), 'P', '', E))
        out.append(('extends-chain', 'interface B0 %s\ninterface B1 extends B0 {{}}\ninterface P extends B1 %s\n' % (body(A), body(B)), 'P', '', E))
        out.append(('intersection', 'type PA = %s;\ninterface PB %s\n' % (body(A), body(B)), 'PA & PB', '', E))
        out.append(('intersection-inline', '', '%s & %s' % (body(A), body(B)), '', E))
        out.append(('intersection-paren', 'type PA = %s;\n' % body(A), '(PA) & (%s)' % body(B), '', E))
    out.append(('partial', 'interface P %s\n' % body(codes), 'Partial<P>', '', {k: (False if MEMBERS[c][3] != 'getter' else E[k]) for c, k in zip(codes, E)}))
    out.append(('required', 'interface P %s\n' % body(codes), 'Required<P>', '', {k: True for k in E}))
    keys = [MEMBERS[c][1] for c in codes]
    if len(keys) >= 2:
        pick = keys[:-1]
        out.append(('pick', 'interface P %s\n' % body(codes), 'Pick<P, %s>' % ' | '.join("'%s'" % k for k in pick), '', {k: E[k] for k in pick}))
        out.append(('pick-alias-keys', 'interface P %s\ntype K = %s;\n' % (body(codes), ' | '.join("'%s'" % k for k in pick)), 'Pick<P, K>', '', {k: E[k] for k in pick}))
        out.append(('omit', 'type P = %s;\n' % body(codes), "Omit<P, '%s'>" % keys[-1], '', {k: E[k] for k in keys[:-1]}))
        # picking from a member list in which a picked key occurs more than once (intersection operand, child redeclaring, merged)
        allk = ' | '.join("'%s'" % k for k in keys)
        first = member_src(codes[0])
        out.append(('pick-dup-intersection', 'interface Pre {{ %s }}\ninterface P %s\n' % (first, body(codes)), 'Pick<Pre & P, %s>' % allk, '', E))
        out.append(('pick-dup-child', 'interface Base %s\ninterface P extends Base {{ %s }}\n' % (body(codes), first), 'Pick<P, %s>' % allk, '', E))
        out.append(('pick-dup-merged', 'interface P {{ %s }}\ninterface P {{ %s }}\ninterface P %s\n' % (first, first, body(codes[1:]) if len(codes) > 1 else '{{}}'), 'Pick<P, %s>' % allk, '', E))
        out.append(('omit-dup-intersection', 'interface Pre {{ %s }}\ninterface P %s\n' % (first, body(codes)), "Omit<Pre & P, '%s'>" % keys[-1], '', {k: E[k] for k in keys[:-1]}))
    out.append(('indexed', 'interface Outer {{ p: %s; other: number }}\n' % body(codes), "Outer['p']", '', E))
    out.append(('indexed-alias', 'type Outer = {{ p: %s }};\n' % body(codes), "Outer['p']", '', E))
    out.append(('imported', "import type {{ P }} from './types';\n", 'P', '', 'ERROR'))
    out.append(('unsupported-keyof', 'interface Q %s\n' % body(codes), 'keyof Q', '', 'ERROR'))
    out.append(('unknown-utility', 'interface Q %s\n' % body(codes), 'Awaited<Q>', '', 'ERROR'))
    return out


def composed(codes, depth=2, counter=None):
    """recursively partition and wrap the map with the structural operators -> list of (label, decls, type_expr, expected)"""
    counter = counter if counter is not None else [0]
    E = expect_of(codes)

    def fresh(prefix):
        counter[0] += 1
        return '%s%d' % (prefix, counter[0])
    out = []
    n = fresh('T')
    out.append(('inline', '', body(codes), E))
    out.append(('alias', 'type %s = %s;\n' % (n, body(codes)), n, E))
    n2 = fresh('I')
    out.append(('iface', 'interface %s %s\n' % (n2, body(codes)), n2, E))
    if depth <= 0:
        return out
    res = list(out)
    # wrappers around a sub-encoding
    for lab, d, t, e in composed(codes, depth - 1, counter)[:3]:
        res.append(('Partial<%s>' % lab, d, 'Partial<%s>' % t, {k: (False if not _is_getter(codes, k) else e[k]) for k in e}))
        res.append(('Required<%s>' % lab, d, 'Required<%s>' % t, {k: True for k in e}))
        res.append(('(%s)' % lab, d, '(%s)' % t, e))
        a = fresh('A')
        res.append(('alias-of(%s)' % lab, d + 'type %s = %s;\n' % (a, t), a, e))
        keys = list(e)
        if len(keys) >= 2:
            res.append(('Omit<%s>' % lab, d, "Omit<%s, '%s'>" % (t, keys[0]), {k: e[k] for k in keys[1:]}))
            res.append(('Pick<%s>' % lab, d, "Pick<%s, '%s'>" % (t, keys[0]), {keys[0]: e[keys[0]]}))
        o = fresh('O')
        res.append(('indexed(%s)' % lab, d + 'interface %s {{ p: %s }}\n' % (o, t), "%s['p']" % o, e))
    # splits
    if len(codes) >= 2:
        for cut in range(1, len(codes)):
            A, B = codes[:cut], codes[cut:]
            for la, da, ta, ea in composed(A, depth - 1, counter)[:4] + [x for x in composed(A, depth - 1, counter) if x[0].startswith(('Partial', 'Required'))][:2]:
                for lb, db, tb, eb in composed(B, depth - 1, counter)[:3] + [x for x in composed(B, depth - 1, counter) if x[0].startswith(('Partial', 'Required'))][:2]:
                    e = dict(ea); e.update(eb)
                    res.append(('%s & %s' % (la, lb), da + db, '%s & %s' % (ta, tb), e))
            # extends: parent must be a name
            for la, da, ta, ea in composed(A, 0, counter)[1:]:
                i = fresh('X')
                e = dict(ea); e.update(expect_of(B))
                res.append(('extends(%s)' % la, da + 'interface %s extends %s %s\n' % (i, ta, body(B)), i, e))
    return res


def _is_getter(codes, key):
    for c in codes:
        if MEMBERS[c][1] == key:
            return MEMBERS[c][3] == 'getter'
    return False


def module_src(expect_tag, expected, decls_before, call, decls_after, scope='top', shadow=''):
    head = '// %s %s\n' % (expect_tag, json.dumps(expected).replace('{', '{{').replace('}', '}}'))
    imp = "import {{ defineComponent }} from 'vue';\n"
    if scope == 'top':
        return head + imp + decls_before + call + '\n' + decls_after
    # locally scoped declarations shadowing a different top-level one
    ind = lambda s: ''.join('  ' + l + '\n' for l in s.splitlines())
    if scope == 'local':
        return head + imp + shadow + 'function scope() {{\n' + ind(decls_before) + '  ' + call + '\n' + ind(decls_after) + '}}\n'
    # the same with ordinary statements standing among the local declarations
    lines = decls_before.splitlines()
    if scope == 'local-stmt':        # a call leads the body
        body = '  setupScope();\n' + ind(decls_before) + '  ' + call + '\n' + ind(decls_after)
    elif scope == 'local-mid':       # a statement after the first declaration line, a `let` before it
        body = '  let local = 1;\n' + ind('\n'.join(lines[:1])) + '  if (local) setupScope();\n' + ind('\n'.join(lines[1:])) + '  ' + call + '\n' + ind(decls_after)
    elif scope == 'local-directive':
        body = '  "use strict";\n' + ind(decls_before) + '  ' + call + '\n' + ind(decls_after)
    elif scope == 'block':           # a block statement of the module, after an expression statement
        return head + imp + shadow + 'declare function setupScope(): void;\n{{\n  setupScope();\n' + ind(decls_before) + '  ' + call + '\n' + ind(decls_after) + '}}\n'
    else:
        raise ValueError(scope)
    return head + imp + shadow + 'declare function setupScope(): void;\nfunction scope() {{\n' + body + '}}\n'


def read_expect(env, tag):
    """the `// <tag> <json>` comment of the module"""
    for pos, items in env.extra['comments'].items():
        for kind, text in items:
            t = text.py() if isinstance(text, SStr) else text
            t = t.strip()
            if t.startswith(tag + ' '):
                return json.loads(t[len(tag) + 1:])
    return None


def props_option(call_out):
    ents = c17.options_entries(call_out)
    if ents is None:
        return None
    pe = [en for en in ents if en[0] == 'kv' and isinstance(en[1], SStr) and en[1].is_concrete() and en[1].py() == 'props']
    return pe[-1][2] if pe else None


def emits_option(call_out):
    ents = c17.options_entries(call_out)
    if ents is None:
        return None
    pe = [en for en in ents if en[0] == 'kv' and isinstance(en[1], SStr) and en[1].is_concrete() and en[1].py() == 'emits']
    return pe[-1][2] if pe else None
