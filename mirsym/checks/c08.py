"""C08 - the transform is total and deterministic (kernel level).
A: no reachable panic on directive values of every attribute-value kind and on malformed v-models shapes.
B: termination of type resolution on declaration graphs with symbolic edges (self / mutual reference).
C: two executions on the same path condition give the same module."""
import sys, itertools, json, re
import z3
from ..engine import *
from ..values import *
from .. import harness, denote, astio, driver, jsout, world
from ..harness import Leaf, Skeleton
from . import common, elements, c07
from .elements import PRELUDE

PROP = 'C08'
MOD = 'mirsym.checks.c08'

VALUE_KINDS = {'el': '=<b/>', 'frag': '=<>x</>', 'str': '="s"', 'none': '', 'expr': '={{v1}}', 'arr0': '={{[]}}', 'hole': '={{[, ]}}', 'spread': '={{[...v1]}}', 'num': '={{1}}',
               'nested': '={{[[]]}}', 'nested-hole': '={{[[v1, , ]]}}', 'nested-spread': '={{[[...v1], ...v2]}}', 'nested-str': '={{[["a"]]}}', 'obj': '={{{{a: 1}}}}', 'tpl': '={{`t`}}',
               'deep': '={{[v1, [[["m"]]], [v2]]}}', 'elc': '=<Foo>{{v1}}</Foo>'}
DIRS = ['v-html', 'v-text', 'v-model', 'v-models', 'v-slots', 'v-show', 'v-foo', 'v-foo:arg', 'v-model:arg_m', 'vModel', 'v-model_a_b']
HOSTS = ['div', 'input', 'Foo']

TYPE_GRAPHS = {
    'self-alias': 'type A0 = A0;\n', 'mutual-alias': 'type A0 = A1;\ntype A1 = A0;\n', 'self-union': 'type A0 = A0 | string;\n', 'self-extends': 'interface A0 extends A0 {{ a: string }}\n',
    'mutual-extends': 'interface A0 extends A1 {{ a: string }}\ninterface A1 extends A0 {{ b: string }}\n', 'self-partial': 'type A0 = Partial<A0>;\n', 'self-indexed': "type A0 = A0['x'];\n",
    'self-prop': 'interface A0 {{ next: A0; a: string }}\n', 'self-array': 'type A0 = A0[];\n', 'self-paren': 'type A0 = (A0);\n', 'self-pick': "type A0 = Pick<A0, 'a'>;\n",
    'self-nonnull': 'type A0 = NonNullable<A0>;\n', 'three-cycle': 'type A0 = A1;\ntype A1 = A2;\ntype A2 = A0;\n', 'self-intersection': 'type A0 = {{ a: string }} & A0;\n',
    'key-cycle': "type K0 = K0;\ninterface P0 {{ a: string }}\ntype A0 = Pick<P0, K0>;\n",
    # a member whose type is an indexed access leading back to it; cycles through references that carry type arguments
    'member-self-access': "interface A0 {{ x: A0['x']; a: string }}\n", 'member-self-access-alias': "type A0 = {{ x: A0['x'] }};\n",
    'mutual-access': "interface A0 {{ x: A1['y'] }}\ninterface A1 {{ y: A0['x'] }}\n", 'access-of-self-access': "type B0 = {{ x: B0['x']; y: string }};\ntype A0 = {{ p: B0['x'] }};\n",
    'generic-self': 'type G0<T> = G0<T> & {{ a: T }};\ntype A0 = G0<number>;\n', 'generic-mutual': 'type G0<T> = Partial<G1<T>>;\ntype G1<T> = Required<G0<T>>;\ntype A0 = G0<string>;\n',
    'generic-member': 'type G0<T> = number | G0<T>;\ntype A0 = G0<string>;\n', 'generic-extends': 'interface G0<T> extends G0<T> {{ a: T }}\ntype A0 = G0<number>;\n',
}
EDGE_DECLS = """interface Dict0 {{ [key: string]: number }}
interface List0 {{ [index: number]: string; length: number }}
interface Rec0 {{ a: string; b?: number; m(): void }}
interface Empty0 {{}}
type AlDict = {{ [key: string]: number }};
type AlRec = {{ a: string }};
type Keys0 = 'zz' | 'yy';
"""
EDGE_TYPES = ["Dict0['foo']", 'Dict0[string]', 'Dict0[number]', 'List0[number]', "List0['length']", "Rec0['zz']", 'Rec0[number]', "Rec0['zz' | 'yy']", 'Rec0[Keys0]', "Empty0['a']", 'Empty0[string]',
              "AlDict['foo']", "AlRec['zz']", 'AlRec[number]', "{{ a: string }}['zz']", '{{}}[string]', "{{ [k: string]: number }}['x']", '[][0]', '[string][5]', '[string][-1]', '[string, number][1.5]', 'string[][0]',
              "Rec0['m']", "Rec0['a']['length']", "Rec0['zz']['yy']", 'Array<string>[number]', 'Array[number]', "Pick<Rec0, never>['a']", "Rec0[any]", "Rec0[keyof Rec0]", "Rec0['a' | number]",
              'Partial<Empty0>', "Pick<Rec0, 'zz'>", 'Omit<Rec0, string>', 'Required<{{}}>', 'Empty0 & Empty0', '(Empty0)', "Record<never, never>['a']"]
POSITIONS = {'props': '(props: A0) => () => null', 'prop-type': '(props: {{ p: A0 }}) => () => null', 'emits': '(props: {{ a: string }}, ctx: SetupContext<A0>) => () => null',
             'emit-key': "(props: {{ a: string }}, ctx: SetupContext<(e: A0) => void>) => () => null"}


# event names / prop names declared more than once (overloads, repeated union members, intersections): whatever de-duplicates them
# must not let a hash order reach the output
EMITS_DECLS = """interface Em0 {{ (e: 'change', v: string): void; (e: 'change', v: number): void; (e: 'input' | 'focus' | 'blur'): void; (e: 'submit', p: object): void; (e: 'reset'): void; (e: 'close'): void }}
type Ev0 = 'a' | 'b' | 'c' | 'a' | 'd' | 'e';
interface Pa0 {{ a: string; b: number; c: boolean }}
interface Pb0 {{ c: string; d: number; a: number; e: Date; f: symbol }}
"""
EMITS_DUP = {
    'overloads': ('{{ id: string }}', 'Em0'), 'union-repeat': ('{{ id: string }}', '(e: Ev0) => void'), 'two-fn-same': ('{{ id: string }}', "((e: 'x' | 'y' | 'z' | 'w') => void) | ((e: 'y' | 'x' | 'q') => void)"),
    'props-intersection': ('Pa0 & Pb0', "{{ (e: 'k'): void }}"), 'props-merged-dup': ('Pa0 & Pb0 & {{ a: bigint; g: string; h: number }}', 'Em0'),
    'property-syntax-dup': ('{{ id: string }}', "{{ a: []; b: [] }} & {{ b: [v: number]; c: []; a: []; d: []; e: [] }}"),
}


# names that may be non-ASCII, in every position where the code slices or indexes a name by bytes
NAME_FORMS = {
    'dir': '<div v-{N}={{v1}}/>', 'dir-camel': '<div vA{N}={{v1}}/>', 'dir-arg': '<div v-foo:{N}={{v1}}/>', 'dir-arg-mod': '<Foo v-foo:a_{N}={{v1}}/>', 'dir-mod': '<div v-foo_{N}={{v1}}/>',
    'dir-name-arg': '<Foo v-{N}:x_y={{[v1]}}/>', 'model-mod': '<input v-model_{N}={{v1}}/>', 'model-arg': '<Foo v-model:{N}={{v1}}/>', 'attr': '<div {N}={{v1}} on{N}={{v1}}/>',
    'tag': '<{N} a="1">x</{N}>', 'tag-member': '<v1.{N}>x</v1.{N}>', 'ns-attr': '<div {N}:{N}="u"/>', 'on-attr': '<div on={{v1}} o{N}={{v1}}/>',
}


def make_skeleton(spec):
    leaves = []
    if spec['kind'] == 'name':
        leaves.append(Leaf('N', 'uname', spec['n']))
        src = PRELUDE + 'const _0 = %s;\n' % NAME_FORMS[spec['form']]
        return Skeleton('c08#name|%s|%d' % (spec['form'], spec['n']), src, leaves, {'optimize': 'sym', 'transform_on': 'sym'}, meta={'family': 'c08/name'}, variants=[{}])
    if spec['kind'] == 'value':
        src = PRELUDE + 'const _0 = <%s id="a" %s%s/>;\n' % (spec['host'], spec['dir'], VALUE_KINDS[spec['value']])
        opts = {'optimize': 'sym', 'merge_props': 'sym'}
        sid = 'c08#value|%s|%s|%s' % (spec['host'], spec['dir'], spec['value'])
        return Skeleton(sid, src, leaves, opts, meta={'family': 'c08/value'}, variants=[{}])
    if spec['kind'] == 'edge':
        ts = spec['types']
        src = "import {{ defineComponent, type SetupContext }} from 'vue';\n" + EDGE_DECLS + \
              'export default defineComponent((props: {{ %s }}, ctx: SetupContext<%s>) => () => null);\n' % ('; '.join('p%d: %s' % (i, t) for i, t in enumerate(ts)), spec.get('emits', '{{}}'))
        return Skeleton('c08#edge|%s|%s' % ('|'.join(ts)[:60], spec.get('emits', '')[:20]), src, leaves, {'resolve_type': True}, tsx=True, meta={'family': 'c08/edge'})
    if spec['kind'] == 'emits':
        src = "import {{ defineComponent, type SetupContext }} from 'vue';\n" + EMITS_DECLS + \
              'export default defineComponent((props: %s, ctx: SetupContext<%s>) => () => null);\n' % (EMITS_DUP[spec['emits']][0], EMITS_DUP[spec['emits']][1])
        return Skeleton('c08#emits|%s' % spec['emits'], src, leaves, {'resolve_type': True}, tsx=True, meta={'family': 'c08/emits'})
    if spec['kind'] == 'graph':
        decls = TYPE_GRAPHS[spec['graph']]
        src = "import {{ defineComponent, type SetupContext }} from 'vue';\n" + decls + 'export default defineComponent(%s);\n' % POSITIONS[spec['pos']]
        return Skeleton('c08#graph|%s|%s' % (spec['graph'], spec['pos']), src, leaves, {'resolve_type': True}, tsx=True, meta={'family': 'c08/graph'})
    # symbolic declaration graph: three aliases whose right-hand sides are symbolic names of length 2
    n = spec.get('nodes', 3)
    for i in range(n):
        leaves.append(Leaf('R%d' % i, 'jsname', 2))
    form = spec.get('form', 'alias')
    decls = ''
    for i in range(n):
        if form == 'alias':
            decls += 'type A%d = {R%d} | string;\n' % (i, i)
        elif form == 'extends':
            decls += 'interface A%d extends {R%d} {{ f%d: string }}\n' % (i, i, i)
        else:
            decls += "type A%d = Partial<{R%d}>;\n" % (i, i)
    src = "import {{ defineComponent, type SetupContext }} from 'vue';\n" + decls + 'export default defineComponent(%s);\n' % POSITIONS[spec['pos']]
    return Skeleton('c08#symgraph|%s|%d|%s' % (form, n, spec['pos']), src, leaves, {'resolve_type': True}, tsx=True, meta={'family': 'c08/symgraph'})


def extra_constraints(skel):
    cs = []
    for l in skel.leaves:
        if l.kind == 'uname':
            continue
        c = l.chars[0]
        cs.append(z3.And(z3.UGE(c, 65), z3.ULE(c, 90)))       # type names start with an upper-case letter (no keywords of length 2)
        cs.append(z3.Not(z3.And(l.chars[0] == ord('I'), l.chars[1] == ord('n'))) if False else z3.BoolVal(True))
    return cs


NONDET = 'no iteration over a randomly seeded hash container reaches the output (repeating the run yields the same bytes)'


def oracle(env):
    """reaching the oracle means the run returned without panic within the step / depth budget"""
    ctx = env.ctx
    obs = []
    posts = env.extra.get('posts')
    if posts and len(posts) == 2:
        obs.append(Obligation('repeating the run yields the same module', denote.expr_eq(ctx, posts[0].fields[0].get('body'), posts[1].fields[0].get('body'))))
        d = env.extra.get('diags_all')
        if d:
            obs.append(Obligation('repeating the run yields the same diagnostics', [str(x) for x in d[0]] == [str(x) for x in d[1]]))
    if isinstance(ctx, harness.ConcreteCtx):
        # native side of the determinism clause: the same request is served eight more times (every std HashMap/HashSet instance
        # draws a fresh RandomState, also within one process) and the printed bytes are compared
        rerun = env.extra.get('rerun')
        if rerun is not None:
            codes = {env.extra.get('code')} | {rerun() for _ in range(8)}
            obs.append(Obligation(NONDET, len(codes) == 1, {'distinct_outputs': len(codes), 'outputs': sorted(str(c) for c in codes)[:3]}))
            # ... and nothing may survive from a run under other options in the same process: every option is perturbed in turn
            # (booleans flipped, a catch-all / no custom-element pattern, a pragma), then the original request is served again
            jo = env.extra.get('json_options') or {}
            pert = [{k: not bool(jo.get(k, d))} for k, d in (('transformOn', False), ('optimize', False), ('mergeProps', True), ('enableObjectSlots', True), ('resolveType', False))]
            pert += [{'customElementPatterns': ['[\\s\\S]*']}, {'customElementPatterns': []}, {'pragma': 'h'}]
            after = set()
            for ov in pert:
                after.add(rerun(None, [ov]))        # the perturbed run is served first, on the same thread of the same process
            after.add(rerun(None, pert))
            after.discard(None)          # a perturbed run that crashes (stack overflow on a cyclic type under resolveType) takes the request with it: the crash itself is the other clause's matter
            obs.append(Obligation('the result does not depend on runs made earlier in the same process under other options', after <= codes,
                                  {'distinct_outputs': len(after | codes), 'outputs': sorted(str(c) for c in (after - codes))[:2]}))
    else:
        nd = getattr(ctx, 'nondet_iterations', [])
        obs.append(Obligation(NONDET, not nd, {'sites': list(nd)[:4]}))
    return obs


def run_native_job(job):
    """native side of the determinism clause on the sample instance of a skeleton: repeated runs and runs that follow other option
    sets on the same thread must print the same bytes (the oracle's ConcreteCtx branch). Concrete representatives, no solver."""
    import importlib
    skel = make_skeleton(job['spec'])
    res = {'violations': [], 'inconclusive': [], 'samples': [], 'obligations': 0, 'distinct': [], 'vacuity': {}, 'kernels': {'native-determinism': {'paths': 1, 'obligations': 0}}}
    e3 = elements._e3()
    src = skel.sample_source()
    for o in job.get('option_sets', [{}]):
        cand = {'skeleton': skel.sid + '|native', 'kind': 'native-fallback', 'obligation': None, 'source': src, 'options': o, 'tsx': skel.tsx, 'info': None, 'variants': [], 'alt_sources': [], 'twice': False}
        ok, d = harness.native_check(e3, oracle, cand, skel)
        res['obligations'] += 2
        res['kernels']['native-determinism']['obligations'] += 2
        if ok is True and d.get('native') != 'panic':
            cand['obligation'] = d.get('obligation'); cand['kind'] = 'violation'; cand['info'] = d.get('info')
            res['violations'].append(cand)
    res['stats'] = {'paths': 1, 'queries': 0, 'sat': 0, 'unsat': 0, 'unknown': 0, 'solver_s': 0.0, 'steps': 0, 'fns': {}, 'models': []}
    res['spec'] = job['spec']
    return res


def static_scan(it):
    """the encoding itself: does any crate function iterate a hash map / hash set (iteration order could reach the output)?"""
    bad = []
    for name, fs in it.prog.fns.items():
        for f in fs:
            for bb, sts in f.blocks.items():
                for st in sts:
                    if st[0] == 'call' and re.search(r'\b(HashMap|HashSet)::<.*>::(iter|iter_mut|keys|values|values_mut|into_iter|drain|retain|into_keys|into_values)\b', st[2]):
                        bad.append((name[-60:], st[2][:120]))
                    if st[0] == 'call' and re.search(r'<&?(mut )?(std::collections::)?(HashMap|HashSet)<.*> as IntoIterator>::into_iter', st[2]):
                        bad.append((name[-60:], st[2][:120]))
    return bad


def jobs(tier):
    out = []
    for h in HOSTS:
        for d in DIRS:
            for v in VALUE_KINDS:
                if tier == 'quick' and h == 'input' and d not in ('v-model', 'v-models', 'vModel', 'v-model:arg_m'):
                    continue
                out.append({'kind': 'value', 'host': h, 'dir': d, 'value': v})
    for t in EDGE_TYPES:
        out.append({'kind': 'edge', 'types': [t]})
        out.append({'kind': 'edge', 'types': ['string'], 'emits': t})
        out.append({'kind': 'edge', 'types': ['string'], 'emits': '(e: %s) => void' % t})
    for e in EMITS_DUP:
        out.append({'kind': 'emits', 'emits': e})
    for f in NAME_FORMS:
        for n in ((1, 2) if tier == 'quick' else (1, 2, 3)):
            out.append({'kind': 'name', 'form': f, 'n': n})
    for g in TYPE_GRAPHS:
        for p in POSITIONS:
            out.append({'kind': 'graph', 'graph': g, 'pos': p})
    for form in ('alias', 'extends', 'partial'):
        for p in (['props', 'prop-type'] if tier == 'quick' else list(POSITIONS)):
            out.append({'kind': 'symgraph', 'form': form, 'nodes': 2 if tier == 'quick' else 3, 'pos': p})
    return [{'module': MOD, 'spec': s, 'verbose': True, 'max_paths': 3000} for s in out]


def classify(v, detail):
    sk = v['skeleton']
    if v['kind'] in ('steplimit',) or (v['kind'] == 'panic' and 'graph' in sk):
        return 'type-resolution-does-not-terminate-on-cyclic-declarations'
    if v['kind'] == 'panic' and '#edge' in sk:
        return 'panic:type-resolution:' + re.sub(r'[^\w]+', '-', str(v.get('obligation') or v.get('detail') or ''))[:40]
    if v['kind'] == 'panic':
        m = re.match(r'c08#value\|(\w+)\|([^|]*)\|([\w-]+)', sk)
        d = m.group(2) if m else '?'
        val = m.group(3) if m else '?'
        base = re.sub(r'[:_].*$', '', d)
        return 'panic:%s with a %s value' % (base, {'el': 'JSX element', 'elc': 'JSX element', 'frag': 'JSX fragment'}.get(val, val))
    return v['obligation'][:80]


def main(argv):
    rep = common.Report(PROP)
    js = jobs(rep.tier)
    it, info = load(verbose=False)
    scan = static_scan(it)
    rep.extra['hash_iteration_sites_in_crate_mir'] = scan
    rep.bounds = {'directive_value_kinds': sorted(VALUE_KINDS), 'directives': DIRS, 'hosts': HOSTS, 'type_graphs': sorted(TYPE_GRAPHS), 'positions': sorted(POSITIONS),
                  'symbolic_graphs': '2 (quick) / 3 alias | extends | Partial declarations whose referenced names are fully symbolic (2 characters): every edge set incl. self and mutual reference',
                  'budget': 'call depth 150 / 400k MIR steps per path: exceeding it is reported as non-termination and confirmed natively (stack overflow kills the driver process)'}
    rep.assumptions = ['kernel level: panic-freedom on the anchored value shapes (every other check of this suite also reports reachable panics as violations) and termination of type resolution;',
                       'determinism: symbolically, two runs on one path condition and no order-observing iteration of a randomly hashed container; natively (sample instances of a spread of skeletons x 5 option sets), byte identity over 9 runs and after runs under perturbed options on the same thread; a fresh process per run is not exercised']
    res = common.run_jobs('mirsym.checks.elements', 'run_family_job', js)
    # native determinism kernel: a spread of skeletons x option sets, each served repeatedly and after perturbed runs
    osets = [{}, {'optimize': True}, {'resolveType': True, 'optimize': True}, {'customElementPatterns': ['^x-'], 'mergeProps': False}, {'transformOn': True, 'enableObjectSlots': False}]
    step = 9 if rep.tier == 'quick' else 3
    njobs = [{'module': MOD, 'spec': j['spec'], 'option_sets': osets} for i, j in enumerate(js) if i % step == 0 and j['spec'].get('kind') != 'symgraph']
    res += common.run_jobs(MOD, 'run_native_job', njobs)
    raw = []
    for r in res:
        raw.extend(r.pop('violations', []))
        rep.absorb(r)
    import importlib
    elements.triage(rep, PROP, importlib.import_module(MOD), raw, classify)
    if scan:
        rep.notes.append('hash-map iteration sites present in the crate MIR: %s' % scan[:5])
    if rep.validation_mismatches:
        rep.inconclusive.append('MIR executor and native build disagree on %d sampled instances' % len(rep.validation_mismatches))
    return common.finish(rep, explanation='whole-module symbolic execution; every MIR assert/unreachable/unwrap is an obligation; recursion depth and step budgets turn non-termination into a finding')


def replay(path):
    import importlib
    w = json.load(open(path + '/witness.json'))
    e3 = driver.E3()
    r = e3.run(w['source'], w['options'], w.get('tsx', False))
    print(json.dumps({k: v for k, v in r.items() if k in ('panic', 'crash', 'exit', 'diags')}))
    if r.get('crash') or 'panic' in r:
        print('VIOLATION property=%s replay=%s' % (PROP, path))
        return 1
    return elements.replay_dir(PROP, importlib.import_module(MOD), path)
