"""Child-list and slot oracles shared by C02 (children of elements/fragments/built-ins) and C03 (component slots)."""
import z3
from ..engine import *
from ..values import *
from .. import denote, jsout
from ..denote import OracleGap
from . import textrule, c01
from .elements import sym_clean_str


def expected_items(env, children):
    """written children -> ordered expected runtime child items"""
    ctx = env.ctx
    items = []
    for ch in children:
        ch = deref(ch)
        if ch.variant == 'JSXText':
            s = ch.fields[0].get('value')
            cleaned = sym_clean_str(ctx, s)
            if len(cleaned.cs) == 0:
                continue
            if _unspecified_ws(ctx, s):
                items.append(('text?', cleaned, s))      # single line of blanks: both "" and the text are accepted
            else:
                items.append(('text', cleaned))
        elif ch.variant == 'JSXExprContainer':
            je = ch.fields[0].get('expr')
            if je.variant == 'JSXEmptyExpr':
                continue
            items.append(('expr', denote.E(je.fields[0])))
        elif ch.variant == 'JSXSpreadChild':
            items.append(('spread', denote.E(ch.fields[0].get('expr'))))
        elif ch.variant == 'JSXElement':
            items.append(('element', deref(ch.fields[0])))
        elif ch.variant == 'JSXFragment':
            items.append(('fragment', ch.fields[0]))
        else:
            raise OracleGap('child kind ' + str(ch.variant))
    return items


def _unspecified_ws(ctx, s):
    cs = s.cs
    if not cs:
        return False
    for c in cs:
        if not ctx.decide(b_or(v_eq(c, 32), v_eq(c, 9))):
            return False
    return True


def array_items(arr):
    """emitted ArrayLit elems -> [(is_spread, Expr)] ; holes are reported as ('hole')"""
    out = []
    for el in arr.fields[0].get('elems'):
        if not is_some(el):
            out.append(('hole', None)); continue
        x = el.fields[0]
        out.append((is_some(x.get('spread')), denote.E(x.get('expr'))))
    return out


def item_matches(env, mv, item, got, depth=0):
    """does one emitted child denote the expected item? -> bool | z3"""
    ctx = env.ctx
    sp, e = got
    if sp == 'hole':
        return False
    k = item[0]
    if k == 'spread':
        return b_and(sp is True, denote.expr_eq(ctx, e, item[1]))
    if sp:
        return False
    if k in ('text', 'text?'):
        cv = denote.call_view(e)
        if cv is None or cv[0] is None or mv.vue_name(cv[0]) != 'createTextVNode' or len(cv[1]) != 1:
            return False
        s = denote.str_lit(cv[1][0][1])
        return seq(s, item[1]) if s is not None else False
    if k == 'expr':
        return denote.expr_eq(ctx, e, item[1])
    if k == 'element':
        try:
            v = denote.vnode_view(e, mv)
        except OracleGap:
            return False
        if v is None:
            return False
        exp_tag = c01.expected_tag(env, item[1].get('opening').get('name'), mv)
        r = c01.tag_matches(env, exp_tag, denote.tag_view(v.tag, mv)) if exp_tag[0] != 'namespaced' else True
        if depth < 2:
            comp = is_component_host(env, item[1].get('opening').get('name'), mv)
            r = b_and(r, children_ok(env, mv, item[1].get('children'), v.children, comp, None, depth + 1))
        return r
    if k == 'fragment':
        try:
            v = denote.vnode_view(e, mv)
        except OracleGap:
            return False
        if v is None:
            return False
        r = denote.tag_view(v.tag, mv) == ('vue', 'Fragment')
        if depth < 2:
            r = b_and(r, children_ok(env, mv, item[1].get('children'), v.children, False, None, depth + 1))
        return r
    return False


def list_matches(env, mv, items, got, depth=0):
    """ordered match; a 'text?' item may also be absent"""
    ctx = env.ctx
    opt = [i for i, it in enumerate(items) if it[0] == 'text?']
    if not opt:
        if len(items) != len(got):
            return False
        return b_and(*[item_matches(env, mv, it, g, depth) for it, g in zip(items, got)])
    # try with and without each optional item (at most a few)
    alts = []
    import itertools
    for mask in itertools.product([True, False], repeat=len(opt)):
        keep = [it for i, it in enumerate(items) if i not in opt or mask[opt.index(i)]]
        if len(keep) == len(got):
            alts.append(b_and(*[item_matches(env, mv, it, g, depth) for it, g in zip(keep, got)]))
    return b_or(*alts) if alts else False


def is_component_host(env, elname, mv):
    """the statement's notion: any tag other than HTML/SVG names, custom-element patterns, Fragment and KeepAlive"""
    ctx = env.ctx
    if elname.variant == 'Ident':
        name = elname.fields[0].get('sym')
        t = c01.expected_tag(env, elname, mv)
        if t[0] == 'str' or t[0] == 'vue':
            return False
        if ctx.decide(seq(name, SStr.of('KeepAlive'))):
            return False
        return True
    if elname.variant == 'JSXMemberExpr':
        prop = elname.fields[0].get('prop').get('sym')
        if ctx.decide(seq(prop, SStr.of('KeepAlive'))) or ctx.decide(seq(prop, SStr.of('Fragment'))):
            return None          # member access ending in Fragment/KeepAlive: not fixed by the statement
        return True
    return None


def children_ok(env, mv, children, got, is_comp, vslots, depth=0):
    """the emitted third argument denotes the written children. -> bool | z3"""
    ctx = env.ctx
    if is_comp is None:
        return True
    try:
        items = expected_items(env, children)
    except OracleGap:
        return True
    if not is_comp:
        definite = [it for it in items if it[0] != 'text?']
        if denote.is_null(got):
            return len(definite) == 0
        if not denote.is_expr(got, 'Array'):
            return False
        return list_matches(env, mv, items, array_items(got), depth)
    return slots_ok(env, mv, items, got, vslots, depth)


# ------------------------------------------------------------------ slots (component hosts)
def slot_entries(obj_expr):
    return denote.lit_entries(obj_expr.fields[0])


def default_wrapper_ok(env, mv, entries, items, vslots, depth):
    """entries of an emitted slots object: `default` is a zero-argument arrow returning the items; v-slots merged beside it;
       `_` only as a hint"""
    ctx = env.ctx
    d = None
    rest = []
    for en in entries:
        if en[0] == 'kv' and isinstance(en[1], SStr) and en[1].is_concrete() and en[1].py() == 'default' and d is None:
            d = en
        elif en[0] == 'kv' and isinstance(en[1], SStr) and en[1].is_concrete() and en[1].py() == '_':
            n = denote.num_lit(en[2])
            if n not in (1.0, 2.0, 1, 2):
                return False
        else:
            rest.append(en)
    if d is None:
        return False
    fn = d[2]
    if isinstance(fn, tuple) or not denote.is_expr(fn, 'Arrow'):
        return False
    ar = fn.fields[0]
    if len(ar.get('params')) != 0 or ar.get('is_async') or ar.get('is_generator'):
        return False
    body = deref(ar.get('body'))
    if body.variant != 'Expr':
        return False
    arr = denote.E(body.fields[0])
    if not denote.is_expr(arr, 'Array'):
        return False
    r = list_matches(env, mv, items, array_items(arr), depth)
    return b_and(r, vslots_merged(ctx, rest, vslots))


def vslots_merged(ctx, rest, vslots):
    """the remaining entries are exactly the v-slots entries (object literal: its members; identifier: a spread of it)"""
    if vslots is None:
        return len(rest) == 0
    if denote.is_expr(vslots, 'Object'):
        want = denote.lit_entries(vslots.fields[0])
        if len(want) != len(rest):
            return False
        rs = []
        for w, g in zip(want, rest):
            if w[0] != g[0]:
                return False
            if w[0] == 'spread':
                rs.append(denote.expr_eq(ctx, w[1], g[1]))
            else:
                rs.append(b_and(denote.token_eq(ctx, w[1], g[1]) if not isinstance(w[1], SStr) else seq(w[1], g[1]) if isinstance(g[1], SStr) else False,
                                denote.token_eq(ctx, w[2], g[2])))
        return b_and(*rs)
    return len(rest) == 1 and rest[0][0] == 'spread' and denote.expr_eq(ctx, rest[0][1], vslots)


def helper_is_slot_test(mv, ident):
    """the helper's body, evaluated over the runtime value kinds, is: function or plain non-vnode object"""
    fd = mv.fn_decl(ident)
    if fd is None:
        return False
    fn = deref(fd.get('function'))
    params = fn.get('params')
    if len(params) != 1 or deref(params[0].get('pat')).variant != 'Ident':
        return False
    p = deref(params[0].get('pat')).fields[0].get('id')
    body = fn.get('body')
    if not is_some(body):
        return False
    stmts = body.fields[0].get('stmts')
    if len(stmts) != 1 or stmts[0].variant != 'Return' or not is_some(stmts[0].fields[0].get('arg')):
        return False
    ret = denote.E(stmts[0].fields[0].get('arg').fields[0])
    want = {'function': True, 'object': True, 'vnode': False, 'array': False, 'string': False, 'null': False, 'undefined': False, 'number': False}
    for kind, w in want.items():
        try:
            if _eval(ret, p, kind, mv) is not w:
                return False
        except OracleGap:
            return False
    return True


_TYPEOF = {'function': 'function', 'object': 'object', 'vnode': 'object', 'array': 'object', 'string': 'string', 'null': 'object', 'undefined': 'undefined', 'number': 'number'}
_TOSTRING = {'function': '[object Function]', 'object': '[object Object]', 'vnode': '[object Object]', 'array': '[object Array]', 'string': '[object String]',
             'null': '[object Null]', 'undefined': '[object Undefined]', 'number': '[object Number]'}


def _eval(e, p, kind, mv):
    e = denote.E(e)
    if denote.is_expr(e, 'Paren'):
        return _eval(e.fields[0].get('expr'), p, kind, mv)
    if denote.is_expr(e, 'Bin'):
        op = e.fields[0].get('op').variant
        l = _eval(e.fields[0].get('left'), p, kind, mv)
        if op == 'LogicalOr':
            return l if l else _eval(e.fields[0].get('right'), p, kind, mv)
        if op == 'LogicalAnd':
            return _eval(e.fields[0].get('right'), p, kind, mv) if l else l
        r = _eval(e.fields[0].get('right'), p, kind, mv)
        if op == 'EqEqEq':
            return l == r
        if op == 'NotEqEq':
            return l != r
        raise OracleGap('operator ' + op)
    if denote.is_expr(e, 'Unary'):
        op = e.fields[0].get('op').variant
        if op == 'TypeOf':
            a = denote.E(e.fields[0].get('arg'))
            if denote.is_expr(a, 'Ident') and _same_ident(a.fields[0], p):
                return _TYPEOF[kind]
            raise OracleGap('typeof of something else')
        if op == 'Bang':
            return not _eval(e.fields[0].get('arg'), p, kind, mv)
        raise OracleGap('unary ' + op)
    s = denote.str_lit(e)
    if s is not None:
        return s.py()
    if denote.is_expr(e, 'Call'):
        cv = denote.call_view(e)
        if cv[0] is not None and mv.vue_name(cv[0]) == 'isVNode' and len(cv[1]) == 1 and _is_param(cv[1][0][1], p):
            return kind == 'vnode'
        # ({}).toString.call(s)  /  Object.prototype.toString.call(s)
        callee = e.fields[0].get('callee')
        if callee.variant == 'Expr':
            ce = denote.E(callee.fields[0])
            if denote.is_expr(ce, 'Member') and _prop_name(ce) == 'call':
                obj = denote.E(ce.fields[0].get('obj'))
                if denote.is_expr(obj, 'Member') and _prop_name(obj) == 'toString':
                    base = denote.E(obj.fields[0].get('obj'))
                    if denote.is_expr(base, 'Paren'):
                        base = denote.E(base.fields[0].get('expr'))
                    ok = denote.is_expr(base, 'Object') and len(base.fields[0].get('props')) == 0
                    if not ok and denote.is_expr(base, 'Member') and _prop_name(base) == 'prototype':
                        ok = True
                    args = e.fields[0].get('args')
                    if ok and len(args) == 1 and _is_param(denote.E(args[0].get('expr')), p):
                        return _TOSTRING[kind]
        raise OracleGap('call in helper')
    raise OracleGap('helper expression ' + str(e.variant))


def _prop_name(member):
    pr = member.fields[0].get('prop')
    if pr.variant == 'Ident':
        return denote.pystr(pr.fields[0].get('sym'))
    return None


def _same_ident(a, b):
    return denote.pystr(a.get('sym')) == denote.pystr(b.get('sym')) and a.get('ctxt') == b.get('ctxt')


def _is_param(e, p):
    e = denote.E(e)
    return denote.is_expr(e, 'Ident') and _same_ident(e.fields[0], p)


def count_occurrences(ctx, hay, needle):
    """how many sub-expressions of `hay` are structurally equal to `needle` (concrete structure)"""
    n = 0
    needle_c = None

    def rec(v):
        nonlocal n
        v = deref(v)
        if isinstance(v, Adt):
            if v.ty == 'Expr' and v.variant == needle.variant:
                r = denote.expr_eq(ctx, v, needle)
                if r is True:
                    n += 1
                    return
            for f in v.fields:
                rec(f)
        elif isinstance(v, list):
            for f in v:
                rec(f)
    rec(hay)
    return n


def slots_ok(env, mv, items, got, vslots, depth):
    ctx = env.ctx
    eos = env.opts.get('enable_object_slots', True)
    definite = [it for it in items if it[0] != 'text?']
    if len(items) == 0:
        if vslots is not None:
            return denote.expr_eq(ctx, got, vslots)
        return denote.is_null(got)
    single = items[0] if len(items) == 1 and items[0][0] == 'expr' else None
    if single is not None:
        e = single[1]
        if denote.is_expr(e, 'Fn') or denote.is_expr(e, 'Arrow'):
            # a single function child is the default slot itself, v-slots merged beside it
            if not denote.is_expr(got, 'Object'):
                return False
            ents = slot_entries(got)
            d = [en for en in ents if en[0] == 'kv' and isinstance(en[1], SStr) and en[1].is_concrete() and en[1].py() == 'default']
            rest = [en for en in ents if not any(en is x for x in d) and not (en[0] == 'kv' and isinstance(en[1], SStr) and en[1].is_concrete() and en[1].py() == '_')]
            if len(d) != 1:
                return False
            return b_and(denote.token_eq(ctx, d[0][2], e), vslots_merged(ctx, rest, vslots))
        if denote.is_expr(e, 'Object'):
            # a single object literal child is the slots object (plus the `_` hint), v-slots merged beside it
            if not denote.is_expr(got, 'Object'):
                return False
            ents = [en for en in slot_entries(got) if not (en[0] == 'kv' and isinstance(en[1], SStr) and en[1].is_concrete() and en[1].py() == '_')]
            want = denote.lit_entries(e.fields[0])
            if len(ents) < len(want):
                return False
            rs = [denote.token_eq(ctx, w, g) for w, g in zip(want, ents[:len(want)])]
            return b_and(b_and(*rs), vslots_merged(ctx, ents[len(want):], vslots))
        if denote.is_expr(e, 'Ident') or denote.is_expr(e, 'Call'):
            if ctx.decide(eos):
                # decided at run time: helper(x) ? x : { default: () => [x] }
                if not denote.is_expr(got, 'Cond'):
                    return False
                c = got.fields[0]
                test = denote.call_view(c.get('test'))
                if test is None or test[0] is None or len(test[1]) != 1 or not helper_is_slot_test(mv, test[0]):
                    return False
                arg = test[1][0][1]
                cons = denote.E(c.get('cons')); alt = denote.E(c.get('alt'))
                if denote.is_expr(e, 'Ident'):
                    same = b_and(denote.expr_eq(ctx, arg, e), denote.expr_eq(ctx, cons, e))
                    tok = e
                else:
                    # the call is evaluated exactly once: helper(t = call) ? t : {default: () => [t]}
                    if not denote.is_expr(arg, 'Assign') or not denote.is_expr(cons, 'Ident'):
                        return False
                    tgt = arg.fields[0].get('left')
                    t = _assign_target_ident(tgt)
                    if t is None or not _same_ident(t, cons.fields[0]):
                        return False
                    same = denote.expr_eq(ctx, arg.fields[0].get('right'), e)
                    tok = cons
                    if count_occurrences(ctx, got, e) != 1:
                        return False
                    if not _declared(env.post, t):
                        return False
                if not denote.is_expr(alt, 'Object'):
                    return False
                return b_and(same, default_wrapper_ok(env, mv, slot_entries(alt), [('expr', tok)], vslots, depth))
            # enableObjectSlots off: always wrapped
    if not denote.is_expr(got, 'Object'):
        return False
    return default_wrapper_ok(env, mv, slot_entries(got), items, vslots, depth)


def _assign_target_ident(tgt):
    tgt = deref(tgt)
    if tgt.variant != 'Simple':
        return None
    s = deref(tgt.fields[0])
    if s.variant == 'Ident':
        return s.fields[0].get('id')
    if s.variant == 'Paren':
        inner = denote.E(s.fields[0].get('expr'))
        if denote.is_expr(inner, 'Ident'):
            return inner.fields[0]
    return None


def _declared(program, ident):
    """is there a `let <ident>` (same sym and ctxt) anywhere in the emitted module?"""
    from .. import astio
    hit = []

    def f(v, p):
        if isinstance(v, Adt) and v.ty == 'VarDeclarator':
            nm = deref(v.get('name'))
            if nm.variant == 'Ident' and _same_ident(nm.fields[0].get('id'), ident):
                hit.append(1)
    astio.walk(program, f)
    return bool(hit)


def vslots_value(env, attrs):
    """the v-slots value the statement honours: identifier or object literal"""
    for a in attrs:
        if a.variant != 'JSXAttr':
            continue
        nm = denote.attr_name(a.fields[0])
        if nm.is_concrete() and nm.py() in ('v-slots', 'vSlots'):
            v = a.fields[0].get('value')
            if is_some(v) and deref(v.fields[0]).variant == 'JSXExprContainer':
                je = deref(v.fields[0]).fields[0].get('expr')
                if je.variant == 'Expr':
                    e = denote.E(je.fields[0])
                    if denote.is_expr(e, 'Ident') or denote.is_expr(e, 'Object'):
                        return e
            return 'other'
    return None
