"""C18 - parameter defaults become runtime prop defaults without changing them."""
import sys, itertools, json, re
from ..engine import *
from ..values import *
from .. import harness, denote, astio, driver, jsout, world
from ..denote import OracleGap
from ..harness import Leaf, Skeleton
from . import common, elements, c17, rt

PROP = 'C18'
MOD = 'mirsym.checks.c18'
PROPS = "s?: string; n?: number; fn?: () => void; ff?: Function; 'q-k'?: string; u?: string | number; cb?(): number; o?: object; p?: Promise<string>; fu?: (() => void) | string; 'qq'?: string; 'qf'?(): number; 'qn'?: number; fa?: ((id: number) => void) | any; fk?: unknown | (() => void); fb?: (() => void) | boolean; fi?: (() => void) & {{ tag?: string }}"
PRE = "const v1 = 1, f1 = () => 2, s = 'sh', fn = () => {{}}, ff = () => 3, fa = () => 4, kk = 's', qq = 'shq';\nconst dyn: any = {{}};\n"
ENTRIES = {
    'lit': "s: 'hi'", 'num': 'n: 1', 'neg': 'n: -1', 'tpl': 's: `t`', 'expr': 'n: v1', 'call': 's: f1()', 'arr': 'o: [1, 2]', 'obj': 'o: {{ a: 1 }}', 'null': 'o: null',
    'fnarrow': 'fn: () => {{}}', 'fnident': 'fn: f1', 'ffarrow': 'ff: () => 1', 'fnfn': 'fn: function () {{}}', 'fuarrow': 'fu: () => {{}}', 'short': 's', 'shortfn': 'fn', 'tqshort': 'qq',
    'getter': "get s() {{ return 'g' }}", 'method': 'cb() {{ return 1 }}', 'amethod': "async p() {{ return 'x' }}", 'quoted': "'q-k': 'x'", 'quoted2': "'s': 'x'",
    'tq': "qq: 'y'", 'tqexpr': 'qq: f1()', 'tqget': "get qq() {{ return 'g' }}", 'tqmethod': 'qf() {{ return 3 }}', 'tqcomp': "['qq']: 'c'", 'tqnum': 'qn: 2',
    'faarrow': 'fa: () => {{}}', 'faident': 'fa: f1', 'fkident': 'fk: f1', 'fkget': 'get fk() {{ return f1 }}', 'fbident': 'fb: f1', 'fiident': 'fi: f1', 'fashort': 'fa',
    'fngetter': 'get fn() {{ return f1 }}', 'fngethoist': 'get fn() {{ return hoisted; function hoisted() {{ return 1 }} }}', 'fngetstmts': 'get fn() {{ const g = f1; return g }}',
    'sgethoist': "get s() {{ return hoisted(); function hoisted() {{ return 'h' }} }}", 'ffshort': 'ff', 'fncall': 'fn: f1()', 'fucall': 'fu: f1()',
    'gmethod': '*cb() {{ yield 1 }}', 'agmethod': 'async *cb() {{ yield 2 }}', 'gmethodq': "*'qf'() {{ yield 3 }}", 'amethodcb': 'async cb() {{ return 4 }}',
    'complit': "['s']: 'x'", 'compnum': "[1]: 'x'", 'extra': 'zzz: 1', 'methodq': "'cb'() {{ return 2 }}",
}
DYNAMIC = {'ident': 'dyn', 'spread': '{{ ...dyn }}', 'spread2': "{{ s: 'hi', ...dyn }}", 'computed': '{{ [v1]: 1 }}', 'compident': "{{ [kk]: 'x' }}", 'compcall': "{{ [f1()]: 1 }}", 'call': 'f1()',
           'setter': '{{ set s(v: string) {{}} }}'}


def make_skeleton(spec):
    if 'dynamic' in spec:
        d = DYNAMIC[spec['dynamic']]
    else:
        d = '{{ ' + ', '.join(ENTRIES[e] for e in spec['entries']) + ' }}'
    fnkind = spec.get('setup', 'arrow')
    if fnkind == 'arrow':
        fn = '(props: {{ %s }} = %s) => () => null' % (PROPS, d)
    else:
        fn = 'function (props: {{ %s }} = %s) {{ return () => null }}' % (PROPS, d)
    src = "import {{ defineComponent }} from 'vue';\n" + PRE + 'export default defineComponent(%s);\n' % fn
    sid = 'c18#%s|%s' % (spec.get('dynamic') or ','.join(spec['entries']), fnkind)
    return Skeleton(sid, src, [], {'resolve_type': True}, tsx=True, meta={'family': 'c18/' + ('dynamic' if 'dynamic' in spec else 'static')})


def default_param(call):
    fn = denote.E(call.get('args')[0].get('expr'))
    if denote.is_expr(fn, 'Arrow'):
        p = deref(fn.fields[0].get('params')[0])
    else:
        p = deref(deref(fn.fields[0].get('function')).get('params')[0].get('pat'))
    if p.variant != 'Assign':
        return None
    return denote.E(p.fields[0].get('right'))


def static_key(pn):
    """key of a default member if statically known: -> str | None"""
    pn = deref(pn)
    if pn.variant == 'Ident':
        return denote.pystr(pn.fields[0].get('sym'))
    if pn.variant == 'Str':
        return denote.pystr(pn.fields[0].get('value'))
    if pn.variant == 'Num':
        v = pn.fields[0].get('value')
        return str(int(v)) if v == int(v) else str(v)
    if pn.variant == 'Computed':
        e = denote.E(pn.fields[0].get('expr'))
        s = denote.str_lit(e)
        if s is not None:
            return s.py()
        n = denote.num_lit(e)
        if n is not None:
            return str(int(n)) if n == int(n) else str(n)
    return None


def written_defaults(obj):
    """{key: ('value', Expr) | ('getter', BlockStmt) | ('method', Function)} or None when not statically analysable"""
    out = {}
    for p in obj.fields[0].get('props'):
        if p.variant == 'Spread':
            return None
        pr = deref(p.fields[0])
        if pr.variant == 'Shorthand':
            out[denote.pystr(pr.fields[0].get('sym'))] = ('value', Adt('Expr', 'Ident', [pr.fields[0]]))
            continue
        if pr.variant in ('KeyValue', 'Getter', 'Method', 'Setter'):
            k = static_key(pr.fields[0].get('key'))
            if k is None:
                return None
            if pr.variant == 'KeyValue':
                out[k] = ('value', denote.E(pr.fields[0].get('value')))
            elif pr.variant == 'Getter':
                out[k] = ('getter', pr.fields[0].get('body'))
            elif pr.variant == 'Method':
                out[k] = ('method', deref(pr.fields[0].get('function')))
            else:
                return None
        else:
            return None
    return out


def resolved_by_vue(ctx, type_list, default_expr):
    """Vue's resolvePropValue: a function default is called as a factory unless the prop's type is exactly Function.
       -> ('value', Expr) | ('block', BlockStmt) | ('fn', Function-or-Arrow Expr)"""
    d = denote.E(default_expr)
    is_fn_type = type_list is not None and len(type_list) == 1 and type_list[0] is not None and type_list[0].is_concrete() and type_list[0].py() == 'Function'
    if denote.is_expr(d, 'Arrow') and not is_fn_type:
        ar = d.fields[0]
        if len(ar.get('params')) == 0 and not ar.get('is_async') and not ar.get('is_generator'):
            body = deref(ar.get('body'))
            if body.variant == 'Expr':
                return ('value', denote.E(body.fields[0]))
            return ('block', body.fields[0])
        return ('called', d)
    if denote.is_expr(d, 'Fn') and not is_fn_type:
        return ('called-fn', deref(d.fields[0].get('function')))
    if is_fn_type:
        # `(() => { ... })()`: evaluated where it stands; what it returns is the block's result
        inner = d
        if denote.is_expr(inner, 'Call'):
            c = inner.fields[0]
            cal = c.get('callee')
            if len(c.get('args')) == 0 and cal.variant == 'Expr':
                f = denote.E(cal.fields[0])
                while denote.is_expr(f, 'Paren'):
                    f = denote.E(f.fields[0].get('expr'))
                if denote.is_expr(f, 'Arrow') and len(f.fields[0].get('params')) == 0 and not f.fields[0].get('is_async') and not f.fields[0].get('is_generator'):
                    body = deref(f.fields[0].get('body'))
                    if body.variant == 'BlockStmt':
                        return ('block', body.fields[0])
    return ('value', d)


def oracle(env):
    ctx = env.ctx
    cin = c17.find_define_component_call(env.pre); cout = c17.find_define_component_call(env.post)
    if len(cin) != 1 or len(cout) != 1:
        raise Unsupported('harness: call not found')
    dflt = default_param(cin[0])
    if dflt is None:
        raise Unsupported('harness: no default')
    mv = denote.ModuleView(env.post)
    args = cout[0].get('args')
    obs = []
    W = written_defaults(dflt) if denote.is_expr(dflt, 'Object') else None
    ents = c17.options_entries(cout[0])
    pe = [en for en in (ents or []) if en[0] == 'kv' and isinstance(en[1], SStr) and en[1].is_concrete() and en[1].py() == 'props']
    if not pe:
        return [Obligation('the call receives a props option', False)]
    pv = pe[-1][2]
    if W is None:
        # not statically analysable: the declared props are combined with the written expression through mergeDefaults
        cv = denote.call_view(pv)
        okk = cv is not None and cv[0] is not None and mv.vue_name(cv[0]) == 'mergeDefaults' and len(cv[1]) == 2 and not cv[1][0][0] and not cv[1][1][0]
        obs.append(Obligation('a default that is not statically analysable goes through mergeDefaults(props, <the written expression>)',
                              b_and(okk, denote.expr_eq(ctx, cv[1][1][1], dflt) if okk else False), {'static': False}))
        return obs
    if not denote.is_expr(pv, 'Object'):
        return [Obligation('statically analysable defaults are attached to the props object', False, {'got': pv.variant})]
    for en in denote.lit_entries(denote.E(pv).fields[0]):
        if en[0] != 'kv' or not isinstance(en[1], SStr) or not en[1].is_concrete():
            continue
        k = en[1].py()
        inner = denote.lit_entries(denote.E(en[2]).fields[0])
        de = [x for x in inner if x[0] == 'kv' and isinstance(x[1], SStr) and x[1].is_concrete() and x[1].py() == 'default']
        tl, _ = c17.emitted_types(ctx, en[2], raw=True)
        if k not in W:
            obs.append(Obligation('a prop without a written default gets none', len(de) == 0, {'prop': k}))
            continue
        if not de:
            obs.append(Obligation('a written default is attached to its prop (quoted and unquoted spellings match)', False, {'prop': k}))
            continue
        kind, wv = W[k]
        r = resolved_by_vue(ctx, tl, de[-1][2])
        types = [t.py() if t is not None else None for t in tl] if tl is not None else None
        info = {'prop': k, 'written': kind, 'resolved': r[0], 'type': types}
        if kind == 'value':
            obs.append(Obligation('the default Vue resolves is exactly the written value', b_and(r[0] == 'value', denote.expr_eq(ctx, r[1], wv) if r[0] == 'value' else False), info))
        elif kind == 'getter':
            okk = r[0] == 'block' and is_some(wv) and denote.expr_eq(ctx, r[1], wv.fields[0]) is True
            if r[0] == 'value' and is_some(wv):
                # a getter that only returns an expression may be given as that expression
                st = wv.fields[0].get('stmts')
                okk = len(st) == 1 and st[0].variant == 'Return' and is_some(st[0].fields[0].get('arg')) and \
                    denote.expr_eq(ctx, r[1], st[0].fields[0].get('arg').fields[0]) is True
            obs.append(Obligation('a getter default resolves to what the getter returns', okk, info))
        elif kind == 'method':
            if types == ['Function']:
                d = denote.E(de[-1][2])
                okk = denote.is_expr(d, 'Fn') and denote.expr_eq(ctx, deref(d.fields[0].get('function')), wv) is True
                obs.append(Obligation('a method default is the function itself', okk, info))
    return obs


def jobs(tier):
    out = []
    for e in ENTRIES:
        out.append({'entries': [e]})
    for a, b in itertools.combinations(list(ENTRIES), 2):
        ka = ENTRIES[a].split(':')[0].split('(')[0].replace('get ', '').replace('async ', '').strip("'[] ")
        kb = ENTRIES[b].split(':')[0].split('(')[0].replace('get ', '').replace('async ', '').strip("'[] ")
        if ka == kb:
            continue
        if tier == 'quick' and (common.stable_hash((a, b)) % 5):
            continue
        out.append({'entries': [a, b]})
    out.append({'entries': ['lit', 'num', 'fnarrow', 'quoted', 'method', 'amethod', 'extra']})
    # the same key written twice: JavaScript keeps the last one
    for a, b in (('lit', 'quoted2'), ('quoted2', 'lit'), ('num', 'neg'), ('neg', 'expr'), ('tq', 'tqexpr'), ('lit', 'getter'), ('getter', 'lit'), ('method', 'gmethod'), ('gmethod', 'method'),
                 ('complit', 'lit'), ('short', 'lit'), ('lit', 'short')):
        out.append({'entries': [a, b]})
    out.append({'entries': ['lit'], 'setup': 'fn'})
    out.append({'entries': ['fnident', 'getter'], 'setup': 'fn'})
    for d in DYNAMIC:
        out.append({'dynamic': d})
        out.append({'dynamic': d, 'setup': 'fn'})
    return [{'module': MOD, 'spec': s, 'verbose': True} for s in out]


def classify(v, detail):
    if v['kind'] == 'panic':
        return 'panic'
    info = (detail or {}).get('info') or v.get('info') or {}
    ob = v['obligation']
    if ob.startswith('the default Vue resolves') and info.get('type') == ['Function'] and info.get('resolved') == 'value':
        return 'function-typed-prop:non-literal-default-is-wrapped-in-a-factory'
    if ob.startswith('a default that is not statically'):
        m = re.search(r'= (\{.*?\}|\w+(\(\))?)\) (=>|\{)', v['source'], re.S)
        d = m.group(1) if m else ''
        if re.search(r'\[\s*\w+\s*\]\s*:', d):
            return 'computed-identifier-key-treated-as-static-key'
        return 'dynamic-default-not-merged [' + d[:30] + ']'
    return ob[:70] + ' [written=%s type=%s]' % (info.get('written'), info.get('type'))


def main(argv):
    rep = common.Report(PROP)
    js = jobs(rep.tier)
    rep.bounds = {'declared_props': PROPS, 'static_default_members': sorted(ENTRIES), 'dynamic_default_forms': sorted(DYNAMIC), 'members_per_default_object': '1, 2 (quick: a fifth of the pairs) and one 7-member object',
                  'setup': ['arrow', 'function expression']}
    rep.assumptions = ["Vue's resolvePropValue: a function-valued default is called as a factory unless the prop's type is exactly Function",
                       'a method default on a prop whose type is not Function is not fixed by the statement (Vue calls it)']
    res = common.run_jobs('mirsym.checks.elements', 'run_family_job', js)
    raw = []
    for r in res:
        raw.extend(r.pop('violations', []))
        rep.absorb(r)
    import importlib
    elements.triage(rep, PROP, importlib.import_module(MOD), raw, classify)
    if rep.validation_mismatches:
        rep.inconclusive.append('MIR executor and native build disagree on %d sampled instances' % len(rep.validation_mismatches))
    return common.finish(rep, explanation="whole-module symbolic execution of extract_props_type with parameter defaults; the emitted default is run through Vue's resolution rule and compared with the written value")


def replay(path):
    import importlib
    return elements.replay_dir(PROP, importlib.import_module(MOD), path)
