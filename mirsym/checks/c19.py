"""C19 - resolveType derives exactly the declared emitted events."""
import sys, itertools, json, re
from ..engine import *
from ..values import *
from .. import harness, denote, astio, driver, jsout, world
from ..denote import OracleGap
from ..harness import Leaf, Skeleton
from . import common, elements, c17, rt

PROP = 'C19'
MOD = 'mirsym.checks.c19'
SETS = [['x'], ['x', 'y:z'], ['update:model-value', 'x', 'close'], ['a-b', 'c:d']]


PARAMS = {'ident': 'ctx', 'no-emit': '{{ slots, attrs }}', 'emit': '{{ emit }}', 'empty': '{{}}', 'rename': '{{ emit: fire }}', 'rest': '{{ slots, ...rest }}', 'expose': '{{ expose }}',
          'emit-default': '{{ emit, slots = null }}', 'nested': '{{ attrs: {{ id }} }}'}


def sig(n, extra=''):
    return "(e: '%s'%s): void" % (n, extra)


def encodings(ev):
    lit = ' | '.join("'%s'" % n for n in ev)
    out = []
    out.append(('fn-union-param', '', '(e: %s) => void' % lit, ''))
    out.append(('union-of-fn', '', ' | '.join("((e: '%s', v: number) => void)" % n for n in ev), ''))
    out.append(('callsig-literal', '', '{{ ' + '; '.join(sig(n) for n in ev) + ' }}', ''))
    out.append(('interface', 'interface Em {{ ' + '; '.join(sig(n, ', v?: number') for n in ev) + ' }}\n', 'Em', ''))
    out.append(('exported-interface', 'export interface Em {{ ' + '; '.join(sig(n) for n in ev) + ' }}\n', 'Em', ''))
    out.append(('alias-callsig', 'type Em = {{ ' + '; '.join(sig(n) for n in ev) + ' }};\n', 'Em', ''))
    out.append(('alias-fn', 'type Em = (e: %s) => void;\n' % lit, 'Em', ''))
    out.append(('exported-alias-fn', 'export type Em = (e: %s) => void;\n' % lit, 'Em', ''))
    out.append(('property', '', '{{ ' + '; '.join("'%s': [v: number]" % n for n in ev) + ' }}', ''))
    out.append(('property-computed-keys', '', '{{ ' + '; '.join("['%s']: [v: number]" % n for n in ev) + ' }}', ''))
    out.append(('property-mixed-keys', 'interface Em {{ ' + '; '.join(("['%s']: []" if i % 2 == 0 else "'%s': []") % n for i, n in enumerate(ev)) + ' }}\n', 'Em', ''))
    out.append(('property-interface', 'interface Em {{ ' + '; '.join("'%s': []" % n for n in ev) + ' }}\n', 'Em', ''))
    out.append(('literal-union-alias', 'type Ev = %s;\n' % lit, '(e: Ev) => void', ''))
    out.append(('literal-union-alias-chain', 'type Ev0 = %s;\ntype Ev = Ev0;\n' % lit, '{{ (e: Ev): void }}', ''))
    if len(ev) >= 2:
        out.append(('extends', 'interface B0 {{ %s }}\ninterface Em extends B0 {{ %s }}\n' % (sig(ev[0]), '; '.join(sig(n) for n in ev[1:])), 'Em', ''))
        out.append(('intersection', '', '{{ %s }} & {{ %s }}' % (sig(ev[0]), '; '.join(sig(n) for n in ev[1:])), ''))
        out.append(('union-of-aliases', 'type E0 = (e: \'%s\') => void;\ntype E1 = {{ %s }};\n' % (ev[0], '; '.join(sig(n) for n in ev[1:])), 'E0 | E1', ''))
        out.append(('mixed-literal-and-alias', "type Ev = %s;\n" % ' | '.join("'%s'" % n for n in ev[1:]), "(e: '%s' | Ev) => void" % ev[0], ''))
    if len(ev) >= 2:
        rest = '; '.join(sig(n) for n in ev[1:])
        out.append(('extends-alias', 'type B0 = {{ %s }};\ninterface Em extends B0 {{ %s }}\n' % (sig(ev[0]), rest), 'Em', ''))
        out.append(('extends-alias-property', "type B0 = {{ '%s': [v: number] }};\ninterface Em extends B0 {{ %s }}\n" % (ev[0], '; '.join("'%s': []" % n for n in ev[1:])), 'Em', ''))
        out.append(('extends-two', 'interface B0 {{ %s }}\ninterface B1 {{ %s }}\ninterface Em extends B0, B1 {{}}\n' % (sig(ev[0]), rest), 'Em', ''))
        out.append(('extends-chain-alias', 'type B0 = {{ %s }};\ninterface B1 extends B0 {{}}\ninterface Em extends B1 {{ %s }}\n' % (sig(ev[0]), rest), 'Em', ''))
        out.append(('intersection-of-aliases', 'type E0 = {{ %s }};\ninterface E1 {{ %s }}\n' % (sig(ev[0]), rest), 'E0 & E1', ''))
        out.append(('union-of-interfaces', 'interface E0 {{ %s }}\ninterface E1 {{ %s }}\n' % (sig(ev[0]), rest), 'E0 | E1', ''))
        out.append(('merged-interfaces', 'interface Em {{ %s }}\ninterface Em {{ %s }}\n' % (sig(ev[0]), rest), 'Em', ''))
        # declaration merging also merges the heritage clauses, whichever declaration carries them
        out.append(('merged-extends-later', 'interface B0 {{ %s }}\ninterface Em {{ %s }}\ninterface Em extends B0 {{}}\n' % (sig(ev[0]), rest), 'Em', ''))
        out.append(('merged-extends-first', 'interface B0 {{ %s }}\ninterface Em extends B0 {{}}\ninterface Em {{ %s }}\n' % (sig(ev[0]), rest), 'Em', ''))
        out.append(('merged-extends-both', 'interface B0 {{ %s }}\ninterface B1 {{ %s }}\ninterface Em extends B0 {{}}\ninterface Em extends B1 {{}}\n' % (sig(ev[0]), rest), 'Em', ''))
        out.append(('alias-of-interface', 'interface E0 {{ %s; %s }}\ntype Em = E0;\n' % (sig(ev[0]), rest), 'Em', ''))
        out.append(('paren-union', '', '(((e: \'%s\') => void) | (%s))' % (ev[0], ' | '.join("((e: '%s') => void)" % n for n in ev[1:])), ''))
    out.append(('after-interface', '', 'Em', 'interface Em {{ ' + '; '.join(sig(n) for n in ev) + ' }}\n'))
    return out


def make_skeleton(spec):
    ev = spec['events']
    if spec['enc'] in ('none', 'any', 'bare', 'other-name'):
        ann = {'none': 'ctx', 'any': 'ctx: any', 'bare': 'ctx: SetupContext', 'other-name': "ctx: Context<(e: 'x') => void>"}[spec['enc']]
        before = after = ''
        expected = None
    else:
        name, before, texpr, after = [e for e in encodings(ev) if e[0] == spec['enc']][0]
        ann = 'ctx: SetupContext<%s>' % texpr if not spec.get('targ2') else 'ctx: SetupContext<%s, %s>' % (texpr, {'slots': 'SlotsType<{{ default: () => any }}>', 'empty': '{{}}', 'any': 'any'}[spec['targ2']])
        # the second parameter may be any pattern: what is declared is in its annotation
        ann = PARAMS[spec.get('param', 'ident')] + ann[3:]
        expected = ev
    ptype = '{{ a: string }}'
    if spec.get('ctx') == 'pick-props':
        # the props type expands the same literal-union alias before the emits are collected
        ptype = 'Pick<{{ %s }}, Ev>' % '; '.join("'%s': string" % n for n in ev)
    fn = '(props: %s, %s) => () => null' % (ptype, ann) if spec.get('setup', 'arrow') == 'arrow' else 'function (props: %s, %s) {{ return () => null }}' % (ptype, ann)
    call = ('export default ' if spec.get('scope', 'top') == 'top' else '') + 'defineComponent(%s);' % fn
    if spec.get('ctx') == 'second-call':
        # an earlier component of the same module declares its events through the same type
        call = 'const First = defineComponent((p: {{ b: number }}, %s) => () => null);\n' % ann + call
    elif spec.get('ctx') == 'third-call':
        call = ('const First = defineComponent((p: {{ b: number }}, %s) => () => null);\n' % ann) * 2 + call
    shadow = 'interface Em {{ (e: "shadowed"): void }}\ntype Ev = "shadowed2";\n' if spec.get('scope', 'top') != 'top' else ''
    src = rt.module_src('EXPECT-EMITS', expected, before, call, after, spec.get('scope', 'top'), shadow).replace("from 'vue'", "from 'vue'") \
        .replace("import {{ defineComponent }} from 'vue';", "import {{ defineComponent, type SetupContext, type SlotsType }} from 'vue';")
    return Skeleton('c19#%s|%s|%s|%s%s' % (','.join(ev), spec['enc'], spec.get('scope', 'top'), spec.get('setup', 'arrow'), ('|' + spec['ctx'] if spec.get('ctx') else '') + ('|targ2:' + spec['targ2'] if spec.get('targ2') else '') + ('|param:' + spec['param'] if spec.get('param') else '')), src, [], {'resolve_type': True}, tsx=True,
                    meta={'family': 'c19/' + spec['enc']})


def oracle(env):
    ctx = env.ctx
    expected = rt.read_expect(env, 'EXPECT-EMITS')
    calls = c17.find_define_component_call(env.post)
    if len(calls) < 1:
        raise Unsupported('harness: call not found')
    obs = []
    for i, call in enumerate(calls):
        obs.extend(_call_obligations(env, call, expected, i, len(calls)))
    return obs


def _call_obligations(env, call, expected, idx, n):
    eo = rt.emits_option(call)
    obs = []
    which = {'call': '%d of %d' % (idx + 1, n)}
    if expected is None:
        obs.append(Obligation('no SetupContext<E> annotation, no emits option', eo is None, {'got': repr(eo)[:120]}))
        return obs
    if eo is None or not denote.is_expr(eo, 'Array'):
        return [Obligation('the call receives an emits option', False, dict(which, diags=list(env.diags)))]
    got = []
    for el in denote.E(eo).fields[0].get('elems'):
        s = denote.str_lit(el.fields[0].get('expr')) if is_some(el) else None
        if s is None or not s.is_concrete():
            return [Obligation('emits entries are string literals', False, which)]
        got.append(s.py())
    obs.append(Obligation('emits lists exactly the declared event names', sorted(set(got)) == sorted(set(expected)), dict(which, expected=sorted(expected), got=got)))
    return obs


def jobs(tier):
    out = []
    sets = SETS if tier != 'quick' else SETS[:3]
    for ev in sets:
        for e in encodings(ev):
            out.append({'events': ev, 'enc': e[0]})
            if e[0] in ('interface', 'alias-fn', 'literal-union-alias', 'extends'):
                out.append({'events': ev, 'enc': e[0], 'scope': 'local'})
                out.append({'events': ev, 'enc': e[0], 'setup': 'fn'})
            if (ev == sets[1] or tier != 'quick') and not e[0].startswith('exported') and 'export ' not in e[1] + e[3]:
                for sc in ('local-stmt', 'local-mid', 'local-directive', 'block'):
                    out.append({'events': ev, 'enc': e[0], 'scope': sc})
    for ev in sets[1:]:
        for e in encodings(ev):
            if e[0].startswith('after-'):
                continue
            out.append({'events': ev, 'enc': e[0], 'ctx': 'second-call'})
            if e[0] in ('literal-union-alias', 'literal-union-alias-chain'):
                out.append({'events': ev, 'enc': e[0], 'ctx': 'pick-props'})
                out.append({'events': ev, 'enc': e[0], 'ctx': 'third-call'})
    # Vue's SetupContext takes a second type argument (the slots type)
    for ev in sets[1:2] if tier == 'quick' else sets:
        for e in encodings(ev):
            if e[0].startswith('after-'):
                continue
            for t2 in (('slots',) if tier == 'quick' and e[0] not in ('interface', 'fn-union-param', 'property') else ('slots', 'empty', 'any')):
                out.append({'events': ev, 'enc': e[0], 'targ2': t2})
    for ev in sets[1:2] if tier == 'quick' else sets:
        for e in encodings(ev):
            if e[0].startswith('after-') or (tier == 'quick' and e[0] not in ('interface', 'alias-fn', 'literal-union-alias', 'extends', 'property', 'fn-union-param', 'inline-fn')):
                continue
            for pm in PARAMS:
                if pm == 'ident':
                    continue
                out.append({'events': ev, 'enc': e[0], 'param': pm})
                if pm in ('no-emit', 'empty'):
                    out.append({'events': ev, 'enc': e[0], 'param': pm, 'setup': 'fn'})
    for k in ('none', 'any', 'bare', 'other-name'):
        out.append({'events': [], 'enc': k})
        out.append({'events': [], 'enc': k, 'setup': 'fn'})
    return [{'module': MOD, 'spec': s, 'verbose': True} for s in out]


def classify(v, detail):
    if v['kind'] == 'panic':
        return 'panic'
    m = re.search(r'c19#([^|]*)\|([^|]*)\|(\w+)\|(\w+)', v['skeleton'])
    enc = m.group(2) if m else '?'
    if enc.startswith('after-'):
        return 'declaration-after-the-call-is-not-resolved'
    return '%s [encoding=%s]' % (v['obligation'][:60], enc)


def main(argv):
    rep = common.Report(PROP)
    js = jobs(rep.tier)
    rep.bounds = {'event_sets': SETS, 'encodings': [e[0] for e in encodings(SETS[1])] + ['none', 'any', 'bare SetupContext', 'other generic name'], 'scopes': ['top', 'local shadowing', 'local with a call / a directive / a let and an if statement among the declarations', 'block statement of the module'], 'setup': ['arrow', 'function expression'], 'second_parameter_patterns': sorted(PARAMS), 'module_contexts': ['single call', 'a second / third component of the module using the same type', 'props type expanding the same literal-union alias']}
    rep.assumptions = ['the expectation travels in the module as a generator-written comment']
    res = common.run_jobs('mirsym.checks.elements', 'run_family_job', js)
    raw = []
    for r in res:
        raw.extend(r.pop('violations', []))
        rep.absorb(r)
    import importlib
    elements.triage(rep, PROP, importlib.import_module(MOD), raw, classify)
    if rep.validation_mismatches:
        rep.inconclusive.append('MIR executor and native build disagree on %d sampled instances' % len(rep.validation_mismatches))
    return common.finish(rep, explanation='whole-module symbolic execution of extract_emits_type over event-set encodings')


def replay(path):
    import importlib
    return elements.replay_dir(PROP, importlib.import_module(MOD), path)
