"""C06 - every name the transform introduces is bound, in scope, and initialised.
Whole-module symbolic execution over syntactic contexts; the emitted module is put through a scope analysis:
every generated identifier reference must resolve to a generated declaration/import/parameter located in a scope that
encloses the use and initialised before it; every generated binding must be used."""
import sys, itertools, json, re
import z3
from ..engine import *
from ..values import *
from .. import harness, denote, astio, driver, jsout, world
from ..harness import Leaf, Skeleton
from . import common, elements, c10

PROP = 'C06'
MOD = 'mirsym.checks.c06'

JSX = {
    'call': '<Foo>{{f1()}}</Foo>', 'ident': '<Foo>{{v1}}</Foo>', 'frag': '<>x</>', 'dir': '<div v-foo={{v1}} v-show={{v2}}/>', 'text': '<p>hi</p>', 'model': '<input v-model={{v1}}/>',
    'on': '<div on={{o1}}/>', 'onC': '<C1 nativeOn={{o1}}/>', 'on2': '<div on={{o1}} id="a"/>', 'spread': '<div {{...s1}} id="a"/>', 'two-calls': '<Foo><C1>{{f1()}}</C1><C1>{{f1(v2)}}</C1></Foo>', 'nested-call': '<Foo>{{f1(<C1>{{f1()}}</C1>)}}</Foo>',
    'attr-call': '<Foo a=<C1>{{f1()}}</C1>/>', 'kids': '<Foo>a{{v2}}</Foo>',
}
CONTEXTS = {
    'module': 'const _0 = @;', 'export-default': 'export default @;', 'stmt': '@;', 'fn-body': 'function g() {{ return @; }}', 'fn-expr': 'const g = function () {{ const r = @; return r; }};',
    'arrow-expr': 'const g = () => @;', 'arrow-block': 'const g = () => {{ return @; }};', 'arrow-nested': 'const g = () => () => @;', 'arrow-arg': 'f1(() => @);', 'arrow-cond': 'const g = (c) => c ? @ : null;',
    'method': 'class K {{ m() {{ return @; }} }}', 'getter': 'class K {{ get g() {{ return @; }} }}', 'static-block': 'class K {{ static {{ const r = @; }} }}', 'field': 'class K {{ f = @; }}', 'static-field': 'class K {{ static f = @; }}',
    'obj-method': 'const o = {{ m() {{ return @; }}, p: @ }};', 'default-param': 'function g(a = @) {{ return a; }}', 'default-param-arrow': 'const g = (a = @) => a;', 'default-param-arrow-block': 'const g = (a = @) => {{ return a; }};',
    'block': '{{ const r = @; }}', 'nested-block': 'function g() {{ if (v1) {{ const r = @; return r; }} }}', 'for': 'for (let i = 0; i < 2; i++) {{ f1(@); }}', 'for-of': 'for (const x of [@]) {{ f1(x); }}',
    'while': 'while (v1) {{ v2 = @; }}', 'try': 'try {{ f1(@); }} catch (e) {{ f1(@); }} finally {{ f1(@); }}', 'switch': 'switch (v1) {{ case 1: f1(@); break; default: f1(@); }}', 'label': 'lbl: {{ f1(@); }}',
    'for-bare': 'for (const x of [1, 2]) f1(@);', 'while-bare': 'while (v1) v2 = @;', 'for-bare-assign': 'for (let i = 0; i < 2; i++) v1 = <Foo>{{v1}}</Foo>;', 'do-bare': 'do f1(@); while (v1);',
    'for-in-bare-if': 'for (const k in o1) if (k) f1(@);', 'for-head': 'for (let q = @; v1; ) {{ f1(q); }}', 'nested-bare': 'function g() {{ for (;;) for (const x of [1]) return @; }}',
    'tpl': 'const t = `a${{@}}b`;', 'seq': 'const q = (f1(), @);', 'assign-self': 'v1 = <Foo>{{v1}}</Foo>;', 'assign-in-fn': 'function g() {{ v1 = <Foo>{{v1}}</Foo>; }}', 'assign-arrow': 'const g = () => (v1 = <Foo>{{v1}}</Foo>);',
    'assign-param-arrow': 'const g = (p1) => p1 = <Foo>{{p1}}</Foo>;', 'assign-param-fn': 'function g(p1) {{ p1 = <Foo>{{p1}}</Foo>; return p1; }}',
    'assign-local': 'function g() {{ let l1 = 0; l1 = <Foo>{{l1}}</Foo>; return l1; }}', 'assign-param-arrow-block': 'const g = (p1) => {{ p1 = <Foo>{{p1}}</Foo>; return p1; }};',
    'assign-param-nested': 'const g = (p1) => () => (p1 = <Foo>{{p1}}</Foo>);', 'assign-local-block': 'function g() {{ {{ let l1 = 1; l1 = <C1>{{l1}}</C1>; }} }}',
    'fn-then-empty-if': 'function g() {{ const r = @; if (v1) {{}} return r; }}', 'fn-then-empty-catch': 'function g() {{ const r = @; try {{ f1(); }} catch {{}} return r; }}',
    'fn-then-empty-fn': 'function g() {{ const r = @; function noop() {{}} return r; }}', 'arrow-then-empty-block': 'const g = () => {{ const r = @; {{}} return r; }};',
    'assign-then-empty': 'function g() {{ v1 = <Foo>{{v1}}</Foo>; class E {{ m() {{}} }} return v1; }}',
    'assign-in-default-fn': 'function g(p1, b = (p1 = <Foo>{{p1}}</Foo>)) {{ return b; }}', 'assign-in-default-arrow': 'const g = (p1, b = (p1 = <Foo>{{p1}}</Foo>)) => b;',
    'assign-in-default-method': 'class K {{ m(p1, b = (p1 = <Foo>{{p1}}</Foo>)) {{ return b; }} }}', 'assign-user-slot-name': 'let _slot; _slot = <Foo>{{f1()}}</Foo>;',
    'iife': '(() => {{ return @; }})();', 'async-arrow': 'const g = async () => @;', 'generator': 'function* g() {{ yield @; }}', 'if-no-block': 'function g() {{ if (v1) return @; return null; }}',
    'arrow-in-default': 'function g(cb = () => @) {{ return cb; }}', 'two-fns': 'function g() {{ return @; }}\nfunction h() {{ return @; }}', 'arrow-sibling': 'const g = () => @, h = () => @;',
}
SIBLINGS = {'none': ('', ''), 'pre-temp': ('const p = <Foo>{{f1()}}</Foo>;\n', ''), 'post-temp': ('', '\nconst r = <Foo>{{f1()}}</Foo>;'), 'pre-arrow': ('const p = () => <Foo>{{f1()}}</Foo>;\n', ''),
            'post-empty-fn': ('', '\nfunction noop() {{}}'), 'post-empty-block': ('', '\n{{}}'), 'post-empty-method': ('', '\nclass E {{ m() {{}} }}'),
            'post-empty-catch': ('', '\ntry {{ f1(); }} catch {{}}'), 'post-empty-if': ('', '\nif (v1) {{}}'), 'pre-empty-fn': ('function noop() {{}}\n', ''), 'post-empty-arrow': ('', '\nconst noop = () => {{}};'),
            'user-names': ('const _slot = 1, _createVNode = 2; function _isSlot() {{}}\n', ''),
            'user-snapshot-names': ('let _v1 = v1, _v3 = 7, _p1 = 8, _l1 = 9;\n', '\nf1(_v1, _v3, _p1, _l1);'), 'user-snapshot-global': ('', '\nf1(_v1, _slot, _v3);'), 'pre-assign': ('v1 = 3;\n', ''),
            # string-literal statements that are not a directive prologue (they follow other statements)
            'post-string': ('', "\n'use client';\nconst r = <Foo>{{f1(v2)}}</Foo>;"), 'pre-string': ("'use x';\n", ''), 'around-strings': ("'a';\n", "\n'b';"), 'post-fn': ('', '\nfunction r() {{ return <Foo>{{f1()}}</Foo>; }}')}


def make_skeleton(spec):
    ctxt = CONTEXTS[spec['ctx']]
    j = JSX[spec.get('jsx', 'call')]
    body = ctxt.replace('@', j)
    pre, post = SIBLINGS[spec.get('sib', 'none')]
    src = c10.PRELUDE10 + pre + body + post + '\n'
    opts = {'optimize': 'sym', 'enable_object_slots': 'sym', 'transform_on': spec.get('jsx') in ('on', 'onC', 'on2')}
    return Skeleton('c06#%s|%s|%s%s' % (spec['ctx'], spec.get('jsx', 'call'), spec.get('sib', 'none'), '|pragma' if spec.get('pragma') else ''), src, [], opts,
                    pragma=spec.get('pragma'), meta={'family': 'c06'})


# ------------------------------------------------------------------ scope analysis of the emitted module
FUNCTION_TYPES = ('Function', 'ArrowExpr', 'Constructor', 'GetterProp', 'SetterProp')


def _dummy(sp):
    sp = deref(sp)
    return isinstance(sp, Adt) and sp.ty == 'Span' and (sp.fields[0], sp.fields[1]) == (0, 0)


class Scopes:
    def __init__(self, program, generated):
        self.G = generated
        self.decls = []      # dicts: key(sym, ctxt), kind, scope_path, index (statement index in its list or None), path
        self.uses = []       # dicts: key, path
        self._walk(program, ())

    def _pat_idents(self, pat, out):
        pat = deref(pat)
        if isinstance(pat, Adt):
            if pat.ty == 'BindingIdent':
                out.append(pat.get('id')); return
            if pat.ty == 'Pat' and pat.variant == 'Expr':
                return
            if pat.ty == 'AssignPat':
                self._pat_idents(pat.get('left'), out); return
            if pat.ty == 'AssignPatProp':
                out.append(_binding_of(pat.get('key'))); return
            for f in pat.fields:
                if isinstance(f, (Adt, list, Ref)):
                    self._pat_idents(f, out)
        elif isinstance(pat, list):
            for x in pat:
                self._pat_idents(x, out)

    def _key(self, ident):
        ident = deref(ident)
        return (denote.pystr(ident.get('sym')), ident.get('ctxt'))

    def _walk(self, v, path, fn_path=(), list_ctx=None):
        """list_ctx = (path of the enclosing statement list, index of the current statement)"""
        v = deref(v)
        if isinstance(v, list):
            for i, x in enumerate(v):
                self._walk(x, path + (i,), fn_path, list_ctx)
            return
        if not isinstance(v, Adt):
            return
        ty = v.ty
        if ty == 'Module':
            body = v.get('body')
            bp = path + (v.names.index('body'),)
            for i, item in enumerate(body):
                self._walk(item, bp + (i,), fn_path, (bp, i))
            return
        if ty == 'BlockStmt':
            sp = path + (v.names.index('stmts'),)
            for i, st in enumerate(v.get('stmts')):
                self._walk(st, sp + (i,), fn_path, (sp, i))
            return
        if ty == 'ImportDecl':
            for sp in v.get('specifiers'):
                local = sp.fields[0].get('local')
                self.decls.append({'key': self._key(local), 'kind': 'import', 'scope': list_ctx[0] if list_ctx else path, 'index': None, 'path': path,
                                   'generated_node': _dummy(v.get('span'))})
            return
        if ty == 'FnDecl':
            self.decls.append({'key': self._key(v.get('ident')), 'kind': 'fn', 'scope': list_ctx[0] if list_ctx else path, 'index': None, 'path': path,
                               'generated_node': _dummy(deref(v.get('function')).get('span'))})
            self._walk(v.get('function'), path + (v.names.index('function'),), fn_path, None)
            return
        if ty == 'VarDecl':
            kind = v.get('kind').variant
            for di, d in enumerate(v.get('decls')):
                ids = []
                self._pat_idents(d.get('name'), ids)
                for idn in ids:
                    if idn is not None:
                        self.decls.append({'key': self._key(idn), 'kind': kind.lower(), 'scope': (list_ctx[0] if list_ctx and kind != 'Var' else fn_path), 'index': list_ctx[1] if list_ctx else None,
                                           'path': path, 'has_init': is_some(d.get('init')), 'generated_node': _dummy(v.get('span')) and _dummy(d.get('span'))})
                if is_some(d.get('init')):
                    self._walk(d.get('init'), path + ('decl', di, 'init'), fn_path, list_ctx)
            return
        if ty in ('Function', 'ArrowExpr', 'Constructor'):
            me = path
            ps = v.get('params')
            for pi, p in enumerate(ps):
                ids = []
                pp = deref(p)
                pat = pp.get('pat') if isinstance(pp, Adt) and pp.ty == 'Param' else (pp.fields[0] if isinstance(pp, Adt) and pp.ty == 'ParamOrTsParamProp' else pp)
                self._pat_idents(pat, ids)
                for idn in ids:
                    if idn is not None:
                        self.decls.append({'key': self._key(idn), 'kind': 'param', 'scope': me, 'index': None, 'path': me + ('params', pi)})
                # default values are evaluated in the parameter scope: they see the parameters and what encloses the function, not the body
                self._walk_defaults(pat, me + ('params', pi), me)
            body = v.get('body')
            self._walk(body, me + ('body',), me, None)
            return
        if ty == 'Expr' and v.variant == 'Ident':
            idn = v.fields[0]
            self.uses.append({'key': self._key(idn), 'path': path, 'fn': fn_path})
            return
        if ty == 'Prop' and v.variant == 'Shorthand':
            self.uses.append({'key': self._key(v.fields[0]), 'path': path, 'fn': fn_path})
            return
        for i, f in enumerate(v.fields):
            if isinstance(deref(f), (Adt, list)):
                self._walk(f, path + (i,), fn_path, list_ctx)

    def _walk_defaults(self, pat, path, fn_path):
        pat = deref(pat)
        if isinstance(pat, Adt):
            if pat.ty == 'AssignPat':
                self._walk(pat.get('right'), path + ('default',), fn_path, None)
                self._walk_defaults(pat.get('left'), path, fn_path)
                return
            for f in pat.fields:
                if isinstance(deref(f), (Adt, list)):
                    self._walk_defaults(f, path, fn_path)
        elif isinstance(pat, list):
            for x in pat:
                self._walk_defaults(x, path, fn_path)


def _binding_of(x):
    x = deref(x)
    if isinstance(x, Adt) and x.ty == 'BindingIdent':
        return x.get('id')
    if isinstance(x, Adt) and x.ty == 'Ident':
        return x
    return None


def is_prefix(a, b):
    return len(a) <= len(b) and tuple(b[:len(a)]) == tuple(a)


def oracle(env):
    ctx = env.ctx
    user = c10.input_ctxts(env.pre)
    post_ctxts = c10.input_ctxts(env.post)
    G = set(c for c in post_ctxts if c not in user and c != 0)
    sc = Scopes(env.post, G)
    obs = []
    gen_decls = [d for d in sc.decls if d['key'][1] in G]
    used = set()
    for u in sc.uses:
        k = u['key']
        if k[1] not in G:
            # a user identifier (possibly copied into generated code) must stay inside the scope of its binding:
            # the output has no free variables beyond those of the input
            uds = [d for d in sc.decls if d['key'] == k and d['kind'] in ('param', 'let', 'const', 'var')]
            if uds and k[1] != 0:
                okk = any(is_prefix(d['scope'], u['path']) for d in uds)
                obs.append(Obligation('a user variable is only referenced inside the scope of its binding (no new free variables)', okk, {'name': k[0]}))
            if k[1] == 0 and k[0] == '$event':
                ok = any(d['key'] == k and d['kind'] == 'param' and is_prefix(d['scope'], u['path']) for d in sc.decls)
                obs.append(Obligation('a generated listener parameter is bound by its arrow', ok, {'name': k[0]}))
            continue
        ds = [d for d in sc.decls if d['key'] == k]
        if not ds:
            obs.append(Obligation('every generated identifier refers to a declaration or import the transform added', False, {'name': k[0]}))
            continue
        used.add(k)
        d = ds[0]
        in_scope = is_prefix(d['scope'], u['path'])
        obs.append(Obligation('the declaration of a generated name is in a scope that encloses every use', in_scope,
                              {'name': k[0], 'decl_kind': d['kind'], 'decl_scope_depth': len(d['scope']), 'use_depth': len(u['path'])}))
        if in_scope and d['kind'] in ('let', 'const') and d['index'] is not None:
            # position of the statement (of the declaration's list) that contains the use
            j = u['path'][len(d['scope'])]
            same_fn = (u['fn'] == _fn_of(sc, d))
            ok = d['index'] <= j if isinstance(j, int) else True
            obs.append(Obligation('a generated binding is initialised before the use executes', ok or not same_fn, {'name': k[0], 'decl_index': d['index'], 'use_statement': j}))
    for d in gen_decls:
        obs.append(Obligation('every helper the transform imports or declares is used', d['key'] in used, {'name': d['key'][0], 'kind': d['kind']}))
    # what the transform declares (nodes with a dummy span: temporaries, snapshots, helper, helper imports) binds identifiers that
    # do not occur in the input at all - neither as a binding nor as a (possibly free) reference
    input_ids = set()

    def fin(v, p):
        if isinstance(v, Adt) and v.ty == 'Ident' and v.names and 'ctxt' in v.names:
            input_ids.add((denote.pystr(v.get('sym')), v.get('ctxt')))
    astio.walk(env.pre, fin)
    for d in sc.decls:
        if d.get('generated_node') and d['kind'] in ('let', 'const', 'var', 'fn', 'import'):
            obs.append(Obligation('a declaration the transform adds binds a name that does not occur in the input', d['key'] not in input_ids, {'name': d['key'][0], 'kind': d['kind']}))
    # generated bindings never share a (name, context) pair with a user binding
    for d in gen_decls:
        clash = [x for x in sc.decls if x is not d and x['key'] == d['key']]
        obs.append(Obligation('a generated name never collides with another binding', not clash, {'name': d['key'][0]}))
    return obs


def _fn_of(sc, d):
    # the function the declaration's list belongs to = longest function path that is a prefix of the scope
    best = ()
    for u in sc.uses:
        if is_prefix(u['fn'], d['scope']) and len(u['fn']) > len(best):
            best = u['fn']
    return best


def jobs(tier):
    out = []
    for c in CONTEXTS:
        js = ['call', 'ident', 'frag', 'dir'] if tier == 'quick' else list(JSX)
        if c.startswith('assign'):
            js = ['call']
        for j in js:
            out.append({'ctx': c, 'jsx': j})
        for sname in SIBLINGS:
            if sname == 'none':
                continue
            if tier == 'quick' and c not in ('module', 'arrow-expr', 'fn-body', 'default-param', 'field', 'block', 'arrow-nested', 'assign-self', 'arrow-block'):
                continue
            out.append({'ctx': c, 'jsx': 'call', 'sib': sname})
    for j in JSX:
        out.append({'ctx': 'module', 'jsx': j})
        out.append({'ctx': 'arrow-expr', 'jsx': j})
        # with a pragma in force createVNode is not imported: every other helper must still be
        out.append({'ctx': 'module', 'jsx': j, 'pragma': 'h'})
        out.append({'ctx': 'fn-body', 'jsx': j, 'pragma': 'h'})
    # two uses of the listener-object helper in one module: both refer to the one import
    out += [{'ctx': 'two-fns', 'jsx': 'on'}, {'ctx': 'arrow-sibling', 'jsx': 'onC'}, {'ctx': 'obj-method', 'jsx': 'on2'}, {'ctx': 'try', 'jsx': 'on'}]
    seen = set(); res = []
    for s in out:
        k = json.dumps(s, sort_keys=True)
        if k not in seen:
            seen.add(k); res.append(s)
    return [{'module': MOD, 'spec': s} for s in res]


def classify(v, detail):
    if v['kind'] == 'panic':
        return 'panic'
    m = re.match(r'c06#([^|]*)\|([^|]*)\|([^|]*)', v['skeleton'])
    c, j, sb = m.groups() if m else ('?', '?', '?')
    info = (detail or {}).get('info') or v.get('info') or {}
    name = re.sub(r'\d+$', '', str(info.get('name', '')))
    if c.startswith('assign-in-default') and v['obligation'].startswith(('a user variable is only referenced', 'the declaration of a generated name')):
        return 'self-assignment-snapshot-inside-a-parameter-default-is-hoisted-out-of-the-function'
    grp = 'default-parameter' if 'default' in c else 'class-field' if 'field' in c else 'assignment-snapshot' if c.startswith('assign') or name.startswith('_v') else c
    return '%s [%s] context=%s' % (v['obligation'][:70], name, grp)


def main(argv):
    rep = common.Report(PROP)
    js = jobs(rep.tier)
    rep.bounds = {'contexts': sorted(CONTEXTS), 'lowerings': sorted(JSX), 'sibling_code': sorted(SIBLINGS), 'options': 'optimize symbolic, transformOn on for the `on` lowering'}
    rep.assumptions = ['scope analysis at AST level: a generated identifier = one whose syntax context does not occur in the input; swc hygiene (renaming of equal spellings with different contexts when printing) is outside',
                       '"initialised before use": a let/const declaration precedes, in its statement list, the statement containing the use (uses in another function are not ordered)',
                       'generic traversal model validated against the native build']
    res = common.run_jobs('mirsym.checks.elements', 'run_family_job', js)
    raw = []
    for r in res:
        raw.extend(r.pop('violations', []))
        rep.absorb(r)
    import importlib
    elements.triage(rep, PROP, importlib.import_module(MOD), raw, classify)
    if rep.validation_mismatches:
        rep.inconclusive.append('MIR executor and native build disagree on %d sampled instances' % len(rep.validation_mismatches))
    return common.finish(rep, explanation='whole-module symbolic execution over syntactic contexts followed by a scope analysis of the emitted module')


def replay(path):
    import importlib
    return elements.replay_dir(PROP, importlib.import_module(MOD), path)
