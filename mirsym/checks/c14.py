"""C14 - options have their documented defaults and only their documented effect.
Kernel A: the MIR of `Options::default()` equals the documented defaults.
Kernel B: the serde-derived `visit_map` / `visit_str` of Options (in the crate's MIR) on an abstract JSON object whose keys are
          fully symbolic strings: absent key = default, documented camelCase spellings only, unknown keys ignored.
Kernel C: locality - relational runs (option on / off) on element skeletons that do not use the governed feature."""
import sys, itertools, json, re
import z3
from ..engine import *
from ..values import *
from ..interp import Ctx
from .. import harness, denote, astio, driver, jsout, world
from ..models import model, S, L
from ..harness import Leaf, Skeleton
from . import common, elements, c01, c03, c04, c05, c13, c12

PROP = 'C14'
MOD = 'mirsym.checks.c14'
DOCUMENTED = {'transform_on': ('transformOn', False), 'optimize': ('optimize', False), 'custom_element_patterns': ('customElementPatterns', []),
              'merge_props': ('mergeProps', True), 'enable_object_slots': ('enableObjectSlots', True), 'pragma': ('pragma', None), 'resolve_type': ('resolveType', False)}


# ---------------------------------------------------------------- serde MapAccess model (environment of kernel B)
@model(r"^<__A as MapAccess<'_>>::next_key::<__Field>$")
def m_next_key(it, ctx, a, m, f):
    mp = deref(a[0])
    d = mp.data
    if d['pos'] >= len(d['entries']):
        return Adt('Result', 'Ok', [NoneV()])
    key = d['entries'][d['pos']][0]
    fn = it.fn('visit_str', 0) if False else _field_visit_str(it)
    r = it.run(ctx, fn, [Adt('__FieldVisitor', None, []), key])
    if r.variant == 'Ok':
        return Adt('Result', 'Ok', [Some(r.fields[0])])
    return r


def _field_visit_str(it):
    for name, fs in it.prog.fns.items():
        if name.endswith('::visit_str') and '__FieldVisitor' in fs[0].sig:
            return fs[0]
    raise Unsupported('serde field visitor not in the MIR dump')


@model(r"^<__A as MapAccess<'_>>::next_value::<(.*)>$")
def m_next_value(it, ctx, a, m, f):
    mp = deref(a[0])
    d = mp.data
    kind, val = d['entries'][d['pos']][1]
    d['pos'] += 1
    want = m.group(1)
    if want == 'IgnoredAny':
        return Adt('Result', 'Ok', [Opaque('ignored')])
    ok = (want == 'bool' and kind == 'bool') or (want.startswith('Option<String>') and kind in ('str', 'null')) or (want.startswith('Vec<') and kind == 'list')
    if not ok:
        return Adt('Result', 'Err', [Opaque('serde-error', 'invalid type')])
    if want.startswith('Option<String>'):
        return Adt('Result', 'Ok', [Some(val) if kind == 'str' else NoneV()])
    return Adt('Result', 'Ok', [val])


@model(r"as _serde::de::Error>::(duplicate_field|missing_field|unknown_field|invalid_value|invalid_length|custom)")
def m_serde_error(it, ctx, a, m, f):
    return Opaque('serde-error', m.group(1))


def install_field_enum(it):
    n = len(it.T.structs['Options'])
    it.T.enums['__Field'] = [('__field%d' % i, [], i, None) for i in range(n)] + [('__ignore', [], n, None)]


# ---------------------------------------------------------------- kernel D: what a list of patterns means (native, concrete)
# The regex engine is outside the symbolic executor (patterns are opaque predicates there). What a *list* of patterns means - a tag is
# a custom element iff some pattern of the list matches it, each pattern on its own - is decided on the native build for concrete
# lists and tags, with Python's `re` as the reference matcher (patterns restricted to the syntax both engines share).
PATTERN_LISTS = [['^x-'], ['^x-', '^y-'], ['(?i)^ion-', '^swiper$'], ['^swiper$', '(?i)^ion-'], ['a|b', '^c'], ['^(?:foo)$', 'bar$'], ['(?s)^x.y', '^z$'], ['^$', 'Q'],
                 ['(?i)w', 'zzz', '^y-'], ['x', '(?i)^F']]
PATTERN_TAGS = ['Swiper', 'swiper', 'ion-button', 'ION-x', 'x-a', 'y-b', 'Foo', 'foo', 'cab', 'z', 'Qq', 'C1']


def job_patterns(job):
    import re as _re
    from . import elements as _el
    res = {'violations': [], 'inconclusive': [], 'samples': [], 'obligations': 0, 'distinct': [], 'vacuity': {}, 'kernels': {'pattern-lists': {'paths': 0, 'obligations': 0}}}
    e3 = _el._e3()
    pl = job['patterns']
    for tag in PATTERN_TAGS:
        src = 'import Swiper from "./s"; let C1 = 0, v1 = 0;\nconst _0 = <%s a="1">{v1}</%s>;\n' % (tag, tag)
        r = e3.run(src, {'customElementPatterns': pl})
        if 'post' not in r:
            res['inconclusive'].append('pattern kernel: %s' % {k: v for k, v in r.items() if k in ('parse_error', 'panic', 'options_error')})
            continue
        post = astio.read_program(r['post'])
        init = jsout.find_decl_init(post, '_0')
        mv = denote.ModuleView(post)
        try:
            v = denote.vnode_view(init, mv)
            tv = denote.tag_view(v.tag, mv)
        except Exception as e:
            res['inconclusive'].append('pattern kernel: %s' % e); continue
        is_html = tag in ('z',) and False
        want = any(_re.search(p, tag) for p in pl)
        got = tv[0] == 'str'
        res['obligations'] += 1; res['kernels']['pattern-lists']['obligations'] += 1; res['kernels']['pattern-lists']['paths'] += 1
        if want != got:
            res['violations'].append({'kernel': 'pattern-lists', 'obligation': 'a tag is a custom element iff one of the configured patterns matches it', 'json': {'customElementPatterns': pl},
                                      'info': {'tag': tag, 'matches_some_pattern': want, 'lowered_as_custom_element': got, 'code': (r.get('code') or '')[-200:]}})
    res['stats'] = {'paths': len(PATTERN_TAGS), 'queries': 0, 'sat': 0, 'unsat': 0, 'unknown': 0, 'solver_s': 0.0, 'steps': 0, 'fns': {}, 'models': []}
    return res


# ---------------------------------------------------------------- kernels A and B
def job_config(job):
    it, info = load(verbose=False)
    install_field_enum(it)
    st = Stats()
    res = {'violations': [], 'inconclusive': [], 'samples': [], 'obligations': 0, 'distinct': [], 'vacuity': {}, 'kernels': {}}
    fields = [n for n, _ in it.T.structs['Options']]
    if job['kind'] == 'defaults':
        ctx = Ctx([], [], st)
        try:
            fn = [fs[0] for name, fs in it.prog.fns.items() if name.endswith('::default') and 'options.rs' in name and fs[0].ret_ty.endswith('Options')][0]
            o = it.run(ctx, fn, [])
        except (Unsupported, IndexError) as e:
            res['inconclusive'].append('Options::default: %s' % e)
            res['stats'] = common.stats_dict(st); return res
        st.paths += 1
        for n in fields:
            if n not in DOCUMENTED:
                res['inconclusive'].append('Options has an undocumented field %s' % n); continue
            v = o.get(n)
            exp = DOCUMENTED[n][1]
            got = v if isinstance(v, bool) else ([] if isinstance(v, list) and not v else None if isinstance(v, Adt) and v.variant == 'None' else repr(v))
            res['obligations'] += 1
            if got != exp:
                res['violations'].append({'kernel': 'defaults', 'field': n, 'expected': exp, 'got': got})
        res['samples'].append({'kernel': 'Options::default()', 'value': {n: (o.get(n) if isinstance(o.get(n), bool) else repr(o.get(n))) for n in fields}})
        res['vacuity']['defaults'] = True
        res['stats'] = common.stats_dict(st); return res
    # kernel B: abstract JSON object with symbolic keys
    lens = job['lens']
    keys = []
    base = []
    for i, n in enumerate(lens):
        cs = [z3.BitVec('k%d_%d' % (i, j), 7) for j in range(n)]
        ks = SStr([z3.ZeroExt(CHW - 7, c) for c in cs])
        keys.append(ks)
        for c in ks.cs:
            base.append(z3.And(z3.UGE(c, 0x20), z3.ULE(c, 0x7e), c != ord('"'), c != ord('\\')))
    for a, b in itertools.combinations(keys, 2):
        if len(a.cs) == len(b.cs):
            base.append(z3.Not(z3.And([x == y for x, y in zip(a.cs, b.cs)])))       # JSON keys distinct (duplicates are an error in serde)
    vals = [z3.Bool('v%d' % i) for i in range(len(lens))]
    visit_map = [fs[0] for name, fs in it.prog.fns.items() if name.endswith('::visit_map') and '__Visitor' in fs[0].sig][0]

    def body(ctx):
        entries = [(k, ('bool', v)) for k, v in zip(keys, vals)]
        mp = Opaque('map', {'entries': entries, 'pos': 0})
        r = it.run(ctx, visit_map, [Adt('__Visitor', None, []), mkref(mp)] if False else [Adt('__Visitor', None, []), mp])
        ctx.result = r
        obs = []
        # expected: each documented bool option = value of the entry spelled exactly like its JSON name, else default;
        # a key spelled like a non-bool option (pragma / customElementPatterns) with a bool value is a type error; unknown keys ignored
        nonbool = [SStr.of(DOCUMENTED[n][0]) for n in fields if not isinstance(DOCUMENTED[n][1], bool)]
        type_err = False
        for k in keys:
            for nb in nonbool:
                if ctx.decide(seq(k, nb)):
                    type_err = True
        if type_err:
            obs.append(Obligation('a non-boolean option given a boolean is rejected when the configuration is read', r.variant == 'Err'))
            return obs
        obs.append(Obligation('a well-typed configuration object is accepted (unknown keys ignored)', r.variant == 'Ok', {'result': r.variant}))
        if r.variant != 'Ok':
            return obs
        o = r.fields[0]
        for n in fields:
            jn, dflt = DOCUMENTED[n]
            if not isinstance(dflt, bool):
                v = o.get(n)
                okk = (isinstance(v, list) and not v) if dflt == [] else (isinstance(v, Adt) and v.variant == 'None')
                obs.append(Obligation('an absent option equals its documented default', okk, {'field': n}))
                continue
            exp = dflt
            for k, v in zip(keys, vals):
                if ctx.decide(seq(k, SStr.of(jn))):
                    exp = v
            obs.append(Obligation('each option is read from its documented camelCase key and otherwise keeps its default', v_eq(o.get(n), exp), {'field': n}))
        return obs

    for r in explore(body, base, st):
        if r.kind == 'ok':
            res['obligations'] += 1
            res['distinct'].append('cfg/%s/%s' % (lens, ''.join('1' if d else '0' for d in r.ctx.taken)))
            res['vacuity']['visit_map reached the oracle'] = True
            if len(res['samples']) < 1 and r.ctx.check() == z3.sat:
                mdl = r.ctx.solver.model()
                res['samples'].append({'kernel': 'serde visit_map', 'json': {mval(mdl, k): mval(mdl, v) for k, v in zip(keys, vals)}, 'result': r.ctx.result.variant})
        elif r.kind == 'violation':
            res['obligations'] += 1
            res['violations'].append({'kernel': 'config', 'obligation': r.detail, 'json': {mval(r.model, k): mval(r.model, v) for k, v in zip(keys, vals)},
                                      'info': harness._plain(r.model, r.obligation.info)})
        elif r.kind == 'panic':
            res['violations'].append({'kernel': 'config', 'obligation': 'panic: ' + str(r.detail), 'json': {mval(r.model, k): mval(r.model, v) for k, v in zip(keys, vals)} if r.model else None})
        else:
            res['inconclusive'].append('config %s: %s %s' % (lens, r.kind, str(r.detail)[:200]))
    res['stats'] = common.stats_dict(st)
    return res


# ---------------------------------------------------------------- kernel E: the serde visitor of one pattern string
# A Deserializer hands a string to a Visitor through one of three entries: `visit_borrowed_str` (serde_json::from_str, when the JSON
# text of the string has no escape), `visit_str` (the same with escapes: the text is unescaped into a scratch buffer) or
# `visit_string` (serde_json::from_value). serde's documented defaults: visit_borrowed_str -> visit_str, visit_string -> visit_str,
# visit_str -> Err(invalid type). Whatever entry is used, a pattern must be accepted iff the regex crate accepts it.
SERDE_DEFAULT = {'visit_borrowed_str': 'visit_str', 'visit_string': 'visit_str', 'visit_str': None}


@model(r'^regex::Regex::new$')
def m_regex_new(it, ctx, a, m, f):
    ok = getattr(ctx, 'regex_valid', None)
    if ok is None:
        raise Unsupported('regex::Regex::new outside the pattern-visitor kernel')
    if any(S(a[0]) is e for e in getattr(ctx, 'regex_escaped', ())):
        return Adt('Result', 'Ok', [Opaque('regex', S(a[0]))])        # contract of regex::escape: its result always compiles
    return Adt('Result', 'Ok', [Opaque('regex', S(a[0]))]) if ctx.decide(ok) else Adt('Result', 'Err', [Opaque('regex-error')])


@model(r'^(regex::)?escape$')
def m_regex_escape(it, ctx, a, m, f):
    # the escaped text stands for a literal match; its exact spelling does not matter to this kernel, its validity does
    out = SStr(list(S(a[0]).cs))
    ctx.regex_escaped = list(getattr(ctx, 'regex_escaped', ())) + [out]
    return out


@model(r'^options::Regex$')
def m_regex_ctor(it, ctx, a, m, f):
    return Adt('Regex', None, [a[0]])          # the tuple-struct constructor used as a function (`.map(Regex)`)


def job_regex_visitor(job):
    it, info = load(verbose=False)
    st = Stats()
    res = {'violations': [], 'inconclusive': [], 'samples': [], 'obligations': 0, 'distinct': [], 'vacuity': {}, 'kernels': {}}
    impls = {}
    for name, fs in it.prog.fns.items():
        for mname in SERDE_DEFAULT:
            if name.endswith('::' + mname) and 'options.rs' in name and 'RegexVisitor' in fs[0].sig:
                impls[mname] = fs[0]
    if not impls:
        res['inconclusive'].append('pattern visitor: no visit_* method of RegexVisitor in the MIR dump')
        res['stats'] = common.stats_dict(st); return res
    n = job['len']
    for entry in SERDE_DEFAULT:
        target = entry
        while target is not None and target not in impls:
            target = SERDE_DEFAULT[target]
        res['obligations'] += 1
        if target is None:
            res['violations'].append({'kernel': 'pattern-visitor', 'obligation': 'a pattern string is read whichever way the deserializer hands it over (%s)' % entry,
                                      'json': {'customElementPatterns': ['^x\\-' if entry == 'visit_str' else '^x-']}, 'info': {'entry': entry, 'resolved': 'serde default: invalid type'}})
            continue
        cs = [z3.BitVec('p%s_%d' % (entry[6:8], j), 7) for j in range(n)]
        text = SStr([z3.ZeroExt(CHW - 7, c) for c in cs])
        valid = z3.Bool('regex_ok_' + entry)

        def body(ctx, target=target, text=text, valid=valid, entry=entry):
            ctx.regex_valid = valid
            r = it.run(ctx, impls[target], [Adt('RegexVisitor', None, []), text if target == 'visit_string' else mkref(text)])
            ctx.result = r
            okv = ctx.decide(valid)
            return [Obligation('a pattern is accepted iff the regex engine accepts it (%s)' % entry, (r.variant == 'Ok') == okv, {'entry': entry, 'resolved': target, 'regex_accepts': okv, 'result': r.variant})]
        for r in explore(body, [z3.And(z3.UGE(c, 0x20), z3.ULE(c, 0x7e)) for c in cs], st):
            if r.kind == 'ok':
                res['distinct'].append('rx/%s/%s' % (entry, ''.join('1' if d else '0' for d in r.ctx.taken)))
                res['vacuity']['pattern visitor reached the oracle'] = True
            elif r.kind == 'violation':
                res['violations'].append({'kernel': 'pattern-visitor', 'obligation': r.detail, 'json': {'customElementPatterns': ['^x\\-']}, 'info': harness._plain(r.model, r.obligation.info)})
            elif r.kind == 'panic':
                res['violations'].append({'kernel': 'pattern-visitor', 'obligation': 'panic: ' + str(r.detail), 'json': None})
            else:
                res['inconclusive'].append('pattern visitor %s: %s %s' % (entry, r.kind, str(r.detail)[:200]))
    res['samples'].append({'kernel': 'RegexVisitor', 'overrides': sorted(impls)})
    res['stats'] = common.stats_dict(st)
    return res


def confirm_config(v):
    """replay a config-kernel witness on the native build (serde_json + the real Options): True = the violation shows there too"""
    if v.get('kernel') == 'pattern-visitor':
        # the three ways serde_json hands a string over: from_str without / with an escape in the JSON text, from_value
        entry = (v.get('info') or {}).get('entry')
        e3 = driver.E3()
        try:
            info = v.get('info') or {}
            if info.get('regex_accepts') is False and info.get('result') == 'Ok':
                # a pattern the regex engine rejects was accepted: confirmed if the native build reads `(` without an error
                if entry == 'visit_string':
                    r = e3.run('const a = 1;', {'customElementPatterns': ['(']})
                else:
                    r = e3.run('const a = 1;', None, options_text='{"customElementPatterns": ["(%s"]}' % ('\\u0028' if entry == 'visit_str' else ''))
                v['native'] = {k: r.get(k) for k in ('options_error', 'options_debug')}
                return 'options_error' not in r
            if entry == 'visit_string':
                r = e3.run('const a = 1;', {'customElementPatterns': ['^x-']})
            else:
                r = e3.run('const a = 1;', None, options_text='{"customElementPatterns": ["^x%s-"]}' % ('\\\\' if entry == 'visit_str' else ''))
        finally:
            e3.close()
        v['native'] = {k: r.get(k) for k in ('options_error', 'options_debug')}
        return 'options_error' in r
    if v.get('kernel') not in ('config', 'defaults'):
        return True         # (the pattern-list kernel runs on the native build itself)
    js = v.get('json') if v.get('kernel') != 'defaults' else {}
    if js is None:
        return False
    e3 = driver.E3()
    try:
        r = e3.run('const a = 1;', None, options_text=json.dumps(js))      # JSON text, read as the plugin entry reads it
    finally:
        e3.close() if hasattr(e3, 'close') else None
    v['native'] = {k: r.get(k) for k in ('options_error', 'options_debug')}
    ob = str(v.get('obligation') or '')
    err = 'options_error' in r
    if ob.startswith('a well-typed configuration object is accepted'):
        return err
    if ob.startswith('a non-boolean option given a boolean is rejected'):
        return not err
    if ob.startswith('panic'):
        return 'options_debug' not in r and not err
    dbg = r.get('options_debug') or ''
    field = v.get('field') or (v.get('info') or {}).get('field')
    m = re.search(r'\b%s: ([^,}]*(?:\[[^\]]*\])?)' % re.escape(str(field)), dbg)
    if err or not m:
        return err
    got = m.group(1).strip()
    jn, dflt = DOCUMENTED[field]
    exp = js.get(jn, dflt) if isinstance(dflt, bool) else dflt
    shown = ('true' if exp else 'false') if isinstance(exp, bool) else '[]' if exp == [] else 'None' if exp is None else repr(exp)
    return got != shown


# ---------------------------------------------------------------- kernel C: locality
FEATURES = {
    # option -> predicate on the skeleton spec: does the input use the governed feature?
    'transform_on': lambda frm, sp: any(a in ('on', 'non', 'onobj') or a.startswith('on/') or a.startswith('nativeOn/') for a in sp.get('attrs', [])) or 'sym' in json.dumps(sp),
    'merge_props': lambda frm, sp: _uses_merge(frm, sp),
    'enable_object_slots': lambda frm, sp: frm == 'c03' and len(sp.get('kids', [])) >= 1 and _sole_ident_or_call(sp),
    'resolve_type': lambda frm, sp: False,
}
SRC = c12.SRC


def _uses_merge(frm, sp):
    at = sp.get('attrs', [])
    if frm in ('c04', 'c05'):
        return sp.get('other') in ('sp', 'upd') or sp.get('host') in ('sp', 'spt')
    if any(a.startswith('sp') or a in ('spread', 'spreadO') for a in at):
        return True
    names = [a.split('/')[0] if '/' in a else a for a in at]
    base = {'cls': 'class', 'clsE': 'class', 'clsA': 'class', 'styE': 'style', 'sty': 'style', 'clk': 'onClick', 'clkA': 'onClick', 'vmodel': 'vm', 'vmodelC': 'vm', 'vmodelS': 'vm', 'onUpd': 'vm'}
    names = [base.get(n, n) for n in names]
    if len(set(names)) < len(names):
        return True
    return any(':' in a or a.startswith('sym') for a in at) and len(at) > 1


def _sole_ident_or_call(sp):
    eff = [k for k in sp['kids'] if k not in ('empty', 'cmt', 'blank')]
    return len(eff) == 1 and eff[0] in ('id', 'un', 'call') or any(k.startswith('T') or k in ('nl', 'sp') for k in sp['kids'])


def make_skeleton(spec):
    base = SRC[spec['from']].make_skeleton(spec['spec'])
    opt = spec['option']
    base.opts[opt] = False
    base.variants = [{opt: True}]
    if opt == 'custom_element_patterns':
        base.opts.pop(opt)
        base.variants = [{'custom_element_patterns': ['^never-matches-']}]
    base.sid = 'c14/%s/%s' % (opt, base.sid)
    base.meta['family'] = 'c14/' + opt
    return base


def extra_constraints(skel):
    fam = re.match(r'c14/\w+/(c\d+)', skel.sid)
    m = SRC.get(fam.group(1)) if fam else None
    if m is None:
        for k, mm in SRC.items():
            if skel.sid.split('/', 2)[2].startswith(k) or skel.sid.split('/', 2)[2].startswith('kids'):
                m = mm if not skel.sid.split('/', 2)[2].startswith('kids') else c03
    return m.extra_constraints(skel) if m is not None and hasattr(m, 'extra_constraints') else []


def attr_names(el):
    out = []
    for a in el.get('opening').get('attrs'):
        if a.variant == 'SpreadElement':
            out.append(None)
        else:
            n = denote.attr_name(a.fields[0])
            out.append(n.py() if n.is_concrete() else '?')
    return out


def uses_feature(env, opt):
    """does the input module use the feature the option governs? (read off the input AST)"""
    els = [deref(e) for e in astio.find_all(env.pre, 'JSXElement')]
    mv = denote.ModuleView(env.post)
    from . import children
    for el in els:
        names = attr_names(el)
        if opt == 'transform_on' and any(n in ('on', 'nativeOn', '?') for n in names):
            return True
        if opt == 'merge_props':
            plain = [n for n in names if n is not None]
            eff = list(plain)
            if any(n is None for n in names) or '?' in plain:
                return True
            if any(re.match(r'^(v-models?|vModels?)\b', n) for n in plain):
                eff += ['onUpdate:modelValue', 'modelValue']
                if any(re.match(r'^(v-models|vModels)\b', n) for n in plain):
                    return True
            if len(set(eff)) < len(eff):
                return True
        if opt == 'enable_object_slots':
            kids = [deref(c) for c in el.get('children')]
            eff = []
            for c in kids:
                if c.variant == 'JSXText':
                    if harness_clean(c.fields[0].get('value'), env.ctx):
                        eff.append('text')
                elif c.variant == 'JSXExprContainer':
                    je = c.fields[0].get('expr')
                    if je.variant == 'Expr':
                        e = denote.E(je.fields[0])
                        eff.append('id' if denote.is_expr(e, 'Ident') else 'call' if denote.is_expr(e, 'Call') else 'expr')
                else:
                    eff.append('other')
            if len(eff) == 1 and eff[0] in ('id', 'call'):
                return True
    if opt == 'enable_object_slots' and any(not l.is_concrete() for l in []):
        return True
    return False


def harness_clean(s, ctx=None):
    """does the JSX text survive cleaning? (symbolic text: decided on the path, by the same text rule C02 uses)"""
    from . import textrule
    if s.is_concrete():
        return textrule.py_clean(s.py()) != ''
    if ctx is None:
        return True
    chars, _ = textrule.sym_clean(ctx, s)
    return len(chars) > 0


def oracle(env):
    ctx = env.ctx
    posts = env.extra.get('posts')
    if not posts or len(posts) != 2:
        raise Unsupported('harness: two runs expected')
    opt = None
    for ov in env.extra.get('variants') or []:
        for k in ov:
            opt = k
    if opt in ('transform_on', 'merge_props', 'enable_object_slots') and uses_feature(env, opt):
        return []
    a = posts[0]; b = posts[1]
    return [Obligation('an option does not influence inputs that do not use the feature it governs',
                       denote.expr_eq(ctx, a.fields[0].get('body'), b.fields[0].get('body')), {'variant': env.extra.get('variants')})]


def locality_jobs(tier):
    out = []
    stride = 6 if tier == 'quick' else 1
    for opt in ('transform_on', 'merge_props', 'enable_object_slots', 'resolve_type', 'custom_element_patterns'):
        for frm, mod in SRC.items():
            if frm == 'c12':
                continue
            # thorough: every quick-tier skeleton of the family (quick: every 4th); the families' own thorough lists are far too
            # large to run five more times here
            js = mod.jobs('quick')
            for i, j in enumerate(js):
                sp = j['spec']
                if opt in FEATURES and FEATURES[opt](frm, sp):
                    continue
                if opt == 'custom_element_patterns' and (sp.get('patterns') or str(sp.get('host', '')).startswith('cust') or sp.get('tag') == 'cust' or str(sp.get('tag', '')).startswith('sym')):
                    continue
                if opt == 'enable_object_slots' and any(str(k).startswith('T') for k in sp.get('kids', []) if isinstance(sp.get('kids'), list)):
                    continue
                if i % stride:
                    continue
                out.append({'module': MOD, 'spec': {'from': frm, 'spec': sp, 'option': opt}})
    return out


def classify(v, detail):
    if v.get('kind') == 'panic':
        return 'panic'
    m = re.match(r'c14/(\w+)/', v.get('skeleton', ''))
    return 'locality:%s' % (m.group(1) if m else '?')


def main(argv):
    rep = common.Report(PROP)
    quick = rep.tier == 'quick'
    names = sorted(set(len(v[0]) for v in DOCUMENTED.values()))
    lens1 = sorted(set(names + [1, 5, 9, 12]))
    cfg_jobs = [{'kind': 'defaults'}] + [{'kind': 'map', 'lens': [n]} for n in lens1]
    pairs = list(itertools.combinations_with_replacement([6, 8, 10, 11, 17, 21] if quick else lens1, 2))
    cfg_jobs += [{'kind': 'map', 'lens': list(p)} for p in pairs]
    if not quick:
        cfg_jobs += [{'kind': 'map', 'lens': [8, 10, 11]}, {'kind': 'map', 'lens': [10, 10, 17]}, {'kind': 'map', 'lens': []}]
    cfg_jobs.append({'kind': 'map', 'lens': []})
    res = common.run_jobs(MOD, 'job_config', cfg_jobs)
    res += common.run_jobs(MOD, 'job_patterns', [{'patterns': pl} for pl in PATTERN_LISTS])
    res += common.run_jobs(MOD, 'job_regex_visitor', [{'len': n} for n in ((3,) if quick else (1, 3, 6))])
    for r in res:
        for v in r.pop('violations', []):
            rep.violations.append({'role': 'config:' + str(v.get('obligation') or v.get('field')), 'reproduced': confirm_config(v), 'replay': common.save_replay(PROP, v, {'config.json': json.dumps(v.get('json'))}),
                                   'summary': 'options kernel: %s' % json.dumps(v, default=str)[:300]})
        rep.absorb(r)
    lj = locality_jobs(rep.tier)
    res2 = common.run_jobs('mirsym.checks.elements', 'run_family_job', lj)
    raw = []
    for r in res2:
        raw.extend(r.pop('violations', []))
        rep.absorb(r)
    import importlib
    elements.triage(rep, PROP, importlib.import_module(MOD), raw, classify)
    rep.bounds = {'config_object': 'up to 2 (quick) / 3 (thorough) keys, each a fully symbolic printable-ASCII string of every length a documented key has plus lengths 1,5,9,12; boolean values symbolic',
                  'locality': 'every 6th (quick) / every (thorough) quick-tier skeleton of the C01/C03/C04/C05/C13 spaces that does not use the governed feature, run with the option off and on'}
    rep.assumptions = ['serde_json (text -> MapAccess calls) and the wasm plugin entry are outside: kernel B starts at the serde-derived visitor of Options, which is in the crate MIR',
                       'JSON object keys are pairwise distinct', 'invalid regex rejection lives in the regex crate (outside)']
    rep.notes.append('the JSON-text half of the statement (spellings accepted by serde_json, invalid pattern rejection) is not decided; see DESIGN.md')
    if rep.validation_mismatches:
        rep.inconclusive.append('MIR executor and native build disagree on %d sampled instances' % len(rep.validation_mismatches))
    return common.finish(rep, explanation='kernel A/B: symbolic execution of Options::default and of the serde-derived visitor over symbolic keys; kernel C: relational double runs')


def replay(path):
    import importlib
    w = json.load(open(path + '/witness.json'))
    if 'source' not in w:
        e3 = driver.E3()
        r = e3.run('const a = 1;', w.get('json') or {})
        print(json.dumps({k: v for k, v in r.items() if k in ('options_error', 'code')}))
        return 0
    return elements.replay_dir(PROP, importlib.import_module(MOD), path)
