"""C11 - embedded expressions are evaluated once, in source order, slot content lazily.
The emitted expression is evaluated abstractly in JavaScript order (arguments left to right, object members in order,
function bodies not entered) producing the sequence of user-expression evaluations (tokens, identified by source span);
that trace is compared with the order the statement prescribes."""
import sys, itertools, json, re
import z3
from ..engine import *
from ..values import *
from .. import harness, denote, astio, driver, jsout, world
from ..denote import OracleGap
from ..harness import Leaf, Skeleton
from . import common, elements, c01, c04, c05, children, c10

PROP = 'C11'
MOD = 'mirsym.checks.c11'

ATTRS = {
    'a': 'a={{f1(1)}}', 'b': 'b={{v1.x}}', 'cls1': 'class={{f1(2)}}', 'cls2': 'class={{v2.c}}', 'sty': 'style={{f1(3)}}', 'clk1': 'onClick={{v1.h}}', 'clk2': 'onClick={{f1(4)}}',
    'spI': '{{...f1(5)}}', 'spM': '{{...v3.s}}', 'spO': '{{...{{k: f1(6)}}}}', 'id': 'id="s"', 'triv': 't={{v1}}', 'key': 'key={{f1(7)}}', 'ref': 'ref={{v4.r}}', 'on': 'on={{f1(8)}}',
    'dir': 'v-foo={{f1(9)}}', 'dirA': 'v-foo={{[v1.d, f1(10), ["m"]]}}', 'show': 'v-show={{v2.s}}', 'html': 'v-html={{f1(11)}}', 'model': 'v-model={{v1.m}}', 'modelC': 'v-model={{[v1.m, f1(12)]}}',
    'typC': 'type={{f1(40) ? "checkbox" : "radio"}}', 'typM': 'type={{v2.t ? "checkbox" : "text"}}', 'typD': 'type={{f1(41)}}', 'typT': 'type={{`chec${{v3.k}}`}}', 'typP': 'type={{v3.q ? "password" : "text"}}',
    'clsA': 'class={{[f1(30), v2.d]}}', 'clkA': 'onClick={{[f1(31), v3.g]}}', 'styA': 'style={{[v4.t, f1(32)]}}',
    'models': 'v-models={{[[v1.m, "ar"], [v2.n, f1(33)]]}}', 'models1': 'v-models={{[[v3.p]]}}',
    'modelCM': 'v-model={{[v1.m, f1(12), ["x"]]}}', 'modelS': 'v-model={{[v2.n, "arg"]}}', 'slots': 'v-slots={{{{s: f1(13)}}}}', 'arrow': 'cb={{() => f1(14)}}', 'obj': 'o={{{{p: f1(15)}}}}',
}
KIDS = {'opt': '{{f1?.(29)}}', 'optm': '{{v1?.k}}', 'newx': '{{new C1(f1(30))}}', 'call': '{{f1(20)}}', 'mem': '{{v1.k}}', 'call2': '{{f1(21)}}', 'text': 'txt', 'el': '<b x={{f1(22)}}>{{v2.y}}</b>', 'comp': '<C1 p={{f1(23)}}>{{v3.z}}</C1>', 'spread': '{{...f1(24)}}',
        'id': '{{v1}}', 'arrow': '{{() => f1(25)}}', 'cond': '{{v1 ? f1(26) : f1(27)}}', 'frag': '<>{{f1(28)}}</>'}
HOSTS = {'div': 'div', 'input': 'input', 'Foo': 'Foo', 'C1': 'C1', 'mem': 'v4.Cmp', 'memtag': 'v4.section', 'KeepAlive': 'KeepAlive'}


def make_skeleton(spec):
    host = HOSTS[spec['host']]
    attrs = ' '.join(ATTRS[a] for a in spec.get('attrs', []))
    kids = ''.join(KIDS[k] for k in spec.get('kids', []))
    src = c10.PRELUDE10 + 'const _0 = <%s %s>%s</%s>;\n' % (host, attrs, kids, host)
    opts = {'merge_props': 'sym', 'optimize': 'sym', 'enable_object_slots': 'sym', 'transform_on': 'sym'}
    return Skeleton('c11#%s|%s|%s' % (spec['host'], ','.join(spec.get('attrs', [])), ','.join(spec.get('kids', []))), src, [], opts, meta={'family': 'c11'})


# ------------------------------------------------------------------ tokens and traces
def span_of(e):
    e = deref(e)
    if isinstance(e, Adt) and e.ty == 'Expr' and e.fields and isinstance(deref(e.fields[0]), Adt):
        inner = deref(e.fields[0])
        if inner.names and 'span' in inner.names:
            sp = inner.get('span')
            return (sp.fields[0], sp.fields[1])
    return None


def trivial(e):
    e = deref(e)
    return denote.is_expr(e, 'Ident') or denote.is_expr(e, 'Lit') or denote.is_expr(e, 'This')


def toks(e):
    """ordered token ids of a user expression: object / array literals are transparent containers, everything else non-trivial is one token"""
    e = deref(e)
    if isinstance(e, tuple) or not isinstance(e, Adt):
        return []
    if denote.is_expr(e, 'Paren'):
        return toks(e.fields[0].get('expr'))
    if denote.is_expr(e, 'Array'):
        out = []
        for el in e.fields[0].get('elems'):
            if is_some(el):
                out.extend(toks(el.fields[0].get('expr')))
        return out
    if denote.is_expr(e, 'Object'):
        out = []
        for en in denote.lit_entries(e.fields[0]):
            if en[0] == 'spread':
                out.extend(toks(en[1]))
            else:
                if isinstance(en[1], tuple) and en[1][0] == 'computed':
                    out.extend(toks(en[1][1]))
                if not isinstance(en[2], tuple):
                    out.extend(toks(en[2]))
        return out
    t = tok(e)
    return [t] if t is not None else []


def tok(e):
    """token id of a user expression (None for trivial ones, literal containers and generated nodes)"""
    e = deref(e)
    if not isinstance(e, Adt) or e.ty != 'Expr' or trivial(e) or e.variant in ('Object', 'Array', 'Paren'):
        return None
    sp = span_of(e)
    if sp is None or sp == (0, 0):
        return None
    return sp


class Trace:
    def __init__(self):
        self.eager = []
        self.thunks = []     # list of traces (lists) of generated function bodies, in evaluation order of their creation

    def run(self, e, out=None):
        out = self.eager if out is None else out
        e = deref(e)
        if isinstance(e, tuple):
            return
        if not isinstance(e, Adt):
            return
        if e.ty == 'Expr':
            t = tok(e)
            if t is not None:
                out.append(t)           # a user expression: one evaluation, not entered
                return
            v = e.variant
            x = e.fields[0]
            if v in ('Ident', 'Lit', 'This'):
                return
            if v == 'Paren':
                return self.run(x.get('expr'), out)
            if v == 'Call':
                c = x.get('callee')
                if c.variant == 'Expr':
                    self.run(c.fields[0], out)
                for a in x.get('args'):
                    self.run(a.get('expr'), out)
                return
            if v == 'Array':
                for el in x.get('elems'):
                    if is_some(el):
                        self.run(el.fields[0].get('expr'), out)
                return
            if v == 'Object':
                for p in x.get('props'):
                    if p.variant == 'Spread':
                        self.run(p.fields[0].get('expr'), out); continue
                    pr = deref(p.fields[0])
                    if pr.variant == 'KeyValue':
                        k = pr.fields[0].get('key')
                        if k.variant == 'Computed':
                            self.run(k.fields[0].get('expr'), out)
                        self.run(pr.fields[0].get('value'), out)
                return
            if v in ('Arrow', 'Fn'):
                th = []
                self.thunks.append(th)
                body = deref(x.get('body')) if v == 'Arrow' else None
                if v == 'Arrow':
                    if body.variant == 'Expr':
                        self.run(body.fields[0], th)
                    else:
                        for st in body.fields[0].get('stmts'):
                            self._stmt(st, th)
                else:
                    b = deref(x.get('function')).get('body')
                    if is_some(b):
                        for st in b.fields[0].get('stmts'):
                            self._stmt(st, th)
                return
            if v == 'Cond':
                self.run(x.get('test'), out)
                # the emitted conditional chooses between a value and a slots object; both arms are entered (their user tokens,
                # if any, would be evaluated on one of the two paths)
                self.run(x.get('cons'), out); self.run(x.get('alt'), out)
                return
            if v == 'Assign':
                self.run(x.get('right'), out)
                return
            if v == 'Bin':
                self.run(x.get('left'), out); self.run(x.get('right'), out); return
            if v == 'Unary':
                self.run(x.get('arg'), out); return
            if v == 'Member':
                self.run(x.get('obj'), out)
                pr = x.get('prop')
                if pr.variant == 'Computed':
                    self.run(pr.fields[0].get('expr'), out)
                return
            if v == 'Seq':
                for y in x.get('exprs'):
                    self.run(y, out)
                return
            if v == 'JSXMember':
                return
            if v == 'Tpl':
                for y in x.get('exprs'):
                    self.run(y, out)
                return
            raise OracleGap('emitted form ' + str(v))

    def _stmt(self, st, out):
        st = deref(st)
        if st.variant == 'Return' and is_some(st.fields[0].get('arg')):
            self.run(st.fields[0].get('arg').fields[0], out)
        elif st.variant == 'Expr':
            self.run(st.fields[0].get('expr'), out)


# ------------------------------------------------------------------ what the statement prescribes, read off the input element
def container_tokens(env, jel, mv, acc):
    """acc: dict with lists 'props' (ordered plain attribute / spread tokens, grouped as the statement says), 'dirs', 'model_targets',
    'model_args', 'children' (ordered), 'lazy' (children of a component), 'nested' (list of (child index, sub-acc))"""
    ctx = env.ctx
    attrs = jel.get('opening').get('attrs')
    name = jel.get('opening').get('name')
    comp = children.is_component_host(env, name, mv)
    tagtok = None
    if name.variant == 'JSXMemberExpr':
        pass
    plain = []          # (attr name or None for spread, token)
    for a in attrs:
        if a.variant == 'SpreadElement':
            sx = denote.E(a.fields[0].get('expr'))
            plain.append((None, toks(sx), a)); continue
        at = a.fields[0]
        nm = denote.attr_name(at).py()
        first = nm.split(':')[0]
        is_dir = len(first) >= 2 and first[0] == 'v' and (first[1] == '-' or first[1].isupper())
        v = at.get('value')
        ex = None
        if is_some(v):
            av = deref(v.fields[0])
            if av.variant == 'JSXExprContainer' and av.fields[0].get('expr').variant == 'Expr':
                ex = denote.E(av.fields[0].get('expr').fields[0])
            elif av.variant == 'JSXElement':
                ex = ('jsx', deref(av.fields[0]))
        if not is_dir:
            if isinstance(ex, tuple):
                sub = {}
                container_tokens(env, ex[1], mv, sub)
                plain.append((nm, ('nested', sub), a))
            else:
                plain.append((nm, toks(ex) if ex is not None else [], a))
            continue
        dname, arg_s, mods_s = c04.parse_name(ctx, at)
        dn = dname.py()
        shape = c04.value_shape(at)
        if dn in ('model',):
            tgt = shape.get('value')
            if tgt is not None:
                acc.setdefault('model_targets', []).extend(toks(tgt))
            if shape.get('arg') is not None:
                acc.setdefault('model_args', []).extend(toks(shape['arg']))
        elif dn == 'slots':
            # (v-slots on a host that is not a component has no meaning the statement could prescribe)
            if comp and ex is not None and not isinstance(ex, tuple):
                acc.setdefault('dirs', []).extend(toks(ex))
        elif dn in ('html', 'text'):
            val = shape.get('value')
            if val is not None:
                plain.append((('innerHTML' if dn == 'html' else 'textContent'), toks(val), a))
        else:
            for part in (shape.get('value'), shape.get('arg')):
                if part is not None:
                    acc.setdefault('dirs', []).extend(toks(part))
    acc['plain'] = plain
    acc['component'] = comp
    kids = []
    for ch in jel.get('children'):
        ch = deref(ch)
        if ch.variant == 'JSXExprContainer' and ch.fields[0].get('expr').variant == 'Expr':
            kids.extend(toks(denote.E(ch.fields[0].get('expr').fields[0])))
        elif ch.variant == 'JSXSpreadChild':
            kids.extend(toks(ch.fields[0].get('expr')))
        elif ch.variant == 'JSXElement':
            sub = {}
            container_tokens(env, deref(ch.fields[0]), mv, sub)
            kids.append(('nested', sub))
        elif ch.variant == 'JSXFragment':
            sub = {'plain': [], 'component': False, 'kids': []}
            fk = []
            for c2 in ch.fields[0].get('children'):
                c2 = deref(c2)
                if c2.variant == 'JSXExprContainer' and c2.fields[0].get('expr').variant == 'Expr':
                    fk.extend(toks(denote.E(c2.fields[0].get('expr').fields[0])))
            sub['kids'] = fk
            kids.append(('nested', sub))
    acc['kids'] = [k for k in kids if k is not None]
    return acc


def expected_prop_order(ctx, acc, merge):
    """plain attribute / spread tokens of one element in the order the statement prescribes"""
    plain = acc['plain']
    order = []
    # runs are delimited by spreads; inside a run (mergeProps on) a repeated class/style/listener moves to its first occurrence
    run = []

    def flush():
        if not run:
            return
        if merge:
            seen = {}
            pos = []
            for i, (nm, t) in enumerate(run):
                mergeable = nm in ('class', 'style') or (nm is not None and len(nm) > 2 and nm.startswith('on'))
                if mergeable and nm in seen:
                    pos.append((seen[nm], i, t))
                else:
                    seen.setdefault(nm, i)
                    pos.append((i, i, t))
            pos.sort(key=lambda x: (x[0], x[1]))
            order.extend(t for _, _, t in pos)
        else:
            order.extend(t for _, t in run)
        del run[:]
    for nm, t, a in plain:
        if nm is None:
            flush()
            order.append(t)
        else:
            run.append((nm, t))
    flush()
    out = []
    for t in order:
        if is_nested(t):
            out.extend(flat_eager(ctx, t[1], merge))
        elif isinstance(t, list):
            out.extend(t)
        elif t is not None:
            out.append(t)
    return out


def flat_eager(ctx, acc, merge):
    """all tokens an element evaluates eagerly, in prescribed order (props, then children of non-components; directive tokens are
    returned separately by the caller)"""
    out = expected_prop_order(ctx, acc, merge)
    if not acc.get('component'):
        for k in acc['kids']:
            if is_nested(k):
                out.extend(flat_eager(ctx, k[1], merge))
                out.extend(all_side(k[1]))
            else:
                out.append(k)
    return out


def all_side(acc):
    return list(acc.get('dirs', [])) + list(acc.get('model_targets', [])) + list(acc.get('model_args', []))


def lazy_tokens(acc):
    out = []
    if acc.get('component'):
        for k in acc['kids']:
            if is_nested(k):
                out.extend(everything(k[1]))
            else:
                out.append(k)
    else:
        for k in acc['kids']:
            if is_nested(k):
                out.extend(lazy_tokens(k[1]))
    for nm, t, a in acc['plain']:
        if is_nested(t):
            out.extend(lazy_tokens(t[1]))
    return out


def everything(acc):
    out = [x for nm, t, a in acc['plain'] if isinstance(t, list) for x in t] + all_side(acc)
    for nm, t, a in acc['plain']:
        if is_nested(t):
            out.extend(everything(t[1]))
    for k in acc['kids']:
        if isinstance(k, tuple) and k[0] == 'nested':
            out.extend(everything(k[1]))
        else:
            out.append(k)
    return out


def is_nested(t):
    return isinstance(t, tuple) and len(t) == 2 and t[0] == 'nested'


def is_subsequence(small, big):
    it = iter(big)
    return all(any(x == y for y in it) for x in small)


def oracle(env):
    ctx = env.ctx
    el = elements.find_input_element(env.pre)
    out = jsout.find_decl_init(env.post, '_0')
    if el is None or out is None:
        raise Unsupported('harness: element not found')
    jel = deref(el.fields[0])
    mv = denote.ModuleView(env.post)
    merge = ctx.decide(env.opts.get('merge_props', True))
    eos = ctx.decide(env.opts.get('enable_object_slots', True))
    try:
        acc = container_tokens(env, jel, mv, {})
        tr = Trace()
        tr.run(out)
    except OracleGap as g:
        raise Unsupported('oracle gap: %s' % g)
    eager = tr.eager
    thunk_all = [t for th in tr.thunks for t in th]
    obs = []
    exp_eager = flat_eager(ctx, acc, merge)
    side = all_side(acc)
    lazy = lazy_tokens(acc)
    sole_call = False
    if acc.get('component') and len([c for c in jel.get('children') if deref(c).variant in ('JSXExprContainer', 'JSXElement', 'JSXFragment', 'JSXSpreadChild')]) == 1 and len(acc['kids']) == 1 and not is_nested(acc['kids'][0]):
        # a sole call child of a component is evaluated once, eagerly, when object slots are enabled (C03)
        kid = [deref(c) for c in jel.get('children') if deref(c).variant == 'JSXExprContainer']
        if kid and denote.is_expr(denote.E(kid[0].fields[0].get('expr').fields[0]), 'Call') and eos:
            sole_call = True
    sole_slot_value = False
    if acc.get('component') and len([c for c in jel.get('children') if deref(c).variant != 'JSXText']) == 1:
        kid = [deref(c) for c in jel.get('children') if deref(c).variant == 'JSXExprContainer']
        if kid:
            ke = denote.E(kid[0].fields[0].get('expr').fields[0])
            if denote.is_expr(ke, 'Fn') or denote.is_expr(ke, 'Arrow') or denote.is_expr(ke, 'Object'):
                sole_slot_value = True
    margs = acc.get('model_args', [])
    # (1) evaluated exactly once per evaluation of the JSX expression
    for t in exp_eager + [s for s in side if s not in margs]:
        n = eager.count(t)
        obs.append(Obligation('an embedded expression is evaluated exactly once', n == 1, {'token': list(t), 'times': n, 'lazy_times': thunk_all.count(t)}))
    for t in margs:
        n = eager.count(t)
        obs.append(Obligation('a computed v-model argument is evaluated once per generated prop key', 1 <= n <= 3, {'token': list(t), 'times': n}))
    # (2) plain attributes and spreads in source order, before children, children in source order
    got_order = [t for t in eager if t in exp_eager]
    obs.append(Obligation('attribute and spread expressions run in source order (repeated class/style/listener at its first occurrence) and before the child expressions, which run in source order',
                          got_order == exp_eager, {'expected': [list(t) for t in exp_eager], 'got': [list(t) for t in got_order]}))
    # (3) children of a component only inside slot functions
    for t in lazy:
        if sole_slot_value:
            continue            # a sole function child is the slot itself, a sole object literal the slots object (C03)
        if sole_call:
            obs.append(Obligation('a sole call child is evaluated exactly once', eager.count(t) + thunk_all.count(t) == 1, {'token': list(t), 'eager': eager.count(t), 'lazy': thunk_all.count(t)}))
        else:
            obs.append(Obligation('children of a component are evaluated only when the slot function is invoked, never at vnode creation',
                                  eager.count(t) == 0 and thunk_all.count(t) == 1, {'token': list(t), 'eager': eager.count(t), 'lazy': thunk_all.count(t)}))
    # (4) nothing else of the user's is evaluated: a piece of an embedded expression (the test of a conditional, the object of a
    # member access) copied out of it would run a second time, away from its place
    known = set(exp_eager) | set(side) | set(lazy) | set(everything(acc))
    def inside(t):
        return [k for k in known if k != t and k[0] <= t[0] and t[1] <= k[1]]
    for t in sorted(set(eager + thunk_all)):
        enc = inside(t) if t not in known else []
        if enc:
            obs.append(Obligation('no part of an embedded expression is evaluated on its own, outside that expression', False,
                                  {'token': list(t), 'part_of': [list(k) for k in enc[:1]], 'eager': eager.count(t), 'lazy': thunk_all.count(t)}))
    return obs


def jobs(tier):
    out = []
    plain = ['a', 'b', 'cls1', 'cls2', 'clsA', 'clkA', 'styA', 'sty', 'clk1', 'clk2', 'spI', 'spM', 'spO', 'id', 'triv', 'key', 'ref', 'on', 'arrow', 'obj']
    dirs = ['dir', 'dirA', 'show', 'html', 'model', 'modelC', 'modelCM', 'modelS', 'models', 'models1', 'slots']
    for h in ('div', 'Foo'):
        for a in plain + dirs:
            out.append({'host': h, 'attrs': [a], 'kids': ['call']})
        pal = plain if tier != 'quick' else ['a', 'cls1', 'cls2', 'clsA', 'clkA', 'clk1', 'clk2', 'spI', 'spO', 'key', 'on', 'id']
        for a, b in itertools.permutations(pal, 2):
            out.append({'host': h, 'attrs': [a, b], 'kids': ['mem']})
        for tr in itertools.permutations(['cls1', 'a', 'cls2', 'spI', 'clk1', 'clk2'], 3):
            if tier == 'quick' and common.stable_hash(tr) % 3:
                continue
            out.append({'host': h, 'attrs': list(tr), 'kids': []})
        for tr in itertools.permutations(['cls1', 'clsA', 'clk1', 'clkA', 'sty', 'styA', 'a'], 3):
            if len(set(x[:3] for x in tr)) == 3 or (tier == 'quick' and common.stable_hash(tr) % 4):
                continue        # only triples that repeat a mergeable name
            out.append({'host': h, 'attrs': list(tr), 'kids': []})
        for d in dirs:
            for a in ('a', 'spI', 'cls1'):
                out.append({'host': h if d not in ('model', 'modelC', 'modelCM', 'modelS', 'models', 'models1') or h == 'Foo' else 'input', 'attrs': [a, d, 'b'], 'kids': ['call']})
    # a directive followed by several attributes (whatever rewrites the attribute list must keep the written order)
    for d in ('models', 'models1', 'modelC', 'dir', 'show'):
        for tail in (['a', 'b', 'cls1'], ['spI', 'a', 'b'], ['clk1', 'cls1', 'clk2'], ['a', 'spI', 'b', 'key']):
            out.append({'host': 'Foo', 'attrs': [d] + tail, 'kids': []})
            out.append({'host': 'Foo', 'attrs': ['sty', d] + tail[:3], 'kids': ['call']})
    # <input>: the `type` attribute selects the v-model directive - its value stays one evaluation, in its written place
    for ty in ('typC', 'typM', 'typD', 'typT', 'typP'):
        for m in ('model', 'modelCM'):
            out.append({'host': 'input', 'attrs': [ty, m], 'kids': []})
            out.append({'host': 'input', 'attrs': [m, ty], 'kids': []})
            out.append({'host': 'input', 'attrs': [ty, 'a', m, 'b'], 'kids': []})
        out.append({'host': 'input', 'attrs': ['spI', ty, 'model'], 'kids': []})
    for h in HOSTS:
        for k in KIDS:
            out.append({'host': h, 'attrs': ['a'], 'kids': [k]})
        for k1, k2 in itertools.permutations(['call', 'opt', 'mem', 'el', 'comp', 'text', 'spread', 'id'] if tier == 'quick' else list(KIDS), 2):
            out.append({'host': h, 'attrs': ['a', 'b'], 'kids': [k1, k2]})
    return [{'module': MOD, 'spec': s} for s in out]


def classify(v, detail):
    if v['kind'] == 'panic':
        return 'panic'
    m = re.match(r'c11#([^|]*)\|([^|]*)\|([^|]*)', v['skeleton'])
    h, a, k = m.groups() if m else ('?', '?', '?')
    feats = sorted(set(re.sub(r'\d', '', x) for x in a.split(',') if x))
    return '%s [attrs:%s]' % (v['obligation'][:70], ','.join(feats)[:60])


def main(argv):
    rep = common.Report(PROP)
    js = jobs(rep.tier)
    rep.bounds = {'attributes': sorted(ATTRS), 'children': sorted(KIDS), 'hosts': sorted(HOSTS), 'sequences': 'singles, ordered pairs, ordered triples over 6 mergeable/plain/spread attributes (quick: a third), attribute+directive+attribute, ordered pairs of children',
                  'options': 'mergeProps, optimize, enableObjectSlots, transformOn symbolic'}
    rep.assumptions = ['user expressions are atomic tokens identified by source span; the emitted scaffolding is evaluated in JavaScript order (call arguments and object members left to right, function bodies not entered)',
                       'where directive values sit relative to attributes is not fixed by the statement (only: exactly once)']
    res = common.run_jobs('mirsym.checks.elements', 'run_family_job', js)
    raw = []
    for r in res:
        raw.extend(r.pop('violations', []))
        rep.absorb(r)
    import importlib
    elements.triage(rep, PROP, importlib.import_module(MOD), raw, classify)
    if rep.validation_mismatches:
        rep.inconclusive.append('MIR executor and native build disagree on %d sampled instances' % len(rep.validation_mismatches))
    return common.finish(rep, explanation='whole-module symbolic execution; abstract JavaScript-order evaluation of the emitted expression into a trace of user-expression evaluations')


def replay(path):
    import importlib
    return elements.replay_dir(PROP, importlib.import_module(MOD), path)
