"""C04 - directives reach the runtime with the right definition, value, argument and modifiers."""
import sys, itertools, json
import z3
from ..engine import *
from ..values import *
from .. import harness, denote, astio, driver, jsout, world
from ..denote import OracleGap
from ..harness import Leaf, Skeleton
from . import common, elements, c01
from .elements import PRELUDE, BOUND, find_input_element

PROP = 'C04'
MOD = 'mirsym.checks.c04'

VALUES = {
    'expr': '={{v1}}', 'mem': '={{v1.x}}', 'arr1': '={{[v1]}}', 'arr2': '={{[v1, v2]}}', 'arr2s': '={{[v1, "ar"]}}',
    'arrm': '={{[v1, ["m1", "m2"]]}}', 'arr3': '={{[v1, v2, ["m1"]]}}', 'arr3s': '={{[v1, "ar", ["m1", "m2"]]}}',
    'arrm0': '={{[v1, []]}}', 'call': '={{f1(v2)}}', 'str': '="lit"', 'none': '',
}
OTHERS = {'': '', 'id': 'id="a"', 'cls': 'class={{v3}}', 'show': 'v-show={{v4}}', 'sp': '{{...s1}}', 'clk': 'onClick={{f1}}',
          # a second directive on the same element: the same name in another spelling / with another argument, and another name
          'foo-camel': 'vFoo={{v4}}', 'foo-ns': 'v-foo:z={{v4}}', 'foo-mod': 'v-foo_m9={{[v4, v3]}}', 'show-camel': 'vShow={{v4}}', 'bar': 'v-bar:q_m={{v4}}', 'two': 'v-bar={{v4}} vBaz={{[v3]}}',
          # an attribute whose value is itself an element (lowered while the host's attributes are being walked)
          'elattr': 'icon=<b/>', 'elattr-dir': 'icon=<i v-spin={{v3}}/>', 'elattr-braced': 'icon={{<u v-show={{v4}}/>}}', 'elattr-comp': 'icon=<C1 v-bar={{v3}}>{{v2}}</C1>'}


def make_skeleton(spec):
    leaves = []
    host = spec['host']
    nm = spec['name']
    if nm.startswith('sym'):
        n = int(nm[3:])
        leaves.append(Leaf('D', 'attrname', n))
        dsrc = '{D}'
    elif nm.startswith('ns'):          # ns<n>:<m>  namespaced with symbolic directive name and symbolic arg part
        n, m = nm[2:].split(':')
        leaves.append(Leaf('D', 'attrname', int(n)))
        leaves.append(Leaf('G', 'jsname', int(m)))
        dsrc = '{D}:{G}'
    else:
        dsrc = nm
    dattr = dsrc + VALUES[spec['value']]
    other = OTHERS[spec.get('other', '')]
    pos = spec.get('pos', 'last')
    attrs = (other + ' ' + dattr) if pos == 'last' else (dattr + ' ' + other)
    kids = spec.get('kids', '')
    rest = other
    src = PRELUDE + 'const _0 = <%s %s>%s</%s>;\nconst _1 = <%s %s>%s</%s>;\n' % (host, attrs, kids, host, host, rest, kids, host)
    opts = {'merge_props': 'sym', 'optimize': 'sym'}
    return Skeleton('c04#%s|%s|%s|%s|%s' % (host, nm, spec['value'], spec.get('other', ''), pos), src, leaves, opts,
                    meta={'family': 'c04/' + ('sym' if leaves else nm)})


def extra_constraints(skel):
    cs = []
    for l in skel.leaves:
        if l.name == 'D':
            c0, c1 = l.chars[0], l.chars[1]
            cs.append(c0 == ord('v'))
            cs.append(z3.Or(c1 == ord('-'), z3.And(z3.UGE(c1, 65), z3.ULE(c1, 90))))
            if l.length >= 3:
                # the name proper starts right after the prefix (a second '-' or '_' there leaves the name empty: outside)
                c2 = l.chars[2]
                cs.append(z3.Implies(c1 == ord('-'), z3.And(c2 != ord('-'), c2 != ord('_'))))
            cs.append(l.chars[-1] != ord('_'))
            for i in range(len(l.chars) - 1):
                cs.append(z3.Not(z3.And(l.chars[i] == ord('_'), l.chars[i + 1] == ord('_'))))     # no empty modifier
        if l.name == 'G':
            cs.append(l.chars[0] != ord('_'))
            cs.append(l.chars[-1] != ord('_'))
            for i in range(len(l.chars) - 1):
                cs.append(z3.Not(z3.And(l.chars[i] == ord('_'), l.chars[i + 1] == ord('_'))))
    return cs


# ------------------------------------------------------------------ expected binding, read off the attribute
def split_us(ctx, cs):
    parts = []; cur = []
    for c in cs:
        if ctx.decide(v_eq(c, ord('_'))):
            parts.append(cur); cur = []
        else:
            cur.append(c)
    parts.append(cur)
    return parts


def lower_first(cs):
    if not cs:
        return cs
    c = cs[0]
    lc = (c + 32 if 65 <= c <= 90 else c) if isinstance(c, int) else z3.If(z3.And(z3.UGE(c, 65), z3.ULE(c, 90)), c + 32, c)
    return [lc] + list(cs[1:])


def parse_name(ctx, attr):
    """-> (name SStr, arg SStr|None, modifier SStr list) as the statement defines them"""
    n = attr.get('name')
    if n.variant == 'Ident':
        cs = list(n.fields[0].get('sym').cs)
        argpart = None
    else:
        cs = list(n.fields[0].get('ns').get('sym').cs)
        argpart = list(n.fields[0].get('name').get('sym').cs)
    # prefix: `v-` or `v` (camel form)
    cs = cs[1:]
    if cs and ctx.decide(v_eq(cs[0], ord('-'))):
        cs = cs[1:]
    if argpart is None:
        parts = split_us(ctx, cs)
        name = parts[0]; mods = parts[1:]; arg = None
    else:
        name = cs
        ap = split_us(ctx, argpart)
        arg = SStr(ap[0]); mods = ap[1:]
    return SStr(lower_first(name)), arg, [SStr(m) for m in mods]


def value_shape(attr):
    """-> dict(value=Expr|None, arg=Expr|None, mods=[SStr]|None, kind=...) from the attribute value"""
    v = attr.get('value')
    if not is_some(v):
        return {'kind': 'absent'}
    av = deref(v.fields[0])
    if av.variant == 'Lit':
        return {'kind': 'strlit', 'lit': av.fields[0]}
    if av.variant != 'JSXExprContainer' or av.fields[0].get('expr').variant != 'Expr':
        return {'kind': 'other'}
    ex = denote.E(av.fields[0].get('expr').fields[0])
    if not denote.is_expr(ex, 'Array'):
        return {'kind': 'expr', 'value': ex}
    elems = ex.fields[0].get('elems')

    def plain(i):
        if i < len(elems) and is_some(elems[i]) and not is_some(elems[i].fields[0].get('spread')):
            return denote.E(elems[i].fields[0].get('expr'))
        return None
    out = {'kind': 'array', 'value': plain(0), 'arg': None, 'mods': None, 'n': len(elems)}
    if any((not is_some(e)) or is_some(e.fields[0].get('spread')) for e in elems[:3]) or len(elems) == 0 or len(elems) > 3:
        out['kind'] = 'array-odd'
        return out
    second = plain(1)
    if second is not None:
        if denote.is_expr(second, 'Array'):
            out['mods'] = _str_elems(second)
        else:
            out['arg'] = second
            third = plain(2)
            if third is not None and denote.is_expr(third, 'Array'):
                out['mods'] = _str_elems(third)
    return out


def _str_elems(arr):
    out = []
    for e in arr.fields[0].get('elems'):
        if is_some(e) and not is_some(e.fields[0].get('spread')):
            s = denote.str_lit(e.fields[0].get('expr'))
            if s is not None:
                out.append(s)
    return out


def find_directive_attr(attrs):
    for a in attrs:
        if a.variant == 'JSXAttr':
            n = a.fields[0].get('name')
            s = (n.fields[0].get('sym') if n.variant == 'Ident' else n.fields[0].get('ns').get('sym')).cs
            if len(s) >= 2 and isinstance(s[0], int) and s[0] == ord('v') and (not isinstance(s[1], int) or s[1] == ord('-') or 65 <= s[1] <= 90):
                first = a.fields[0]
                nm = pystr_or_none(n)
                if nm == 'v-show' and len([x for x in attrs if x.variant == 'JSXAttr']) > 1 and a is not attrs[-1] and False:
                    continue
                return first
    return None


def pystr_or_none(n):
    s = n.fields[0].get('sym') if n.variant == 'Ident' else None
    return s.py() if s is not None and s.is_concrete() else None


def set_equal(ctx, a, b):
    """two lists of SStr as sets"""
    def sub(x, y):
        rs = []
        for s in x:
            rs.append(b_or(*[seq(s, t) for t in y]) if y else False)
        return b_and(*rs)
    return b_and(sub(a, b), sub(b, a))


def oracle(env):
    ctx = env.ctx
    obs = []
    el0 = find_input_element(env.pre, '_0')
    out0 = jsout.find_decl_init(env.post, '_0'); out1 = jsout.find_decl_init(env.post, '_1')
    if el0 is None or out0 is None or out1 is None:
        raise Unsupported('harness: element not found')
    jel = deref(el0.fields[0])
    mv = denote.ModuleView(env.post)
    attrs = jel.get('opening').get('attrs')
    # the directive under test is the one that is not in the twin `_1`
    el1 = deref(find_input_element(env.pre, '_1').fields[0])
    n1 = len(el1.get('opening').get('attrs'))
    cands = [a for a in attrs if a.variant == 'JSXAttr']
    twin_names = [denote.attr_name(a.fields[0]) for a in el1.get('opening').get('attrs') if a.variant == 'JSXAttr']
    dattr = None
    for a in cands:
        nm = denote.attr_name(a.fields[0])
        if not any(nm.is_concrete() and t.is_concrete() and nm.py() == t.py() for t in twin_names):
            dattr = a.fields[0]
    if dattr is None:
        raise Unsupported('harness: directive attribute not found')
    name, arg_s, mods_s = parse_name(ctx, dattr)
    for special in ('model', 'models', 'slots'):
        if ctx.decide(seq(name, SStr.of(special))):
            return []          # v-model / v-models / v-slots: C05 / C03
    try:
        v0 = denote.vnode_view(out0, mv); v1 = denote.vnode_view(out1, mv)
    except OracleGap as g:
        raise Unsupported('oracle gap: %s' % g)
    if v0 is None or v1 is None:
        return [Obligation('element becomes a vnode call', False)]
    shape = value_shape(dattr)
    is_html = ctx.decide(seq(name, SStr.of('html')))
    is_text = (not is_html) and ctx.decide(seq(name, SStr.of('text')))
    twin_dirs = len(v1.directives)
    if is_html or is_text:
        key = SStr.of('innerHTML' if is_html else 'textContent')
        obs.append(Obligation('v-html/v-text add no runtime directive', len(v0.directives) == twin_dirs, {'got': len(v0.directives)}))
        g0 = denote.props_groups(v0.props, mv); g1 = denote.props_groups(v1.props, mv)
        if shape['kind'] in ('expr', 'array', 'strlit'):
            want = shape.get('value') if shape['kind'] != 'strlit' else Adt('Expr', 'Lit', [shape['lit']])
            if want is not None:
                t0 = denote.denote_key(ctx, g0, key, True)
                last = t0[0] if t0 else None      # the explicit entry (later spreads may legitimately override it)
                obs.append(Obligation('v-html/v-text set innerHTML/textContent to the given value',
                                      b_and(bool(t0) and not isinstance(last, tuple), denote.expr_eq(ctx, last, want) if (t0 and not isinstance(last, tuple)) else False), {'tokens': len(t0)}))
        # other props untouched
        keys = c01.distinct_keys(ctx, c01.all_keys(g0) + c01.all_keys(g1) + [SStr.of('\x00other')])
        for k in keys:
            if ctx.decide(seq(k, key)):
                continue
            obs.append(Obligation('a directive leaves the other props untouched',
                                  denote.tokens_equal(ctx, denote.denote_key(ctx, g0, k, True), denote.denote_key(ctx, g1, k, True)), {'key': k}))
        obs.append(Obligation('a directive leaves the children untouched', denote.expr_eq(ctx, v0.children, v1.children)))
        return obs
    # ---- runtime directive binding
    before = 0
    for a in attrs:
        if a.variant == 'JSXAttr':
            if a.fields[0] is dattr:
                break
            nm0 = denote.attr_name(a.fields[0])
            if nm0.is_concrete() and __import__('re').match(r'^v(-|[A-Z])', nm0.py()) and not __import__('re').match(r'^v-?(html|text|model|models|slots)\b', nm0.py(), __import__('re').I):
                before += 1          # every other directive attribute written before it has its own binding, in attribute order
    mine = v0.directives[before:before + 1]
    obs.append(Obligation('exactly one runtime directive binding per directive attribute', len(v0.directives) == twin_dirs + 1,
                          {'got': len(v0.directives), 'twin': twin_dirs}))
    if len(v0.directives) != twin_dirs + 1:
        return obs
    b = mine[0]
    # definition
    if ctx.decide(seq(name, SStr.of('show'))):
        tv = denote.tag_view(b[0], mv)
        obs.append(Obligation('v-show binds vShow', tv == ('vue', 'vShow'), {'got': tv[0]}))
    else:
        cv = denote.call_view(b[0])
        okk = False; got_name = None
        if cv is not None and cv[0] is not None and mv.vue_name(cv[0]) == 'resolveDirective' and len(cv[1]) == 1:
            got_name = denote.str_lit(cv[1][0][1])
            okk = seq(got_name, name) if got_name is not None else False
        obs.append(Obligation('directive is resolved under the written name (prefix removed, first letter lower-cased)', okk,
                              {'expected': name, 'got': got_name}))
    # value
    if shape['kind'] in ('expr', 'array') and shape.get('value') is not None:
        obs.append(Obligation('binding value is the attribute expression / first array element',
                              b_and(len(b) >= 2, denote.expr_eq(ctx, b[1], shape['value']) if len(b) >= 2 else False)))
    # modifiers and argument (only where the statement fixes them)
    if shape['kind'] in ('expr', 'array', 'absent', 'strlit'):
        exp_mods = shape.get('mods') if shape.get('mods') is not None else mods_s
        if (shape.get('mods') is not None or (shape['kind'] == 'array' and shape.get('n', 0) >= 2)) and mods_s:
            exp_mods = None      # suffix modifiers next to an array form with argument/list: not fixed by the statement
        exp_arg = None; arg_known = True
        if arg_s is not None and shape.get('arg') is not None:
            arg_known = False
        elif arg_s is not None:
            exp_arg = ('str', arg_s)
        elif shape.get('arg') is not None:
            exp_arg = ('expr', shape['arg'])
        got_arg = b[2] if len(b) >= 3 else None
        got_mods = b[3] if len(b) >= 4 else None
        if exp_mods is not None:
            if len(exp_mods) == 0:
                obs.append(Obligation('no modifiers written, none bound', got_mods is None or _obj_keys(got_mods) == [], {'got': repr(got_mods)[:80]}))
            else:
                keys = _obj_keys(got_mods) if got_mods is not None else None
                obs.append(Obligation('modifiers are exactly the written ones, each true',
                                      b_and(keys is not None, set_equal(ctx, exp_mods, keys) if keys is not None else False, _all_true(got_mods) if keys is not None else False),
                                      {'expected': exp_mods, 'got': keys}))
        if arg_known:
            if exp_arg is None:
                okk = got_arg is None or _is_void0(got_arg)
                obs.append(Obligation('no argument written, none bound', okk, {'got': repr(got_arg)[:120]}))
            elif exp_arg[0] == 'str':
                s = denote.str_lit(got_arg) if got_arg is not None else None
                obs.append(Obligation('argument comes from v-name:arg', b_and(s is not None, seq(s, exp_arg[1]) if s is not None else False), {'expected': exp_arg[1], 'got': s}))
            else:
                obs.append(Obligation('argument is the second array element', b_and(got_arg is not None, denote.expr_eq(ctx, got_arg, exp_arg[1]) if got_arg is not None else False)))
    # frame: other props and children as in the twin without the directive
    g0 = denote.props_groups(v0.props, mv); g1 = denote.props_groups(v1.props, mv)
    keys = c01.distinct_keys(ctx, c01.all_keys(g0) + c01.all_keys(g1) + [SStr.of('\x00other')])
    for k in keys:
        obs.append(Obligation('a directive leaves the other props untouched',
                              denote.tokens_equal(ctx, denote.denote_key(ctx, g0, k, True), denote.denote_key(ctx, g1, k, True)), {'key': k}))
    obs.append(Obligation('a directive leaves the children untouched', denote.expr_eq(ctx, v0.children, v1.children)))
    obs.append(Obligation('a directive leaves the vnode type untouched', denote.expr_eq(ctx, v0.tag, v1.tag)))
    return obs


def spec_pos(env):
    return 'first' if env.skel is not None and env.skel.sid.endswith('|first') else 'last' if env.skel is not None else env.extra.get('pos', 'last')


def _obj_keys(e):
    e = denote.E(e)
    if not denote.is_expr(e, 'Object'):
        return None
    out = []
    for en in denote.lit_entries(e.fields[0]):
        if en[0] != 'kv' or not isinstance(en[1], SStr):
            return None
        out.append(en[1])
    return out


def _all_true(e):
    e = denote.E(e)
    for en in denote.lit_entries(e.fields[0]):
        if not denote.is_true_lit(en[2]):
            return False
    return True


def _is_void0(e):
    e = denote.E(e)
    if denote.is_expr(e, 'Unary') and e.fields[0].get('op').variant == 'Void':
        return True
    if denote.is_expr(e, 'Ident') and denote.pystr(e.fields[0].get('sym')) == 'undefined':
        return True
    return False


# ------------------------------------------------------------------ jobs
def jobs(tier):
    out = []
    hosts = ['div', 'Foo']
    lens = [3, 4, 5, 6] if tier == 'quick' else [3, 4, 5, 6, 7, 8]
    vals_q = ['expr', 'arr1', 'arr2', 'arrm', 'arr3', 'none']
    vals_all = list(VALUES)
    for h in hosts:
        for n in lens:
            for v in (vals_all if tier != 'quick' or n <= 5 else vals_q + ['arr3s', 'str']):
                out.append({'host': h, 'name': 'sym%d' % n, 'value': v})
        for nm in ('ns4:1', 'ns5:3') if tier == 'quick' else ('ns4:1', 'ns4:3', 'ns5:3', 'ns6:4', 'ns5:5'):
            for v in ('expr', 'arr1', 'arr2', 'arrm', 'arr3', 'arr3s', 'none') if tier == 'quick' else list(VALUES):
                out.append({'host': h, 'name': nm, 'value': v})
        for nm in ('v-html', 'v-text', 'vHtml', 'vText', 'v-show', 'vShow'):
            for v in ('expr', 'arr1', 'str', 'call'):
                if nm.lower().endswith('show') and v == 'str':
                    continue
                out.append({'host': h, 'name': nm, 'value': v})
        for o in ('foo-camel', 'foo-ns', 'foo-mod', 'bar', 'two'):
            for pos in ('last', 'first'):
                for nm, v in (('v-foo', 'expr'), ('v-foo:a', 'arr1'), ('vFoo_m1', 'expr')):
                    if nm == 'vFoo_m1' and o == 'foo-camel':
                        nm = 'v-foo_m1'
                    out.append({'host': h, 'name': nm, 'value': v, 'other': o, 'pos': pos})
        for pos in ('last', 'first'):
            out.append({'host': h, 'name': 'v-show', 'value': 'expr', 'other': 'show-camel', 'pos': pos})
        for o in ('elattr', 'elattr-dir', 'elattr-braced', 'elattr-comp'):
            for pos in ('last', 'first'):
                for nm, v in (('v-foo', 'expr'), ('v-show', 'expr'), ('vFoo_m1', 'arr2')):
                    out.append({'host': h, 'name': nm, 'value': v, 'other': o, 'pos': pos})
        for o in ('id', 'cls', 'show', 'sp', 'clk'):
            for pos in ('last', 'first'):
                out.append({'host': h, 'name': 'v-foo_m1', 'value': 'expr', 'other': o, 'pos': pos, 'kids': 't {{v2}}'})
                out.append({'host': h, 'name': 'v-html', 'value': 'expr', 'other': o, 'pos': pos})
                if tier != 'quick':
                    out.append({'host': h, 'name': 'sym4', 'value': 'arr2', 'other': o, 'pos': pos, 'kids': '{{v2}}'})
    return [{'module': MOD, 'spec': s} for s in out]


def classify(v, detail):
    ob = v['obligation']
    if v['kind'] == 'panic':
        return 'panic'
    src = v['source']
    m = __import__('re').search(r'const _0 = <\S+ (?:[^>]*? )?(v[-A-Z][^\s=/>]*)', src)
    nm = m.group(1) if m else ''
    feats = []
    if ':' in nm: feats.append('namespaced')
    if '_' in nm: feats.append('suffix')
    if nm.startswith('v-'):
        feats.append('kebab')
    else:
        feats.append('camel')
    if any(c.isupper() for c in nm[2:]): feats.append('inner-uppercase')
    return ob.split(' (')[0][:60] + ' [' + ','.join(feats) + ']'


def main(argv):
    rep = common.Report(PROP)
    js = jobs(rep.tier)
    rep.bounds = {'directive_attribute_name_length': '3..6 quick / 3..8 thorough (fully symbolic after the v-/vX prefix constraint)',
                  'namespaced': 'name 4..6, argument part 1..5', 'value_shapes': sorted(VALUES), 'hosts': ['div', 'Foo'],
                  'co-occurring': sorted(OTHERS), 'options': 'mergeProps, optimize symbolic'}
    rep.assumptions = ['value of a valueless / string-literal directive and of array forms with holes or spreads is not fixed by the statement (see C07)',
                       'frame condition decided relationally against the same element without the directive, in the same module']
    kani = common.KaniCross(rep, ['is_directive_matches_prefix_rule'], atoms=True)
    res = common.run_jobs('mirsym.checks.elements', 'run_family_job', js)
    kani.collect()
    raw = []
    for r in res:
        raw.extend(r.pop('violations', []))
        rep.absorb(r)
    import importlib
    elements.triage(rep, PROP, importlib.import_module(MOD), raw, classify)
    if rep.validation_mismatches:
        rep.inconclusive.append('MIR executor and native build disagree on %d sampled instances' % len(rep.validation_mismatches))
    return common.finish(rep, explanation='symbolic execution of parse_directive & co. inside whole-module runs; directive binding read back from the emitted withDirectives call')


def replay(path):
    import importlib
    return elements.replay_dir(PROP, importlib.import_module(MOD), path)
