"""C10 - a JSX expression's lowering does not depend on unrelated code around it.
Relational over inputs: module [prefix; S; suffix] and module [S] are executed on one path condition; the lowering of S
(the initialiser of `_0`) must be the same expression up to the numbering of generated identifiers."""
import sys, itertools, json, re
import z3
from ..engine import *
from ..values import *
from .. import harness, denote, astio, driver, jsout, world
from ..harness import Leaf, Skeleton
from . import common, elements
from .elements import PRELUDE

PROP = 'C10'
MOD = 'mirsym.checks.c10'

STMTS = {
    'el': 'const _0 = <div id="a">t</div>;', 'comp-id': 'const _0 = <Foo>{{v1}}</Foo>;', 'comp-call': 'const _0 = <Foo>{{f1()}}</Foo>;', 'comp-kids': 'const _0 = <Foo>a{{v2}}<b/></Foo>;',
    'frag': 'const _0 = <>x{{v1}}</>;', 'Fragment': 'const _0 = <Fragment>x</Fragment>;', '_Fragment': 'const _0 = <_Fragment>{{v1}}</_Fragment>;', 'dir': 'const _0 = <div v-foo={{v1}} v-show={{v2}}/>;',
    'model': 'const _0 = <input v-model={{v1}}/>;', 'spread': 'const _0 = <div {{...s1}} class="c"/>;', 'arrowret': 'const _0 = () => <Foo>{{f1()}}</Foo>;', 'nested': 'const _0 = <Foo><C1>{{v1}}</C1></Foo>;',
    'member-tag': 'const _0 = <v1.Foo>{{v2}}</v1.Foo>;', 'member-tag2': 'const _0 = (u) => <u.Cmp>{{f1()}}</u.Cmp>;',
    'param-tag': 'const _0 = (Foo) => <Foo a={{v1}}/>;', 'local-tag': 'const _0 = function () {{ const Foo = v1; return <Foo>{{v2}}</Foo>; }};', 'destructured-tag': 'const _0 = ({{ Foo, KeepAlive }}) => [<Foo/>, <KeepAlive>{{v1}}</KeepAlive>];',
    'on': 'const _0 = <p id="x" on={{o1}}/>;', 'nativeOn': 'const _0 = <C1 nativeOn={{o1}}>{{v1}}</C1>;', 'on-arrow': 'const _0 = () => <div on={{{{ click: f1 }}}}/>;',
    'comp-id-opt': 'const _0 = <C1>{{v3}}</C1>;', 'assign-self': 'let _0; _0 = <Foo>{{v1}}</Foo>;', 'text': 'const _0 = <p>  a  b </p>;', 'keepalive': 'const _0 = <KeepAlive>{{v1}}</KeepAlive>;',
}
PREFIX = {
    'none': '', 'assign-same': 'v1 = 5;', 'assign-other': 'v2 = 5;', 'assign-member': 'o1.x = v1;', 'assign-in-fn': 'function p() {{ v1 = 1; }}', 'assign-arrow': 'const p = () => (v1 = 2);',
    'assign-op': 'v1 += 1;', 'assign-destructure': '[v1] = [3];', 'jsx-temp': 'const p = <Foo>{{f1()}}</Foo>;', 'jsx-unbound-keepalive': 'const p = <KeepAlive><Foo/></KeepAlive>;', 'jsx-bound-other-scope': 'const p = (Foo) => <Foo/>;', 'jsx-temp-fn': 'function p() {{ return <Foo>{{f1()}}</Foo>; }}',
    'jsx-temp-arrow': 'const p = () => <C1>{{f1()}}</C1>;', 'jsx-helper': 'const p = <Foo>{{v2}}</Foo>;', 'jsx-frag': 'const p = <>y</>;', 'jsx-el': 'const p = <span/>;',
    'import-keepalive-alias': "import {{ KeepAlive as Foo }} from 'vue';", 'import-keepalive-alias2': "import {{ KeepAlive as Cmp, Teleport as C1 }} from 'vue';", 'import-other-alias': "import {{ Transition as Foo }} from 'vue';",
    'import-fragment': "import {{ Fragment }} from 'vue';", 'import-fragment-alias': "import {{ Fragment as _Fragment }} from 'vue';", 'import-cv': "import {{ createVNode as _createVNode }} from 'vue';",
    'user-slot': 'const _slot = 1;', 'user-isSlot': 'function _isSlot() {{ return false }}', 'jsx-assign': 'v1 = <Foo>{{v1}}</Foo>;', 'jsx-assign-other': 'v2 = <Foo>{{v2}}</Foo>;',
    'jsx-dir': 'const p = <div v-show={{v4}}/>;', 'jsx-on': 'const p = <div on={{s1}}/>;', 'jsx-on-fn': 'function p() {{ return <C1 nativeOn={{s1}}/>; }}', 'jsx-on-arrow': 'const p = () => <div on={{s1}} id="a"/>;', 'two-temps': 'const p = <Foo>{{f1()}}</Foo>, q = <Foo>{{f1()}}</Foo>;', 'block': '{{ v1 = 1; const p = <Foo>{{f1()}}</Foo>; }}',
}
PRELUDE10 = 'let C1 = 0, v1 = 0, v2 = 0, v3 = 0, v4 = 0, f1 = () => 0, s1 = {{}}, o1 = {{}};\n'


def make_skeleton(spec):
    s = STMTS[spec['stmt']]
    pre = PREFIX[spec.get('prefix', 'none')]
    suf = PREFIX[spec.get('suffix', 'none')].replace('const p', 'const r').replace('function p', 'function r').replace(' q = ', ' r2 = ')
    imports = ''.join(x + '\n' for x in (pre, suf) if x.startswith('import'))
    pre_c = '' if pre.startswith('import') else pre
    suf_c = '' if suf.startswith('import') else suf
    full = imports + PRELUDE10 + pre_c + '\n' + s + '\n' + suf_c + '\n'
    alone = PRELUDE10 + s + '\n'
    opts = {'optimize': 'sym', 'enable_object_slots': 'sym'}
    if ' on=' in full or 'nativeOn=' in full:
        opts['transform_on'] = 'sym'
    sk = Skeleton('c10#%s|%s|%s' % (spec['stmt'], spec.get('prefix', 'none'), spec.get('suffix', 'none')), full, [], opts, meta={'family': 'c10'})
    sk.alt_templates = [alone]
    return sk


def input_ctxts(program):
    out = set()

    def f(v, p):
        if isinstance(v, Adt) and v.names and 'ctxt' in v.names:
            c = v.get('ctxt')
            if isinstance(c, int):
                out.add(c)
    astio.walk(program, f)
    return out


def renumber(v, mp, user_ctxts=frozenset(), mv=None):
    """structural copy, alpha-normalised: identifiers the transform generated (syntax context not present in the input) are
    renamed by first occurrence - to the vue export they import when they are helper imports - and user contexts renumbered"""
    v = deref(v)
    if isinstance(v, Adt):
        if v.ty == 'Ident' and v.names and isinstance(v.get('ctxt'), int) and v.get('ctxt') not in user_ctxts and v.get('ctxt') != 0:
            key = ('gen', v.get('ctxt'), denote.pystr(v.get('sym')))
            imp = mv.vue_name(v) if mv is not None else None
            if imp is None and mv is not None and mv.is_transform_on(v):
                imp = 'transformOn-helper'      # (an identifier merely spelled like the helper import stays a plain generated name)
            name = ('vue:' + imp) if imp else mp.setdefault(key, 'g%d' % len(mp))
            return Adt('Ident', None, [v.get('span'), -1, SStr.of(name), v.get('optional')], v.names)
        if v.names and 'ctxt' in v.names:
            fs = []
            for n, f in zip(v.names, v.fields):
                if n == 'ctxt' and isinstance(f, int):
                    fs.append(mp.setdefault(('ctx', f), len(mp)) if f not in user_ctxts else f)
                else:
                    fs.append(renumber(f, mp, user_ctxts, mv))
            return Adt(v.ty, v.variant, fs, v.names)
        return Adt(v.ty, v.variant, [renumber(f, mp, user_ctxts, mv) for f in v.fields], v.names)
    if isinstance(v, list):
        return [renumber(x, mp, user_ctxts, mv) for x in v]
    return v


def renumber_users(v, mp):
    v = deref(v)
    if isinstance(v, Adt):
        if v.names and 'ctxt' in v.names:
            fs = []
            for n, f in zip(v.names, v.fields):
                if n == 'ctxt' and isinstance(f, int) and f > 0:
                    fs.append(mp.setdefault(f, len(mp) + 1))
                else:
                    fs.append(renumber_users(f, mp))
            return Adt(v.ty, v.variant, fs, v.names)
        return Adt(v.ty, v.variant, [renumber_users(f, mp) for f in v.fields], v.names)
    if isinstance(v, list):
        return [renumber_users(x, mp) for x in v]
    return v


def lowered(program):
    init = jsout.find_decl_init(program, '_0')
    if init is not None:
        return init
    # `_0 = <...>` assignment form
    hit = []

    def f(v, p):
        if isinstance(v, Adt) and v.ty == 'AssignExpr':
            l = deref(v.get('left'))
            if l.variant == 'Simple' and deref(l.fields[0]).variant == 'Ident' and denote.pystr(deref(l.fields[0]).fields[0].get('id').get('sym')) == '_0':
                hit.append(denote.E(v.get('right')))
    astio.walk(program, f)
    return hit[0] if hit else None


def helper_names(mv, e):
    """map generated identifiers to what they denote (vue import name / helper function), so that `_createVNode` vs a user's own
    import of createVNode under the same local name is seen as the same thing only if it denotes the same binding"""
    return None


def oracle(env):
    ctx = env.ctx
    full = env.post
    alone = (env.extra.get('alt_posts') or [None])[0]
    if alone is None:
        raise Unsupported('harness: alternative run missing')
    a = lowered(full); b = lowered(alone)
    if a is None or b is None:
        raise Unsupported('harness: statement not found')
    mva = denote.ModuleView(full); mvb = denote.ModuleView(alone)
    ra = renumber(a, {}, frozenset(input_ctxts(env.pre)), mva)
    rb = renumber(b, {}, frozenset(input_ctxts(env.extra['alt_pres'][0])), mvb)
    # user contexts may be numbered differently in the two parses (an extra function scope in the prefix): compare them by first occurrence
    ra = renumber_users(ra, {}); rb = renumber_users(rb, {})
    same = denote.expr_eq(ctx, ra, rb)
    info = {}
    if same is False:
        info = {'with_context': astio.canon(a).__repr__()[:0], 'hint': first_difference(a, b)}
    obs = [Obligation('the lowering of a JSX expression is the same with and without unrelated surrounding code', same, info)]
    # temporaries are not shared with the surrounding code: a `let`/`const` the transform declares and the statement uses is used by
    # no other statement (the slot function reads its temporary when it is rendered, long after the statement ran)
    user = frozenset(input_ctxts(env.pre))
    temps = set(); uses_s = set(); uses_other = set()
    body = full.fields[0].get('body')

    def gen_ids(v, into):
        def f(x, p):
            if isinstance(x, Adt) and x.ty == 'Ident' and x.names and isinstance(x.get('ctxt'), int) and x.get('ctxt') not in user and x.get('ctxt') != 0:
                into.add((denote.pystr(x.get('sym')), x.get('ctxt')))
        astio.walk(v, f)
    for item in body:
        it0 = deref(item)
        inner = deref(it0.fields[0]) if it0.ty == 'ModuleItem' else it0
        if inner.ty == 'ModuleDecl' and inner.variant == 'Import':
            continue
        if inner.ty == 'Stmt' and inner.variant == 'Decl' and inner.fields[0].variant == 'Var':
            vd = deref(inner.fields[0].fields[0])
            sp = deref(vd.get('span'))
            if (sp.fields[0], sp.fields[1]) == (0, 0):
                for d in vd.get('decls'):
                    gen_ids(d.get('name'), temps)
                    if is_some(d.get('init')):
                        gen_ids(d.get('init'), uses_other)
                continue
        if inner.ty == 'Stmt' and inner.variant == 'Decl' and inner.fields[0].variant == 'Fn' and (deref(deref(inner.fields[0].fields[0].get('function')).get('span')).fields[0]) == 0:
            continue
        holds_s = []

        def g(x, p):
            if x is a:
                holds_s.append(1)
        astio.walk(inner, g)
        if holds_s:
            gen_ids(a, uses_s)
        else:
            gen_ids(inner, uses_other)
    shared = sorted(t for t in temps if t in uses_s and t in uses_other)
    obs.append(Obligation('a temporary the statement uses is not used by any other statement', not shared, {'shared': [x[0] for x in shared]}))
    # identifiers that look the same must denote the same helper in both modules
    for (sym, ct), name in mva.vue.items():
        pass
    return obs


def first_difference(a, b):
    ca = astio.canon(a); cb = astio.canon(b)
    d = astio.first_diff(ca, cb)
    return str(d)[:300] if d else None


def jobs(tier):
    out = []
    stmts = list(STMTS)
    pres = list(PREFIX)
    related = {('_Fragment', 'import-fragment-alias'), ('Fragment', 'import-fragment')}      # the import binds a name the statement references
    binds = {'import-keepalive-alias': ['Foo'], 'import-other-alias': ['Foo'], 'import-keepalive-alias2': ['Cmp', 'C1']}
    for s in stmts:
        for p in pres:
            if (s, p) in related:
                continue
            if p in binds and s not in ('param-tag', 'local-tag', 'destructured-tag') and any(re.search(r'<%s[\s>/]' % n, STMTS[s]) for n in binds[p]):
                continue        # the import binds the very identifier the statement's tag refers to
            out.append({'stmt': s, 'prefix': p})
            if (s, p) in related:
                continue
            if tier != 'quick' or p in ('assign-same', 'jsx-temp', 'jsx-assign', 'import-fragment-alias', 'jsx-temp-arrow', 'jsx-on'):
                out.append({'stmt': s, 'suffix': p})
    if tier != 'quick':
        for s in ('comp-id', 'comp-call', 'arrowret', '_Fragment'):
            for p, q in itertools.product(['assign-same', 'jsx-temp', 'jsx-assign', 'jsx-frag', 'block'], repeat=2):
                out.append({'stmt': s, 'prefix': p, 'suffix': q})
    return [{'module': MOD, 'spec': s} for s in out]


def classify(v, detail):
    if v['kind'] == 'panic':
        return 'panic'
    m = re.match(r'c10#([^|]*)\|([^|]*)\|([^|]*)', v['skeleton'])
    stmt, pre, suf = m.groups() if m else ('?', '?', '?')
    which = 'prefix' if pre != 'none' else 'suffix'
    d = pre if pre != 'none' else suf
    if stmt == '_Fragment' and ('jsx' in d or 'frag' in d.lower()):
        return 'tag-spelled-like-the-generated-Fragment-import-is-a-fragment-only-after-an-earlier-fragment'
    grp = 'assignment' if d.startswith('assign') or d in ('jsx-assign', 'jsx-assign-other', 'block') else 'fragment-import' if 'fragment' in d.lower() else 'temporary-numbering' if 'temp' in d else d
    return 'lowering of %s depends on %s %s' % ('component-with-identifier-child' if stmt in ('comp-id', 'comp-id-opt', 'assign-self', 'nested', 'keepalive') else stmt, which, grp)


def main(argv):
    rep = common.Report(PROP)
    js = jobs(rep.tier)
    rep.bounds = {'jsx_statements': sorted(STMTS), 'distractors': sorted(PREFIX), 'placement': 'one distractor before (all) / after (quick: 5 kinds, thorough: all) the statement; thorough: pairs (prefix, suffix) for 4 statements',
                  'options': 'optimize, enableObjectSlots symbolic'}
    rep.assumptions = ['generic traversal (swc_ecma_visit) modelled and validated against the native build', 'two lowerings are the same when equal up to the numbering of syntax contexts (generated identifiers)']
    res = common.run_jobs('mirsym.checks.elements', 'run_family_job', js)
    raw = []
    for r in res:
        raw.extend(r.pop('violations', []))
        rep.absorb(r)
    import importlib
    elements.triage(rep, PROP, importlib.import_module(MOD), raw, classify)
    if rep.validation_mismatches:
        rep.inconclusive.append('MIR executor and native build disagree on %d sampled instances' % len(rep.validation_mismatches))
    return common.finish(rep, explanation='relational whole-module symbolic execution: the statement alone vs the statement among distractors')


def replay(path):
    import importlib
    return elements.replay_dir(PROP, importlib.import_module(MOD), path)
