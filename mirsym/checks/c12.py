"""C12 - the optimize option changes hints only, never what is rendered."""
import sys, itertools, json
from ..engine import *
from ..values import *
from .. import harness, denote, astio, driver, jsout, world
from ..denote import OracleGap
from ..harness import Leaf, Skeleton
from ..interp import clone_val
from . import common, elements, c01, c03, c04, c05, c10, c13, children
from .elements import PRELUDE, find_input_element

PROP = 'C12'
MOD = 'mirsym.checks.c12'
SRC = {'c01': c01, 'c03': c03, 'c04': c04, 'c05': c05, 'c13': c13, 'c10': c10}
# statement-level modules (assignments, hoisted temporaries, functions) beyond the single `_0` declaration
MODS = {
    'assign-self-slot': 'v1 = <Foo>{{v1}}</Foo>;', 'assign-other-slot': 'v2 = <Foo>{{v1}}</Foo>;', 'assign-member': 'o1.x = <Foo>{{v1}}</Foo>;',
    'let-assign': 'let a = 1; a = <C1>{{a}}</C1>;', 'assign-in-fn': 'function g() {{ v3 = <Foo>{{v3}}</Foo>; return v3; }}', 'assign-arrow': 'const g = () => (v1 = <Foo>{{v1}}</Foo>);',
    'assign-call-child': 'v1 = <Foo>{{f1()}}</Foo>;', 'assign-el': 'v1 = <div>{{v1}}</div>;', 'assign-nested': 'v1 = <Foo><C1>{{v1}}</C1></Foo>;', 'assign-frag': 'v1 = <><Foo>{{v1}}</Foo></>;',
    'two-assign': 'v1 = <Foo>{{v1}}</Foo>; v2 = <Foo>{{v2}}</Foo>;', 'assign-op': 'v1 ||= <Foo>{{v1}}</Foo>;', 'assign-cond': 'v1 = v2 ? <Foo>{{v1}}</Foo> : <C1>{{v2}}</C1>;',
    # attributes that feed the hint analysis on an element that also has children
    'vhtml-kids': 'const _0 = <div v-html={{v1}}>loading</div>;', 'vtext-kids': 'const _0 = <p v-text={{v1}}><span class="p">x</span></p>;', 'innerhtml-kids': 'const _0 = <div innerHTML={{v1}}>{{v2}}</div>;',
    'textcontent-kids': 'const _0 = <b textContent={{v1}}>t{{v2}}</b>;', 'dyn-attr-kids': 'const _0 = <div id={{v1}} class={{v2}}>{{v2}}<b/></div>;', 'model-kids': 'const _0 = <select v-model={{v1}}><option>a</option></select>;',
    'show-kids': 'const _0 = <div v-show={{v1}}>x{{v2}}</div>;', 'dir-comp-kids': 'const _0 = <Foo v-foo={{v1}} a={{v2}}>{{f1()}}</Foo>;', 'ref-kids': 'const _0 = <div ref={{v1}} key={{v2}}><i/>t</div>;',
    'spread-kids': 'const _0 = <div {{...s1}} id="a">a{{v1}}</div>;', 'on-kids': 'const _0 = <div onClick={{f1}} onInput={{f1}}>{{v1}}</div>;', 'vhtml-comp-kids': 'const _0 = <Foo v-html={{v1}}>a</Foo>;',
    'vslots-kids': 'const _0 = <Foo v-slots={{s1}} a={{v1}}><b/>{{v2}}</Foo>;', 'vhtml-nested': 'const _0 = <ul><li v-html={{v1}}>x</li><li v-text={{v2}}>{{v3}}</li></ul>;',
    'decl-self': 'const z = <Foo>{{z}}</Foo>;', 'param-default': 'function g(p = <Foo>{{v1}}</Foo>) {{ return p; }}', 'class-prop': 'class K {{ m() {{ v1 = <Foo>{{v1}}</Foo>; }} }}',
}


def make_skeleton(spec):
    if spec['from'] == 'mod':
        src = c10.PRELUDE10 + MODS[spec['spec']] + '\n'
        base = Skeleton('mod#' + spec['spec'], src, [], {'enable_object_slots': 'sym'}, meta={'family': 'mod'})
    else:
        base = SRC[spec['from']].make_skeleton(spec['spec'])
        base.alt_templates = []
    base.opts['optimize'] = False
    base.variants = [{'optimize': True}]
    base.sid = 'c12/' + base.sid
    base.meta['family'] = 'c12/' + spec['from']
    return base


def extra_constraints(skel):
    fam = skel.meta['family'].split('/')[1]
    if fam not in SRC:
        return []
    m = SRC[fam]
    return m.extra_constraints(skel) if hasattr(m, 'extra_constraints') else []


def erase_hints(e, mv):
    """copy of an emitted expression with the hint arguments (4th/5th of vnode calls) and `_` slot keys removed"""
    e = deref(e)
    if isinstance(e, Adt):
        if e.ty == 'Expr' and e.variant == 'Call':
            c = e.fields[0]
            args = c.get('args')
            if len(args) > 3 and _is_vnode_callee(c.get('callee'), mv):
                c2 = Adt(c.ty, c.variant, list(c.fields), c.names)
                c2.set('args', args[:3])
                return Adt('Expr', 'Call', [Adt(c2.ty, c2.variant, [erase_hints(f, mv) for f in c2.fields], c2.names)])
        if e.ty == 'ObjectLit':
            props = []
            for p in e.get('props'):
                if p.variant == 'Prop':
                    pr = deref(p.fields[0])
                    if pr.variant == 'KeyValue':
                        k = pr.fields[0].get('key')
                        nm = None
                        if k.variant == 'Ident':
                            nm = denote.pystr(k.fields[0].get('sym'))
                        if nm == '_' and denote.num_lit(pr.fields[0].get('value')) in (1, 2, 1.0, 2.0):
                            continue
                props.append(erase_hints(p, mv))
            out = Adt(e.ty, e.variant, list(e.fields), e.names)
            out.set('props', props)
            return out
        return Adt(e.ty, e.variant, [erase_hints(f, mv) for f in e.fields], e.names)
    if isinstance(e, list):
        return [erase_hints(x, mv) for x in e]
    return e


def _is_vnode_callee(callee, mv):
    if callee.variant != 'Expr':
        return False
    ce = denote.E(callee.fields[0])
    if not denote.is_expr(ce, 'Ident'):
        return False
    n = mv.vue_name(ce.fields[0])
    return n in (None, 'createVNode')


def module_items(post):
    body = deref(deref(post).fields[0]).get('body')
    return [it for it in body if not (deref(it).variant == 'ModuleDecl' and deref(deref(it).fields[0]).variant == 'Import')]


def oracle(env):
    ctx = env.ctx
    posts = env.extra.get('posts')
    if not posts or len(posts) != 2:
        raise Unsupported('harness: two runs expected')
    obs = []
    diags = env.extra.get('diags_all')
    if diags:
        obs.append(Obligation('same diagnostics with optimize on and off', len(diags[0]) == len(diags[1]), {'off': diags[0], 'on': diags[1]}))
    for name in ('_0', '_1'):
        a = jsout.find_decl_init(posts[0], name); b = jsout.find_decl_init(posts[1], name)
        if a is None and b is None:
            continue
        if a is None or b is None:
            obs.append(Obligation('same statements with optimize on and off', False)); continue
        mva = denote.ModuleView(posts[0]); mvb = denote.ModuleView(posts[1])
        ea = erase_hints(a, mva); eb = erase_hints(b, mvb)
        obs.append(Obligation('optimize=true and optimize=false render the same vnodes once hint arguments and `_` keys are erased',
                              denote.expr_eq(ctx, ea, eb), {'which': name}))
        # with optimize off there are no hints at all
        obs.append(Obligation('without optimize no hint arguments or `_` keys are emitted', denote.expr_eq(ctx, a, erase_hints(a, mva)), {'which': name}))
    # the whole module: every statement other than the imports (assignments, hoisted temporaries, helper functions)
    ia_, ib_ = module_items(posts[0]), module_items(posts[1])
    if len(ia_) != len(ib_):
        obs.append(Obligation('the module has the same statements with optimize on and off', False, {'off': len(ia_), 'on': len(ib_)}))
    else:
        users = frozenset(c10.input_ctxts(env.pre))
        mva = denote.ModuleView(posts[0]); mvb = denote.ModuleView(posts[1])
        ra = c10.renumber(erase_hints(ia_, mva), {}, users, mva); rb = c10.renumber(erase_hints(ib_, mvb), {}, users, mvb)
        same = denote.expr_eq(ctx, ra, rb)
        obs.append(Obligation('every statement of the module is the same with optimize on and off once hints are erased', same,
                              {} if same is not False else {'hint': c10.first_difference(ia_, ib_)}))
    # helper declarations / imports other than the vnode factory stay the same
    ia = sorted((k[0] or '') + '=' + (v or '') for k, v in denote.ModuleView(posts[0]).vue.items())
    ib = sorted((k[0] or '') + '=' + (v or '') for k, v in denote.ModuleView(posts[1]).vue.items())
    obs.append(Obligation('the same helpers are imported with optimize on and off', ia == ib, {'off': ia, 'on': ib}))
    return obs


def jobs(tier):
    out = []
    def add(frm, js, every=1):
        for i, j in enumerate(js):
            if i % every == 0:
                out.append({'module': MOD, 'spec': {'from': frm, 'spec': j['spec']}})
    q = tier == 'quick'
    add('c01', c01.jobs(tier), 6 if q else 2)
    add('c03', c03.jobs(tier), 3 if q else 1)
    add('c04', c04.jobs(tier), 5 if q else 2)
    add('c05', c05.jobs(tier), 5 if q else 2)
    add('c13', c13.jobs(tier), 6 if q else 2)
    for m in MODS:
        out.append({'module': MOD, 'spec': {'from': 'mod', 'spec': m}})
    add('c10', [j for j in c10.jobs(tier) if j['spec'].get('prefix') in ('jsx-assign', 'jsx-assign-other', 'block', 'two-temps', 'jsx-temp-fn', 'assign-same')], 2 if q else 1)
    # nested trees: slot_flag_stack push / pop / fill
    for kids in c13.NEST:
        for h in ('Foo', 'C1', 'div'):
            out.append({'module': MOD, 'spec': {'from': 'c13', 'spec': {'host': h, 'attrs': [], 'kids': kids}}})
    return out


def classify(v, detail):
    if v['kind'] == 'panic':
        return 'panic'
    return v['obligation'][:80] + ' [' + v['skeleton'].split('#')[0] + ']'


def main(argv):
    rep = common.Report(PROP)
    js = jobs(rep.tier)
    rep.bounds = {'inputs': 'a stride sample (quick) / half (thorough) of the C01, C03, C04, C05 and C13 skeleton spaces plus all nested component trees; each executed twice on the same path condition: optimize=false and optimize=true, other options symbolic and shared'}
    rep.assumptions = ['hint arguments = 4th/5th argument of a vnode call; `_` keys with value 1|2 of object literals']
    res = common.run_jobs('mirsym.checks.elements', 'run_family_job', js)
    raw = []
    for r in res:
        raw.extend(r.pop('violations', []))
        rep.absorb(r)
    import importlib
    elements.triage(rep, PROP, importlib.import_module(MOD), raw, classify)
    if rep.validation_mismatches:
        rep.inconclusive.append('MIR executor and native build disagree on %d sampled instances' % len(rep.validation_mismatches))
    return common.finish(rep, explanation='relational check: two symbolic executions of the same module on one path condition, outputs compared after erasing hints')


def replay(path):
    import importlib
    w = json.load(open(path + '/witness.json'))
    return elements.replay_dir(PROP, importlib.import_module(MOD), path)
