"""C17 - inferred runtime prop types accept every value of the declared TS type."""
import sys, itertools, json, re
import z3
from ..engine import *
from ..values import *
from .. import harness, denote, astio, driver, jsout, world
from ..denote import OracleGap
from ..harness import Leaf, Skeleton
from . import common, elements

PROP = 'C17'
MOD = 'mirsym.checks.c17'

KINDS = ['string', 'number', 'boolean', 'bigint', 'symbol', 'object', 'array', 'function', 'null', 'Date', 'Map', 'Set', 'WeakMap', 'WeakSet', 'Promise', 'Error', 'RegExp']
ALL = set(KINDS)
OBJECTS = {'object', 'array', 'Date', 'Map', 'Set', 'WeakMap', 'WeakSet', 'Promise', 'Error', 'RegExp'}
BUILTIN_CLASSES = ['Date', 'Map', 'Set', 'WeakMap', 'WeakSet', 'Promise', 'Error', 'RegExp']

ATOMS = ['string', 'number', 'boolean', 'object', 'bigint', 'symbol', 'null', 'undefined', 'any', 'unknown', 'void', 'never',
         '"lit"', '`tpl`', '1', '-1', 'true', 'false', '1n', '() => void', 'new () => Foo0', 'string[]', '[string, number]', 'readonly number[]',
         '{ a: string }', '{}', '{ (): void }', '{ new (): X0 }', '{ a: 1; (): void }', '{ [k: string]: number }',
         'Date', 'Map<string, number>', 'Set<number>', 'WeakMap<object, any>', 'WeakSet<object>', 'Promise<string>', 'Error', 'RegExp', 'Array<string>', 'Function', 'Object',
         'Partial<Rec0>', 'Required<Rec0>', 'Readonly<Rec0>', 'Record<string, number>', 'Pick<Rec0, "a">', 'Omit<Rec0, "a">', 'InstanceType<typeof Cls0>',
         'Uppercase<"a">', 'Lowercase<"A">', 'Capitalize<"a">', 'Uncapitalize<"A">', 'Parameters<typeof fn0>', 'ConstructorParameters<typeof Cls0>',
         'NonNullable<string | null>', 'NonNullable<null>', 'NonNullable<Al0 | undefined>', 'Exclude<string | number, number>', 'Extract<string | number, number>', 'Extract<string | Date, object>', 'Extract<number | string[], {}>', 'Extract<string | number, unknown>',
         'Extract<(() => void) | string, object>', '{ (v: string): boolean } & Rec0', 'Rec0 & { new (): object }', 'If1 & { a?: string }', '(() => void) & { once?: boolean }', '{ a: string } & { b: number }', 'Rec0 & If0',
         'string & {}', '{ __brand: "x" } & number', 'Extract<Al2, object>', 'Exclude<string | Date | null, null>', 'Exclude<Al0, string>', 'OmitThisParameter<() => void>',
         'Al0', 'Al1', 'Al2', 'If0', 'If1', 'If2', 'Rec0', 'Cls0', 'Imported0', 'Rec0["a"]', 'Rec0["a" | "b"]', 'Rec0[string]', 'If0["m"]', 'string[][number]', '[string, number][0]', '[string, boolean][number]',
         'Array<Date>[number]', 'Al3["x"]', 'If0[string]', 'If0["a" | "m"]', 'Al4["go"]', 'Al4[Keys0]', 'If3', 'If3["a"]', 'If4', '[string, ...number[]][number]', '[string, ...Date[]][0]', 'Tup0[1]', 'Tup0[number]',
         'Arr0[number]', '{ a: string; f(): void }["f"]', 'If5', '(string)', '(string | number)[]', 'keyof Rec0', 'typeof fn0']
DECLS = '''type Al0 = string | number;
type Al1 = Al0 | null;
type Al2 = { a: string } | (() => void);
type Al3 = { x: Date; y?: bigint };
interface If0 { a: string; m(): void }
interface If1 { (e: string): void }
interface If2 extends If1 {}
interface Rec0 { a: string; b?: number }
class Cls0 {}
function fn0(a: string) {}
import type { Imported0 } from "./other";
type Al4 = { go(v: string): void; label: string };
type Keys0 = 'go' | 'label';
interface If3 extends Rec0 {}
interface If4 extends If2 {}
interface If5 extends If1 { extra: string }
type Tup0 = [Date, () => void];
type Arr0 = bigint[];
'''


def make_skeleton(spec):
    leaves = []
    props = []
    for i, t in enumerate(spec['types']):
        if re.fullmatch(r'sym\d+', t):
            nm = 'N%d' % i
            leaves.append(Leaf(nm, 'jsname', int(t[3:]), forbid=['Al0', 'Al1', 'Al2', 'Al3', 'If0', 'If1', 'If2', 'Rec0', 'Cls0', 'fn0']))
            props.append('p%d: {%s}' % (i, nm))
        elif re.fullmatch(r'gen\d+', t):      # generic reference with a symbolic name: N<string | null>
            nm = 'N%d' % i
            leaves.append(Leaf(nm, 'jsname', int(t[3:]), forbid=['Al0', 'Al1', 'Al2', 'Al3', 'If0', 'If1', 'If2', 'Rec0', 'Cls0', 'fn0']))
            props.append('p%d: {%s}<string | null, null>' % (i, nm))
        else:
            props.append('p%d%s: %s' % (i, '?' if spec.get('optional') else '', t.replace('{', '{{').replace('}', '}}')))
    ptype = '{{ %s }}' % '; '.join(props)
    if spec.get('redecl'):
        # the same keys declared a second time by another member of a union of object types:
        # a value of the prop is a value of either declaration
        esc = lambda t: t.replace('{', '{{').replace('}', '}}')
        first = ['p%d%s: %s' % (i, '?' if o1 else '', esc(a)) for i, (a, o1, b, o2) in enumerate(spec['redecl'])]
        second = ['p%d%s: %s' % (i, '?' if o2 else '', esc(b)) for i, (a, o1, b, o2) in enumerate(spec['redecl'])]
        ptype = '{{ %s }} | {{ %s }}' % ('; '.join(first), '; '.join(second))
    src = "import {{ defineComponent }} from 'vue';\n" + DECLS.replace('{', '{{').replace('}', '}}') + \
          'export default defineComponent((props: %s) => () => null);\n' % ptype
    return Skeleton('c17#' + ('redecl:' + ';'.join('%s%s/%s%s' % (a, '?' if o1 else '', b, '?' if o2 else '') for a, o1, b, o2 in spec['redecl'])[:90] if spec.get('redecl') else '|'.join(spec['types'])[:80]) + ('?' if spec.get('optional') else ''), src, leaves, {'resolve_type': True}, tsx=True, meta={'family': 'c17'})


def extra_constraints(skel):
    cs = []
    for l in skel.leaves:
        # type names: start with a letter
        c = l.chars[0]
        cs.append(z3.Or(z3.And(z3.UGE(c, 65), z3.ULE(c, 90)), z3.And(z3.UGE(c, 97), z3.ULE(c, 122))))
        # TS keywords that are not type references
        for kw in ('any', 'void', 'null', 'never', 'object', 'string', 'number', 'symbol', 'bigint', 'boolean', 'unknown', 'undefined', 'this', 'true', 'false', 'typeof', 'keyof', 'unique',
                   'infer', 'readonly', 'new', 'function', 'import', 'asserts', 'is', 'in', 'out', 'const', 'let', 'var', 'class', 'enum', 'type', 'if', 'do', 'for', 'try', 'case', 'else', 'with',
                   'delete', 'while', 'break', 'super', 'throw', 'yield', 'async', 'await', 'export', 'return', 'switch', 'static', 'default', 'extends', 'finally', 'package', 'private', 'continue',
                   'debugger', 'interface', 'protected', 'public', 'implements', 'instanceof', 'abstract', 'declare', 'module', 'namespace', 'require', 'global', 'intrinsic', 'accessor', 'satisfies', 'as', 'of', 'get', 'set', 'from'):
            if len(kw) == l.length:
                cs.append(z3.Not(z3.And([x == ord(y) for x, y in zip(l.chars, kw)])))
    return cs


# ------------------------------------------------------------------ which JS values inhabit a TS type (under-approximation)
class TypeEnv:
    def __init__(self, env):
        self.env = env
        self.aliases = {}; self.interfaces = {}
        for item in env.pre.fields[0].get('body'):
            d = item
            if d.variant == 'ModuleDecl' and d.fields[0].variant in ('ExportDecl',):
                d = d.fields[0].fields[0].get('decl')
            elif d.variant == 'Stmt' and d.fields[0].variant == 'Decl':
                d = d.fields[0].fields[0]
            else:
                continue
            if d.variant == 'TsTypeAlias':
                a = deref(d.fields[0])
                self.aliases[denote.pystr(a.get('id').get('sym'))] = deref(a.get('type_ann'))
            elif d.variant == 'TsInterface':
                a = deref(d.fields[0])
                self.interfaces.setdefault(denote.pystr(a.get('id').get('sym')), []).append(a)


def kw(t):
    return t.fields[0].get('kind').variant


def inhabitants(te, t, depth=0):
    """set of value kinds that certainly inhabit type t (never more than the real inhabitants)"""
    ctx = te.env.ctx
    t = deref(t)
    if depth > 6:
        return set()
    v = t.variant
    if v == 'TsKeywordType':
        k = kw(t)
        return {'TsStringKeyword': {'string'}, 'TsNumberKeyword': {'number'}, 'TsBooleanKeyword': {'boolean'}, 'TsBigIntKeyword': {'bigint'},
                'TsSymbolKeyword': {'symbol'}, 'TsObjectKeyword': set(OBJECTS), 'TsNullKeyword': {'null'}, 'TsAnyKeyword': set(ALL), 'TsUnknownKeyword': set(ALL)}.get(k, set())
    if v == 'TsLitType':
        l = t.fields[0].get('lit').variant
        return {'Str': {'string'}, 'Tpl': {'string'}, 'Bool': {'boolean'}, 'Number': {'number'}, 'BigInt': {'bigint'}}.get(l, set())
    if v == 'TsFnOrConstructorType':
        return {'function'}
    if v in ('TsArrayType', 'TsTupleType'):
        return {'array'}
    if v == 'TsTypeLit':
        return _members_kind(t.fields[0].get('members'))
    if v == 'TsParenthesizedType' or v == 'TsOptionalType':
        return inhabitants(te, t.fields[0].get('type_ann'), depth + 1)
    if v == 'TsTypeOperator':
        if t.fields[0].get('op').variant == 'ReadOnly':
            return inhabitants(te, t.fields[0].get('type_ann'), depth + 1)
        return set()
    if v == 'TsUnionOrIntersectionType':
        u = t.fields[0]
        parts = [inhabitants(te, x, depth + 1) for x in u.fields[0].get('types')]
        if u.variant == 'TsUnionType':
            out = set()
            for p in parts:
                out |= p
            return out
        # a callable type intersected with object-like types: its values are functions (that carry the extra properties)
        if any(p == {'function'} for p in parts) and all(p == {'function'} or 'object' in p for p in parts):
            return {'function'}
        out = set(ALL)
        for p in parts:
            out &= p
        return out
    if v == 'TsTypeRef':
        r = t.fields[0]
        tn = r.get('type_name')
        if tn.variant != 'Ident':
            return set()
        name = tn.fields[0].get('sym')
        params = []
        if is_some(r.get('type_params')):
            params = deref(r.get('type_params').fields[0]).get('params')

        def isn(s):
            return ctx.decide(seq(name, SStr.of(s)))
        if name.is_concrete():
            nm = name.py()
            if nm in te.aliases:
                return inhabitants(te, te.aliases[nm], depth + 1)
            if nm in te.interfaces:
                ms = _interface_members(te, nm, 0)
                if ms is None:
                    return set()
                return _members_kind(ms)
        for c in BUILTIN_CLASSES:
            if isn(c):
                return {c}
        if isn('Array') or isn('ReadonlyArray'):
            return {'array'}
        if isn('Function'):
            return {'function'}
        if isn('Object'):
            return set(OBJECTS)
        for u in ('Partial', 'Required', 'Readonly', 'Pick', 'Omit'):
            if isn(u):
                base = inhabitants(te, params[0], depth + 1) if params else set()
                return base & {'object'}
        if isn('Record'):
            return {'object'}
        for u in ('Uppercase', 'Lowercase', 'Capitalize', 'Uncapitalize'):
            if isn(u):
                return {'string'} if params and inhabitants(te, params[0], depth + 1) == {'string'} else set()
        if isn('Parameters') or isn('ConstructorParameters'):
            return {'array'}
        if isn('NonNullable'):
            return (inhabitants(te, params[0], depth + 1) - {'null'}) if params else set()
        if isn('Extract') and len(params) == 2:
            # members of T assignable to U - decided only where U is a "top" type for whole value kinds
            t_in = inhabitants(te, params[0], depth + 1)
            u = deref(params[1])
            while u.variant == 'TsParenthesizedType':
                u = deref(u.fields[0].get('type_ann'))
            if u.variant == 'TsKeywordType':
                k = kw(u)
                if k in ('TsAnyKeyword', 'TsUnknownKeyword'):
                    return t_in
                if k == 'TsObjectKeyword':
                    return t_in & (OBJECTS | {'function'})
                if k in ('TsStringKeyword', 'TsNumberKeyword', 'TsBooleanKeyword', 'TsBigIntKeyword', 'TsSymbolKeyword'):
                    return t_in & inhabitants(te, u, depth + 1)
                return set()
            if u.variant == 'TsTypeLit' and len(u.fields[0].get('members')) == 0:
                return t_in - {'null'}          # `{}`: everything but null / undefined
            if u.variant == 'TsFnOrConstructorType':
                return set()
            return set()
        if isn('Exclude') and len(params) == 2:
            t_in = inhabitants(te, params[0], depth + 1)
            u = deref(params[1])
            if u.variant == 'TsKeywordType' and kw(u) in ('TsStringKeyword', 'TsNumberKeyword', 'TsBooleanKeyword', 'TsBigIntKeyword', 'TsSymbolKeyword', 'TsNullKeyword'):
                return t_in - inhabitants(te, u, depth + 1)
            return set()
        return set()
    if v == 'TsIndexedAccessType':
        return _indexed_inhabitants(te, deref(t.fields[0].get('obj_type')), deref(t.fields[0].get('index_type')), depth)
    return set()


def _interface_members(te, nm, depth):
    """own and inherited members of interface `nm` (declaration merging included); None when a parent cannot be followed"""
    if depth > 6 or nm not in te.interfaces:
        return None
    ms = []
    for d in te.interfaces[nm]:
        ms.extend(d.get('body').get('body'))
        for ex in d.get('extends'):
            e = denote.E(ex.get('expr'))
            if not denote.is_expr(e, 'Ident'):
                return None
            pn = denote.pystr(e.fields[0].get('sym'))
            if pn in te.interfaces:
                sub = _interface_members(te, pn, depth + 1)
            elif pn in te.aliases and deref(te.aliases[pn]).variant == 'TsTypeLit':
                sub = list(deref(te.aliases[pn]).fields[0].get('members'))
            else:
                sub = None
            if sub is None:
                return None
            ms.extend(sub)
    return ms


def _object_members(te, t, depth):
    """members of an object-like type (literal, interface, alias of those) or None"""
    t = deref(t)
    if depth > 6:
        return None
    if t.variant == 'TsTypeLit':
        return list(t.fields[0].get('members'))
    if t.variant == 'TsParenthesizedType':
        return _object_members(te, t.fields[0].get('type_ann'), depth + 1)
    if t.variant == 'TsTypeRef':
        tn = t.fields[0].get('type_name')
        if tn.variant != 'Ident' or not tn.fields[0].get('sym').is_concrete():
            return None
        nm = tn.fields[0].get('sym').py()
        if nm in te.aliases:
            return _object_members(te, te.aliases[nm], depth + 1)
        if nm in te.interfaces:
            return _interface_members(te, nm, 0)
    return None


def _index_keys(te, idx, depth):
    """-> ('all-strings' | 'number' | set of literal keys | None)"""
    idx = deref(idx)
    if depth > 6:
        return None
    if idx.variant == 'TsKeywordType':
        return {'TsStringKeyword': 'all-strings', 'TsNumberKeyword': 'number'}.get(kw(idx))
    if idx.variant == 'TsLitType':
        l = idx.fields[0].get('lit')
        if l.variant == 'Str':
            return {denote.pystr(l.fields[0].get('value'))}
        if l.variant == 'Number':
            v = l.fields[0].get('value')
            return {int(v)} if v == int(v) else None
        return None
    if idx.variant == 'TsParenthesizedType':
        return _index_keys(te, idx.fields[0].get('type_ann'), depth + 1)
    if idx.variant == 'TsUnionOrIntersectionType' and idx.fields[0].variant == 'TsUnionType':
        out = set()
        for x in idx.fields[0].fields[0].get('types'):
            k = _index_keys(te, x, depth + 1)
            if not isinstance(k, set):
                return None
            out |= k
        return out
    if idx.variant == 'TsTypeRef':
        tn = idx.fields[0].get('type_name')
        if tn.variant == 'Ident' and tn.fields[0].get('sym').is_concrete() and tn.fields[0].get('sym').py() in te.aliases:
            return _index_keys(te, te.aliases[tn.fields[0].get('sym').py()], depth + 1)
    return None


def _member_key(m):
    k = denote.E(m.fields[0].get('key'))
    if m.fields[0].names and 'computed' in m.fields[0].names and m.fields[0].get('computed'):
        return None
    if denote.is_expr(k, 'Ident'):
        return denote.pystr(k.fields[0].get('sym'))
    s = denote.str_lit(k)
    return s.py() if s is not None and s.is_concrete() else None


def _indexed_inhabitants(te, obj, idx, depth):
    """values of `obj[idx]` for the simple shapes: property / method lookup by literal keys or `string`, array and tuple elements.
    Under-approximation: anything else yields the empty set (no demand)."""
    keys = _index_keys(te, idx, depth)
    if keys is None:
        return set()
    o = obj
    while o.variant in ('TsParenthesizedType',) or (o.variant == 'TsTypeOperator' and o.fields[0].get('op').variant == 'ReadOnly'):
        o = deref(o.fields[0].get('type_ann'))
    if o.variant == 'TsTypeRef' and o.fields[0].get('type_name').variant == 'Ident' and o.fields[0].get('type_name').fields[0].get('sym').is_concrete():
        nm = o.fields[0].get('type_name').fields[0].get('sym').py()
        if nm in te.aliases and deref(te.aliases[nm]).variant in ('TsArrayType', 'TsTupleType', 'TsTypeRef', 'TsParenthesizedType', 'TsTypeOperator'):
            return _indexed_inhabitants(te, deref(te.aliases[nm]), idx, depth + 1)
        if nm in ('Array', 'ReadonlyArray') and nm not in te.aliases and nm not in te.interfaces and is_some(o.fields[0].get('type_params')):
            ps = deref(o.fields[0].get('type_params').fields[0]).get('params')
            if keys == 'number' and len(ps) == 1:
                return inhabitants(te, ps[0], depth + 1)
            return set()
    if o.variant == 'TsArrayType':
        return inhabitants(te, o.fields[0].get('elem_type'), depth + 1) if keys == 'number' else set()
    if o.variant == 'TsTupleType':
        els = o.fields[0].get('elem_types')
        def elem(e):
            ty = deref(deref(e).get('ty'))
            if ty.variant == 'TsRestType':
                inner = deref(ty.fields[0].get('type_ann'))
                if inner.variant == 'TsArrayType':
                    return inhabitants(te, inner.fields[0].get('elem_type'), depth + 1)
                return set()
            return inhabitants(te, ty, depth + 1)
        if keys == 'number':
            out = set()
            for e in els:
                out |= elem(e)
            return out
        if isinstance(keys, set) and all(isinstance(k, int) for k in keys):
            out = set()
            for k in keys:
                if 0 <= k < len(els) and deref(deref(els[k]).get('ty')).variant != 'TsRestType' and not any(deref(deref(e).get('ty')).variant == 'TsRestType' for e in els[:k]):
                    out |= elem(els[k])
            return out
        return set()
    ms = _object_members(te, o, depth)
    if ms is None or keys == 'number':
        return set()
    out = set()
    for m in ms:
        m = deref(m)
        if m.variant not in ('TsPropertySignature', 'TsMethodSignature', 'TsGetterSignature'):
            continue
        k = _member_key(m)
        if k is None:
            continue
        if keys == 'all-strings' or k in keys:
            if m.variant == 'TsMethodSignature':
                out |= {'function'}
            elif is_some(m.fields[0].get('type_ann')):
                out |= inhabitants(te, deref(m.fields[0].get('type_ann').fields[0]).get('type_ann'), depth + 1)
    return out


def _members_kind(members):
    has_call = any(deref(m).variant in ('TsCallSignatureDecl', 'TsConstructSignatureDecl') for m in members)
    has_other = any(deref(m).variant not in ('TsCallSignatureDecl', 'TsConstructSignatureDecl') for m in members)
    if has_call:
        return {'function'}
    return {'object'}


def accepts(ctx, elist, k):
    """Vue's runtime check: does the emitted `type` (list of constructor names / null; None = no check) accept a value of kind k?"""
    if elist is None:
        return True
    rs = []
    for c in elist:
        if c is None:
            rs.append(k == 'null')
            continue
        def isc(s, c=c):
            return seq(c, SStr.of(s))
        simple = {'string': 'String', 'number': 'Number', 'boolean': 'Boolean', 'bigint': 'BigInt', 'symbol': 'Symbol', 'function': 'Function'}
        if k in simple:
            rs.append(isc(simple[k]))
        elif k == 'null':
            pass
        else:
            alts = [isc('Object')]
            if k == 'array':
                alts.append(isc('Array'))
            elif k != 'object':
                alts.append(isc(k))            # instanceof the class itself
            rs.append(b_or(*alts))
    return b_or(*rs) if rs else False


def declaration_order(te, t, depth=0):
    """['string' | 'boolean' | 'x', ...]: the parts of t in the order they are written, where that order is fixed by the
    statement (keywords, literal types, parentheses, unions, aliases of those and NonNullable of those); None where the
    statement leaves the order open (indexed access, intersections, Extract, ...) and the part could be a string or boolean"""
    t = deref(t)
    if depth > 6:
        return None
    v = t.variant
    if v == 'TsKeywordType':
        return [{'TsStringKeyword': 'string', 'TsBooleanKeyword': 'boolean'}.get(kw(t), 'x')]
    if v == 'TsLitType':
        return [{'Str': 'string', 'Tpl': 'string', 'Bool': 'boolean'}.get(t.fields[0].get('lit').variant, 'x')]
    if v in ('TsFnOrConstructorType', 'TsArrayType', 'TsTupleType', 'TsTypeLit'):
        return ['x']
    if v == 'TsParenthesizedType':
        return declaration_order(te, t.fields[0].get('type_ann'), depth + 1)
    if v == 'TsUnionOrIntersectionType' and t.fields[0].variant == 'TsUnionType':
        out = []
        for m in t.fields[0].fields[0].get('types'):
            r = declaration_order(te, m, depth + 1)
            if r is None:
                return None
            out.extend(r)
        return out
    if v == 'TsTypeRef':
        tn = t.fields[0].get('type_name')
        if tn.variant != 'Ident':
            return None
        nm = denote.pystr(tn.fields[0].get('sym'))
        params = []
        if is_some(t.fields[0].get('type_params')):
            params = deref(t.fields[0].get('type_params').fields[0]).get('params')
        if nm in te.aliases and not params:
            return declaration_order(te, te.aliases[nm], depth + 1)
        if nm == 'NonNullable' and len(params) == 1 and nm not in te.aliases and nm not in te.interfaces:
            return declaration_order(te, params[0], depth + 1)
        if nm in BUILTIN_CLASSES or nm in te.interfaces:
            return ['x']
        return None
    return None


def emitted_types(ctx, entry_value, raw=False):
    """{type: X, required: b, default?} -> (list | None, required).  raw=True: the `type` entry as written, ignoring skipCheck
    (Vue's default resolution compares `type` itself with Function whether or not the check is skipped)"""
    ents = denote.lit_entries(denote.E(entry_value).fields[0])
    ty = [en for en in ents if en[0] == 'kv' and isinstance(en[1], SStr) and en[1].is_concrete() and en[1].py() == 'type']
    rq = [en for en in ents if en[0] == 'kv' and isinstance(en[1], SStr) and en[1].is_concrete() and en[1].py() == 'required']
    if not ty:
        return None, None
    tv = ty[-1][2]
    req = None
    if rq and denote.is_expr(rq[-1][2], 'Lit') and rq[-1][2].fields[0].variant == 'Bool':
        req = rq[-1][2].fields[0].fields[0].get('value')
    sk = [en for en in ents if en[0] == 'kv' and isinstance(en[1], SStr) and en[1].is_concrete() and en[1].py() == 'skipCheck']
    if not raw and sk and denote.is_expr(sk[-1][2], 'Lit') and sk[-1][2].fields[0].variant == 'Bool' and sk[-1][2].fields[0].fields[0].get('value') is True:
        return None, req        # Vue: `skipCheck: true` turns the runtime type check off (the types only drive boolean casting)
    if denote.is_null(tv):
        return None, req
    if denote.is_expr(tv, 'Ident'):
        return [tv.fields[0].get('sym')], req
    if denote.is_expr(tv, 'Array'):
        out = []
        for el in tv.fields[0].get('elems'):
            if not is_some(el):
                raise OracleGap('hole in type list')
            e = denote.E(el.fields[0].get('expr'))
            if denote.is_null(e):
                out.append(None)
            elif denote.is_expr(e, 'Ident'):
                out.append(e.fields[0].get('sym'))
            else:
                raise OracleGap('type list member')
        return out, req
    raise OracleGap('emitted type form')


def find_define_component_call(program):
    hits = []

    def f(v, p):
        if isinstance(v, Adt) and v.ty == 'CallExpr':
            c = v.get('callee')
            if c.variant == 'Expr' and denote.is_expr(c.fields[0], 'Ident') and denote.pystr(denote.E(c.fields[0]).fields[0].get('sym')) == 'defineComponent':
                hits.append(v)
    astio.walk(program, f)
    return hits


def options_entries(call):
    args = call.get('args')
    if len(args) < 2:
        return None
    o = denote.E(args[1].get('expr'))
    if not denote.is_expr(o, 'Object'):
        return None
    return denote.lit_entries(o.fields[0])


def first_param_members(call):
    args = call.get('args')
    fn = denote.E(args[0].get('expr'))
    if denote.is_expr(fn, 'Arrow'):
        p = deref(fn.fields[0].get('params')[0])
    else:
        p = deref(deref(fn.fields[0].get('function')).get('params')[0].get('pat'))
    if p.variant == 'Assign':
        p = deref(p.fields[0].get('left'))
    ta = p.fields[0].get('type_ann')
    return deref(deref(ta.fields[0]).get('type_ann'))


def oracle(env):
    ctx = env.ctx
    calls_in = find_define_component_call(env.pre)
    calls_out = find_define_component_call(env.post)
    if len(calls_in) != 1 or len(calls_out) != 1:
        raise Unsupported('harness: defineComponent call not found')
    ents = options_entries(calls_out[0])
    if ents is None:
        return [Obligation('the call receives a props option', False)]
    pe = [en for en in ents if en[0] == 'kv' and isinstance(en[1], SStr) and en[1].is_concrete() and en[1].py() == 'props']
    if not pe or not denote.is_expr(pe[-1][2], 'Object'):
        return [Obligation('the call receives a props option', False)]
    pents = denote.lit_entries(denote.E(pe[-1][2]).fields[0])
    tl = first_param_members(calls_in[0])
    te = TypeEnv(env)
    obs = []
    lits = [tl]
    if tl.variant == 'TsUnionOrIntersectionType' and tl.fields[0].variant == 'TsUnionType':
        lits = [deref(x) for x in tl.fields[0].fields[0].get('types')]
    if any(l.variant != 'TsTypeLit' for l in lits):
        raise Unsupported('harness: the props annotation is not an object type or a union of object types')
    all_members = [deref(m) for l in lits for m in l.fields[0].get('members')]
    declared = {}
    for m in all_members:
        if m.variant == 'TsPropertySignature' and is_some(m.fields[0].get('type_ann')):
            declared.setdefault(denote.E(m.fields[0].get('key')).fields[0].get('sym').py(), []).append(deref(deref(m.fields[0].get('type_ann').fields[0]).get('type_ann')))
    seen = set()
    for m in all_members:
        if m.variant != 'TsPropertySignature':
            continue
        ps = m.fields[0]
        key = denote.E(ps.get('key'))
        kname = key.fields[0].get('sym')
        if not is_some(ps.get('type_ann')):
            continue
        if kname.py() in seen:
            continue
        seen.add(kname.py())
        ty = deref(deref(ps.get('type_ann').fields[0]).get('type_ann'))
        redeclared = declared[kname.py()][1:]
        hit = [en for en in pents if en[0] == 'kv' and isinstance(en[1], SStr) and en[1].is_concrete() and en[1].py() == kname.py()]
        if not hit:
            obs.append(Obligation('every declared prop is emitted', False, {'prop': kname}))
            continue
        try:
            elist, req = emitted_types(ctx, hit[-1][2])
        except OracleGap as g:
            raise Unsupported('oracle gap: %s' % g)
        order = declaration_order(te, ty) if not redeclared else None
        if order is not None and 'string' in order and 'boolean' in order:
            rl, _ = emitted_types(ctx, hit[-1][2], raw=True)
            names = [denote.pystr(c) if c is not None else None for c in (rl or [])]
            ok = 'String' in names and 'Boolean' in names and (names.index('String') < names.index('Boolean')) == (order.index('string') < order.index('boolean'))
            obs.append(Obligation('Boolean and String stand in the emitted type list in the order they are declared', ok,
                                  {'prop': kname, 'declared': [o for o in order if o != 'x'][:6], 'emitted': names, 'type': _type_text(env, ps)}))
        inh = inhabitants(te, ty)
        for other in redeclared:
            inh = inh | inhabitants(te, other)
        for k in sorted(inh):
            if k == 'null' and req is False:
                continue          # Vue skips validation of null/undefined for optional props
            obs.append(Obligation('the runtime type accepts every value of the declared TS type', accepts(ctx, elist, k),
                                  {'prop': kname, 'value_kind': k, 'emitted': ['null' if c is None else c for c in elist] if elist is not None else None,
                                   'type': _type_text(env, ps), 'declarations': 1 + len(redeclared)}))
    return obs


def _type_text(env, ps):
    sp = deref(deref(ps.get('type_ann').fields[0]).get('type_ann'))
    try:
        from ..models import _span_of
        import types as _t
        s = _span_of(_t.SimpleNamespace(T=astio.types()), sp)
        src = env.extra.get('source_text')
        return src[s.fields[0] - 1:s.fields[1] - 1] if src else None
    except Exception:
        return None


def chunks(lst, n):
    for i in range(0, len(lst), n):
        yield lst[i:i + n]


def jobs(tier):
    out = []
    for ch in chunks(ATOMS, 12):
        out.append({'types': ch})
        out.append({'types': ch, 'optional': True})
    base = ['string', 'number', 'boolean', 'null', 'undefined', '1n', '{}', '() => void', 'Date', 'string[]', 'Al1', 'If1', 'any', 'Rec0["a"]', 'NonNullable<Al1>', 'If3["b"]', 'If0["m"]'] if tier == 'quick' else ATOMS
    def par(a):
        return '(%s)' % a if ('=>' in a or ' | ' in a) else a
    unions = ['%s | %s' % (par(a), par(b)) for a, b in itertools.product(base, repeat=2) if a != b]
    inters = ['%s & %s' % (a, b) for a, b in itertools.combinations(['{ a: string }', 'Rec0', 'If0', '{ (): void }', 'Al3', 'object', 'Date'], 2)]
    wrapped = ['(%s)' % a for a in base[:8]] + ['NonNullable<%s | null>' % par(a) for a in base[:10]] + ['Array<%s>[number]' % a for a in base[:8]] + ['{ x: %s }["x"]' % a for a in base[:10]] + \
              ['[%s, string][0]' % a for a in base[:8]] + ['(%s)[]' % a for a in base[:4]]
    tb = ['string', 'boolean', 'any', 'unknown', 'number', 'null', '"lit"', 'true', 'Al0', 'Date'] if tier == 'quick' else \
         ['string', 'boolean', 'any', 'unknown', 'number', 'null', '"lit"', 'true', 'Al0', 'Date', 'false', '`tpl`', '(string | number)', 'NonNullable<Al1>', 'Rec0["b"]', 'undefined']
    triples = [' | '.join(t) for t in itertools.permutations(tb, 3) if any(x in ('string', '"lit"', '`tpl`', 'Al0', '(string | number)', 'NonNullable<Al1>') for x in t) and
               any(x in ('boolean', 'true', 'false') for x in t)]
    quads = [' | '.join(t) for t in itertools.permutations(['string', 'boolean', 'any', 'number', 'unknown'], 4) if 'string' in t and 'boolean' in t]
    for ch in chunks(unions + inters + wrapped + triples + quads, 16):
        out.append({'types': ch})
    # the same key declared by two members of a union of object types, either declaration optional
    rb = ['string', 'number', 'boolean', 'Date', '() => void', 'string[]', 'Al1', 'null'] if tier == 'quick' else base
    pairs = [(a, b) for a, b in itertools.permutations(rb, 2)]
    for o1, o2 in ((False, False), (False, True), (True, False), (True, True)):
        for ch in chunks(pairs, 14):
            out.append({'types': [], 'redecl': [(a, o1, b, o2) for a, b in ch]})
    for n in ([3, 4, 5, 6, 7] if tier == 'quick' else [2, 3, 4, 5, 6, 7, 8, 9, 10]):
        out.append({'types': ['sym%d' % n]})
        out.append({'types': ['gen%d' % n]})
    return [{'module': MOD, 'spec': s, 'verbose': True} for s in out]


def classify(v, detail):
    if v['kind'] == 'panic':
        return 'panic'
    info = (detail or {}).get('info') or v.get('info') or {}
    em = info.get('emitted')
    # every declaration of the prop (a union of object types declares it once per member)
    ms = list(re.finditer(r'\b%s\??: (.*?)(?=; p\d+\??: | \} \| \{ p\d+\??: | \}\) => \(\) => null)' % re.escape(str(info.get('prop'))), v['source'], re.S))
    m = ms[0] if ms else None
    ty = ' / '.join(x.group(1) for x in ms) if ms else '?'
    if len(ty) > 40 or re.fullmatch(r'[A-Za-z_$][\w$]*(<.*>)?', ty) and ty.split('<')[0] not in ('Date', 'Al0', 'Al1', 'Al2', 'Al3', 'If0', 'If1', 'If2', 'Rec0', 'Cls0'):
        ty = 'type-reference' if '<' not in ty else 'generic-type-reference'
    full = ' / '.join(x.group(1) for x in ms)
    if re.search(r'\b(any|unknown)\b', full) and em and 'null' in em and len(em) > 1:
        return 'any/unknown-inside-a-union-emits-null-beside-constructors'
    if info.get('value_kind') == 'bigint' and em is not None and 'BigInt' not in em and 'Number' in em and re.search(r'\b\d+n\b', full):
        return 'bigint-literal-type-is-inferred-as-Number'
    if v['obligation'].startswith('Boolean and String stand'):
        return 'declared order %s of `%s` emitted as %s' % ('/'.join(info.get('declared') or []), ty, json.dumps(em))
    return 'value-kind %s of `%s` rejected by emitted %s' % (info.get('value_kind'), ty, json.dumps(em))


def main(argv):
    rep = common.Report(PROP)
    js = jobs(rep.tier)
    rep.bounds = {'atoms': len(ATOMS), 'combinators': 'union of two atoms (quick: 15x15, thorough: all), intersections, parentheses, NonNullable, array/tuple/property indexing, optional property',
                  'symbolic_type_reference_names': '3..7 (quick) / 2..10 characters, with and without type arguments', 'value_kinds': KINDS}
    rep.assumptions = ["Vue's prop validation: String/Number/Boolean/BigInt/Symbol/Function by typeof, Object = non-null typeof object, Array by isArray, other constructors by instanceof, `null` type = no check, null/undefined values skipped for optional props",
                       'inhabitants of a TS type are under-approximated (never demanding acceptance of a value the type does not have)']
    res = common.run_jobs('mirsym.checks.elements', 'run_family_job', js)
    raw = []
    for r in res:
        raw.extend(r.pop('violations', []))
        rep.absorb(r)
    import importlib
    elements.triage(rep, PROP, importlib.import_module(MOD), raw, classify)
    if rep.validation_mismatches:
        rep.inconclusive.append('MIR executor and native build disagree on %d sampled instances' % len(rep.validation_mismatches))
    return common.finish(rep, explanation='whole-module symbolic execution of resolveType on typed setup functions; soundness of the emitted constructor list decided per value kind')


def replay(path):
    import importlib
    return elements.replay_dir(PROP, importlib.import_module(MOD), path)
