"""C09 - code that is not JSX is left exactly as written; the transform is idempotent."""
import sys, itertools, json, re, glob, os
import z3
from ..engine import *
from ..values import *
from .. import harness, denote, astio, driver, jsout, world
from ..harness import Leaf, Skeleton
from . import common, elements, c06, c10

PROP = 'C09'
MOD = 'mirsym.checks.c09'

JSXFREE = {
    'plain': 'export const a = 1; function f(x) {{ return x + 1 }} class K extends Object {{ m() {{ return this }} }}',
    'calls': 'import {{ h }} from "vue"; const v = h("div", null, [createVNode("a")]); _createVNode; function createVNode() {{}}',
    'lookalike': 'const _createVNode = 1, _slot = 2, _Fragment = 3; function _isSlot(s) {{ return s }} export {{ _createVNode as x }};',
    'assign': 'let a, b; a = b = 1; a += 2; [a, b] = [b, a]; ({{ a }} = {{ a: 1 }});',
    'arrows': 'const f = () => 1, g = (a = () => 2) => {{ return a }}, k = async (x) => await x;',
    'ts': 'interface P {{ a: string }} type A = P | null; enum E {{ A, B }} declare const d: number; export function f<T>(x: T): T {{ return x }} namespace N {{ export const z = 1 }}',
    'ts-merged': 'interface Id {{ id: string }} interface La {{ label: string }} interface P extends Id {{ size: number }} interface P extends La {{ color: string }} interface P {{ extra?: boolean }} export function d(p: P): string {{ return p.id + p.label }}',
    'ts-decls': 'export interface Q<T> extends Array<T> {{ (x: T): void; new (x: T): Q<T>; readonly [k: string]: unknown; m?(): void }} type R = Q<number>["length"]; export type S = {{ [K in keyof R]?: R[K] }}; declare module "m" {{ export const v: number }} abstract class Ab {{ abstract f(): void; protected g?(): string }}',
    'ts-scoped': 'function outer() {{ interface L extends Base {{ a: string }} interface L {{ b: number }} type T = L | null; interface Base {{ z: boolean }} return null as unknown as T }} interface Base {{ top: number }}',
    'ts-blocks-after-jsx': 'const App = () => <div class="app">hello</div>; declare global {{ namespace JSX {{ interface IntrinsicElements {{ "my-el": {{ label?: string }} }} }} }} namespace Registry {{ export const entries: string[] = []; export const el = <b/>; }} declare module "m" {{ export const v: number }} export default App;',
    'ts-blocks-with-slot': 'namespace Before {{ export const x = 1 }} const v = <Foo>{{f1()}}</Foo>; namespace After {{ export const y = () => <Foo>{{f1()}}</Foo>; export namespace Inner {{ export const z = 2 }} }} function f1() {{ return 0 }}',
    'use-client': '"use client";\nimport x from "./x";\nexport const a = <Foo>{{f1()}}</Foo>; function f1() {{ return 0 }}',
    'use-strict-fn': 'function g() {{ "use strict"; "second directive"; return <Foo>{{f1()}}</Foo>; }} const h = () => {{ "use strict"; return <Foo>{{f1()}}</Foo>; }}; class K {{ m() {{ "use strict"; v = <Foo>{{v}}</Foo>; }} }} function f1() {{ return 0 }} let v;',
    'bare-loops': 'const out = []; let v; function f1(a) {{ return a }} for (const x of [1, 2]) out.push(<Foo>{{f1(x)}}</Foo>); for (let i = 0; i < 2; i++) v = <Foo>{{v}}</Foo>; while (f1()) out.push(<Foo>{{f1()}}</Foo>); '
                  'do out.push(<b/>); while (f1()); for (const k in out) if (k) out.push(<Foo>{{f1(k)}}</Foo>); lbl: for (;;) break lbl;',
    'comments': '/* @jsx h */\n// @jsx other\nconst a = 1; /** @jsxFrag F */ const b = 2;',
    'define-like': 'function defineComponent(o) {{ return o }} const C = defineComponent({{ name: "x" }});',
    'vue-import-no-call': 'import {{ defineComponent, ref }} from "vue"; const r = ref(1);',
    'loops': 'for (let i = 0; i < 3; i++) {{ continue }} lbl: for (const k in {{}}) {{ break lbl }} try {{ throw 1 }} catch {{ }} finally {{ }} switch (1) {{ case 1: break; default: }}',
    'classes': 'class A {{ static #p = 1; #q; static {{ A.#p++ }} get x() {{ return this.#q }} set x(v) {{ this.#q = v }} static async *gen() {{ yield* [] }} }}',
    'tpl-regex': 'const t = `a${{1}}b`, r = /<div>{{x}}<\\/div>/g, s = "<div/>", u = tag`<b>${{t}}</b>`;',
    'empty': '',
}
DEFINE = {
    'typed-before': 'import {{ defineComponent }} from "vue"; interface P {{ a: string }} export const C = defineComponent((props: P) => () => null); export const tail = 1;',
    'options-ident': 'import {{ defineComponent }} from "vue"; const base = {{}}; const C = defineComponent((props: {{ a?: number }}) => () => null, base); function after() {{ return C }}',
    'shadow-param': 'import {{ defineComponent }} from "vue"; export const Real = defineComponent((props: {{ msg: string }}) => () => null); export function registry(defineComponent: (s: (p: {{ id: number }}) => void) => void) {{ defineComponent((props: {{ id: number }}) => {{ console.log(props.id) }}) }}',
    'shadow-local': 'import {{ defineComponent }} from "vue"; function f() {{ const defineComponent = (x: any) => x; const C = defineComponent((props: {{ a: string }}) => null); return C }}',
    'other-module': 'import {{ defineComponent }} from "other"; const C = defineComponent((props: {{ a: string }}) => null);',
    'dynamic-default': 'import {{ defineComponent }} from "vue"; const defs: any = {{}}; interface P {{ a?: string }} export const A = defineComponent((props: P = defs) => () => null);',
    'props-given-dynamic-default': 'import {{ defineComponent }} from "vue"; const defs: any = {{}}; export const A = defineComponent((props: {{ a?: string }} = defs) => () => null, {{ props: {{ a: String }} }});',
    'props-given-static-default': 'import {{ defineComponent, type SetupContext }} from "vue"; export const A = defineComponent((props: {{ a?: string }} = {{ a: "x" }}, ctx: SetupContext<(e: "x") => void>) => () => null, {{ props: {{ a: String }}, emits: ["x"] }});',
    'dynamic-default-spread-arg': 'import {{ defineComponent }} from "vue"; const defs: any = {{}}; const rest: any[] = []; export const A = defineComponent((props: {{ a?: number }} = defs) => () => null, ...rest);',
    'nested-in-other-call': 'import {{ defineComponent }} from "vue"; declare const withInstall: any, registry: any; export const Button = withInstall(defineComponent(() => () => null)); const entry = registry.add("dialog", () => {{ return defineComponent(() => () => null) }}); const arr = [defineComponent(() => () => null)]; const Plain = defineComponent(() => () => null);',
    'with-jsx': 'import {{ defineComponent }} from "vue"; const C = defineComponent((props: {{ a: string }}) => () => <div>{{props.a}}</div>); const tail = () => <C a="x"/>;',
}


def make_skeleton(spec):
    kind = spec['kind']
    tsx = False
    if kind == 'jsxfree':
        src = JSXFREE[spec['name']]
        tsx = spec['name'].startswith('ts')
        opts = {'optimize': 'sym', 'transform_on': 'sym', 'merge_props': 'sym', 'enable_object_slots': 'sym', 'resolve_type': 'sym'}
        sk = Skeleton('c09#jsxfree|%s|%s' % (spec['name'], spec.get('pragma')), src + '\n', [], opts, tsx=tsx, pragma=spec.get('pragma'), meta={'family': 'c09/jsxfree'})
    elif kind == 'fixture-output':
        src = open(spec['path']).read().replace('{', '{{').replace('}', '}}')
        tsx = spec['tsx']
        opts = {'optimize': 'sym', 'merge_props': 'sym', 'enable_object_slots': 'sym', 'resolve_type': False}
        sk = Skeleton('c09#fixture|%s' % spec['path'].split('/fixture/')[1], src, [], opts, tsx=tsx, meta={'family': 'c09/fixture-output'})
    elif kind == 'define':
        src = DEFINE[spec['name']]
        sk = Skeleton('c09#define|%s' % spec['name'], src + '\n', [], {'resolve_type': True, 'optimize': 'sym'}, tsx=True, meta={'family': 'c09/define'})
    else:
        base = c06.make_skeleton(spec['spec'])
        sk = Skeleton('c09#ctx|' + base.sid, base.template, [], {'optimize': 'sym', 'enable_object_slots': 'sym'}, meta={'family': 'c09/context'})
    sk.rerun_on_output = True
    return sk


# ------------------------------------------------------------------ frame: the output equals the input outside the JSX holes
GENERATED_SRC = ('vue', '@vue/babel-helper-vue-transform-on')


def is_dummy(sp):
    sp = deref(sp)
    return isinstance(sp, Adt) and sp.ty == 'Span' and (sp.fields[0], sp.fields[1]) == (0, 0)


def generated_item(ctx, item):
    """an item the transform may insert at the head of a statement list: import of helpers, the slot helper, let/const of temporaries"""
    item = deref(item)
    if not isinstance(item, Adt):
        return False
    if item.ty == 'ModuleItem':
        return generated_item(ctx, item.fields[0])
    if item.ty == 'ModuleDecl' and item.variant == 'Import':
        imp = item.fields[0]
        return is_dummy(imp.get('span')) and denote.pystr(imp.get('src').get('value')) in GENERATED_SRC
    if item.ty == 'Stmt' and item.variant == 'Decl':
        d = item.fields[0]
        if d.variant == 'Fn':
            return is_dummy(deref(d.fields[0].get('function')).get('span'))
        if d.variant == 'Var':
            return is_dummy(deref(d.fields[0]).get('span'))
    return False


def _is_directive(item):
    x = deref(item)
    if isinstance(x, Adt) and x.ty == 'ModuleItem':
        x = deref(x.fields[0])
    if isinstance(x, Adt) and x.ty == 'Stmt' and x.variant == 'Expr':
        e = denote.E(x.fields[0].get('expr'))
        return denote.is_expr(e, 'Lit') and e.fields[0].variant == 'Str'
    return False


class Frame:
    def __init__(self, env):
        self.env = env; self.ctx = env.ctx
        self.rt = env.opts.get('resolve_type', False)
        self.diff = None

    def eligible(self, call):
        from . import c20
        binding = c20.vue_define_component_binding(self.ctx, self.env.pre)
        callee = denote.E(call.get('callee').fields[0])
        return binding is not None and callee.fields[0].get('ctxt') == binding

    def fail(self, path, why):
        if self.diff is None:
            self.diff = (path, why)
        return False

    def same(self, a, b, path=''):
        ctx = self.ctx
        a = deref(a); b = deref(b)
        if isinstance(a, Adt) and a.ty == 'Expr' and a.variant in ('JSXElement', 'JSXFragment'):
            return True          # a JSX hole: replaced in place by whatever it lowers to
        if isinstance(a, Adt) and isinstance(b, Adt):
            if a.ty == 'Span' and b.ty == 'Span':
                return True
            if a.ty == 'ArrowExpr' and b.ty == 'ArrowExpr':
                # an expression body may become a block that only holds generated declarations and `return <the expression>`
                ab = deref(a.get('body')); bb = deref(b.get('body'))
                if ab.variant == 'Expr' and bb.variant == 'BlockStmt':
                    st = bb.fields[0].get('stmts')
                    head, last = st[:-1], st[-1] if st else None
                    # ... and only when there is something to declare: a body that needs no declaration stays an expression
                    if last is None or last.variant != 'Return' or not head or not all(generated_item(ctx, x) for x in head) or not is_some(last.fields[0].get('arg')):
                        return self.fail(path + '/body', 'arrow body converted to something else than {generated declarations; return expr}')
                    ok = self.same(ab.fields[0], last.fields[0].get('arg').fields[0], path + '/body')
                    for i, n in enumerate(a.names):
                        if n != 'body' and n != 'span':
                            ok = ok and self.same(a.fields[i], b.fields[i], path + '/' + n)
                    return ok
            if a.ty == b.ty and a.ty in ('ForStmt', 'ForInStmt', 'ForOfStmt', 'WhileStmt', 'DoWhileStmt'):
                # a loop body written without braces may become a block that only holds generated declarations and that body
                # (what one iteration declares must not be shared with the next) - and only when there is something to declare
                ab = deref(a.get('body')); bb = deref(b.get('body'))
                if ab.variant != 'Block' and bb.variant == 'Block':
                    st = bb.fields[0].get('stmts')
                    head, last = st[:-1], st[-1] if st else None
                    if last is None or not head or not all(generated_item(ctx, x) for x in head):
                        return self.fail(path + '/body', 'loop body converted to something else than {generated declarations; the body}')
                    ok = self.same(ab, last, path + '/body')
                    for i, n in enumerate(a.names):
                        if n != 'body' and n != 'span':
                            ok = ok and self.same(a.fields[i], b.fields[i], path + '/' + n)
                    return ok
            if a.ty == 'CallExpr' and b.ty == 'CallExpr' and self.rt is not False and _is_define_component(a) and self.eligible(a):
                return True      # resolveType may augment Vue's defineComponent (C20 decides how)
            if a.ty != b.ty or a.variant != b.variant or len(a.fields) != len(b.fields):
                return self.fail(path, 'node %s::%s became %s::%s' % (a.ty, a.variant, b.ty, b.variant))
            ok = True
            for i, (x, y) in enumerate(zip(a.fields, b.fields)):
                nm = a.names[i] if a.names else str(i)
                if nm == 'raw':
                    continue
                ok = ok and self.same(x, y, path + '/' + (a.variant or a.ty or '') + '.' + nm)
            return ok
        if isinstance(a, list) and isinstance(b, list):
            bb = list(b)
            if len(bb) > len(a):
                # generated items are inserted at the head of statement lists only
                # - imports and the slot helper function: only at the head of the module itself;
                # - let/const of temporaries: at the head of the module or of a function body / block;
                # - nothing at all in the body of a namespace / `declare` block.
                k = len(bb) - len(a)
                def allowed(x):
                    x0 = deref(x)
                    if not generated_item(ctx, x0):
                        return False
                    if path == '':
                        return True
                    if isinstance(x0, Adt) and x0.ty == 'Stmt' and x0.variant == 'Decl' and x0.fields[0].variant == 'Var':
                        return True
                    return False
                # ... and always behind the directive prologue ("use strict", "use client"): in front of it they would turn the
                # directives into ordinary statements
                d = 0
                while d < len(a) and _is_directive(a[d]):
                    d += 1
                if all(allowed(x) for x in bb[d:d + k]):
                    bb = bb[:d] + bb[d + k:]
            if len(a) != len(bb):
                return self.fail(path, 'list of %d became %d' % (len(a), len(b)))
            ok = True
            for i, (x, y) in enumerate(zip(a, bb)):
                ok = ok and self.same(x, y, path + '[%d]' % i)
            return ok
        if isinstance(a, SStr) and isinstance(b, SStr):
            r = seq(a, b)
            return r if r is True else self.fail(path, 'string changed')
        if isinstance(a, (Adt, list, SStr)) or isinstance(b, (Adt, list, SStr)):
            return self.fail(path, 'shape changed')
        return True if a == b else self.fail(path, '%r became %r' % (a, b))


def _is_define_component(call):
    c = call.get('callee')
    return c.variant == 'Expr' and denote.is_expr(c.fields[0], 'Ident') and denote.pystr(denote.E(c.fields[0]).fields[0].get('sym')) == 'defineComponent'


def has_jsx(program):
    return bool(astio.find_all(program, 'JSXElement') or astio.find_all(program, 'JSXFragment'))


def has_define_component(program):
    hit = []

    def f(v, p):
        if isinstance(v, Adt) and v.ty == 'CallExpr' and _is_define_component(v):
            hit.append(1)
    astio.walk(program, f)
    return bool(hit)


def oracle(env):
    ctx = env.ctx
    obs = []
    rt = ctx.decide(env.opts.get('resolve_type', False))
    env.opts['resolve_type'] = rt
    fr = Frame(env)
    ok = fr.same(env.pre.fields[0].get('body'), env.post.fields[0].get('body'))
    obs.append(Obligation('every statement and expression that is not JSX appears unchanged and in the same order (generated items only at the head of statement lists)', ok,
                          {'where': fr.diff[0][-200:] if fr.diff else None, 'what': fr.diff[1] if fr.diff else None}))
    if not has_jsx(env.pre) and not (rt and has_define_component(env.pre)):
        same = denote.expr_eq(ctx, env.pre.fields[0].get('body'), env.post.fields[0].get('body'))
        obs.append(Obligation('a module without JSX is returned unchanged with nothing added', b_and(same, len(env.pre.fields[0].get('body')) == len(env.post.fields[0].get('body')))))
    p2 = env.extra.get('post2')
    if p2 is not None:
        a = c10.renumber_users(_strip_ctxt_numbers(env.post), {}); b = c10.renumber_users(_strip_ctxt_numbers(p2), {})
        obs.append(Obligation('running the transform on its own output changes nothing', denote.expr_eq(ctx, a.fields[0].get('body'), b.fields[0].get('body'))))
    return obs


def _strip_ctxt_numbers(v):
    return v


def jobs(tier):
    out = []
    for n in JSXFREE:
        out.append({'kind': 'jsxfree', 'name': n})
        out.append({'kind': 'jsxfree', 'name': n, 'pragma': 'h'})
    fx = sorted(glob.glob(driver.REPO + '/visitor/tests/fixture/**/output.js', recursive=True))
    for i, f in enumerate(fx):
        if tier == 'quick' and i % 3:
            continue
        tsx = os.path.exists(os.path.join(os.path.dirname(f), 'input.tsx'))
        out.append({'kind': 'fixture-output', 'path': f, 'tsx': tsx})
    for n in DEFINE:
        out.append({'kind': 'define', 'name': n})
    for j in c06.jobs(tier):
        out.append({'kind': 'ctx', 'spec': j['spec']})
    return [{'module': MOD, 'spec': s, 'verbose': True} for s in out]


def classify(v, detail):
    if v['kind'] == 'panic':
        return 'panic'
    fam = v['skeleton'].split('|')[0]
    info = (detail or {}).get('info') or v.get('info') or {}
    return '%s [%s] %s' % (v['obligation'][:60], fam, str(info.get('what') or '')[:60])


def main(argv):
    rep = common.Report(PROP)
    js = jobs(rep.tier)
    rep.bounds = {'jsx_free_modules': sorted(JSXFREE) + ['every 3rd (quick) / every expected output of the 81 fixtures (real transformed code, JSX-free)'],
                  'jsx_in_surrounding_code': 'the C06 context x lowering x sibling space', 'defineComponent_modules': sorted(DEFINE),
                  'options': 'all five boolean options symbolic on JSX-free modules; pragma absent / present'}
    rep.assumptions = ['the second run of the idempotence clause starts from the emitted AST (printing and re-parsing are outside)', 'generic traversal model validated against the native build']
    res = common.run_jobs('mirsym.checks.elements', 'run_family_job', js)
    raw = []
    for r in res:
        raw.extend(r.pop('violations', []))
        rep.absorb(r)
    import importlib
    elements.triage(rep, PROP, importlib.import_module(MOD), raw, classify)
    if rep.validation_mismatches:
        rep.inconclusive.append('MIR executor and native build disagree on %d sampled instances' % len(rep.validation_mismatches))
    return common.finish(rep, explanation='whole-module symbolic execution; structural frame comparison of input and output outside JSX holes; second run on the output')


def replay(path):
    import importlib
    return elements.replay_dir(PROP, importlib.import_module(MOD), path)
