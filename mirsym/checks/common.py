"""Shared machinery of the checks: parallel job runner, evidence, known findings, native replay."""
import os, sys, json, time, hashlib, re, traceback, multiprocessing, random
from .. import driver, astio
from ..values import SStr

VERIF = driver.VERIF
KNOWN = os.path.join(VERIF, 'known_findings.txt')


def tier():
    return os.environ.get('VERIF_TIER', 'quick')


def seed():
    try:
        return int(os.environ.get('VERIF_SEED', '0'))
    except ValueError:
        return 0


def ncpu():
    return int(os.environ.get('VERIF_JOBS', str(min(16, os.cpu_count() or 4))))


# ------------------------------------------------------------------ known findings
def known_findings(prop):
    """-> {role: description} for `finding:` lines of this property"""
    out = {}
    if not os.path.exists(KNOWN):
        return out
    for line in open(KNOWN):
        line = line.strip()
        m = re.match(r'^finding: property=(\w+) role=(\S+)\s*(.*)$', line)
        if m and m.group(1) == prop:
            out[m.group(2)] = m.group(3)
    return out


# ------------------------------------------------------------------ parallel jobs
_WORKER = {}


def _run_job(arg):
    fn_name, module, job = arg
    import importlib
    mod = importlib.import_module(module)
    t = time.time()
    try:
        res = getattr(mod, fn_name)(job)
    except Exception as e:          # machinery failure: never a violation
        res = {'error': '%s: %s' % (type(e).__name__, e), 'trace': traceback.format_exc()[-2000:]}
    res['job'] = job if isinstance(job, (str, int, list, dict, tuple)) else repr(job)
    res['job_s'] = round(time.time() - t, 2)
    return res


def run_jobs(module, fn_name, jobs, procs=None, deadline=None):
    procs = procs or ncpu()
    jobs = list(jobs)
    rnd = random.Random(seed())
    rnd.shuffle(jobs)           # VERIF_SEED only permutes the exploration order
    args = [(fn_name, module, j) for j in jobs]
    out = []
    if procs <= 1 or len(jobs) <= 1:
        for a in args:
            out.append(_run_job(a))
        return out
    # parse the MIR and build the native driver once in the parent: the forked workers inherit both
    from .. import engine as _engine
    _engine.load(); driver.e3_build()
    ctx = multiprocessing.get_context('fork')
    # wall-clock budget of one job list (VERIF_BUDGET_S; default 10 min quick / 40 min thorough): jobs not finished by then are
    # abandoned and reported as inconclusive - a truncated exploration is never reported as complete
    try:
        budget = float(os.environ.get('VERIF_BUDGET_S', '') or (600 if tier() == 'quick' else 2400))
    except ValueError:
        budget = 2400.0
    t_end = time.time() + budget
    with ctx.Pool(procs, maxtasksperchild=50) as pool:
        it = pool.imap_unordered(_run_job, args, chunksize=1)
        done = 0
        while done < len(args):
            try:
                if time.time() >= t_end:
                    raise multiprocessing.TimeoutError()
                r = it.next(timeout=max(1.0, min(30.0, t_end - time.time())))
                out.append(r); done += 1
            except multiprocessing.TimeoutError:
                if time.time() >= t_end:
                    out.append({'job': 'budget', 'violations': [], 'inconclusive': ['wall-clock budget of %ds reached: %d of %d jobs not finished (abandoned)' % (budget, len(args) - done, len(args))],
                                'samples': [], 'obligations': 0, 'distinct': [], 'vacuity': {}, 'stats': {}})
                    pool.terminate()
                    break
            except StopIteration:
                break
    return out


def stable_hash(x):
    """process-independent hash for sub-sampling job lists (Python's hash() of strings is salted per process);
    VERIF_SEED shifts which part of the space the quick tier samples"""
    import zlib
    return zlib.crc32((repr(x) + '#%d' % seed()).encode())


# ------------------------------------------------------------------ report / evidence
# seed testing against a scratch worktree (VERIF_REPO set) must not overwrite the evidence of /repo itself
EVIDENCE_DIR = os.path.join(VERIF, 'evidence') if driver.REPO == '/repo' else os.path.join(driver.CACHE, 'evidence-alt')
class Report:
    def __init__(self, prop, design_ref=''):
        self.prop = prop; self.t0 = time.time()
        self.tier = tier(); self.seed = seed()
        self.paths = 0; self.queries = 0; self.sat = 0; self.unsat = 0; self.unknown = 0; self.solver_s = 0.0; self.steps = 0
        self.fns = {}; self.models = set(); self.bounds = {}; self.samples = []; self.assumptions = []
        self.violations = []        # dicts: role, witness, detail, replay (native verdict)
        self.inconclusive = []      # strings
        self.obligations = 0; self.jobs = 0; self.errors = []
        self.validated = 0; self.validation_mismatches = []
        self.vacuity = {}
        self.kernels = {}
        self.extra = {}
        self.distinct = set()
        self.notes = []
        self.cross = {}

    def absorb(self, res):
        """merge a job result dict produced by `job_result`"""
        self.jobs += 1
        if 'error' in res:
            self.errors.append('%s: %s' % (res.get('job'), res['error']))
            self.inconclusive.append('job %s failed in the machinery: %s' % (res.get('job'), res['error']))
            return
        st = res.get('stats', {})
        self.paths += st.get('paths', 0); self.queries += st.get('queries', 0); self.sat += st.get('sat', 0)
        self.unsat += st.get('unsat', 0); self.unknown += st.get('unknown', 0); self.solver_s += st.get('solver_s', 0.0)
        self.steps += st.get('steps', 0)
        self.fns.update(st.get('fns', {})); self.models |= set(st.get('models', []))
        for x in st.get('xresults', []):
            self.cross[x] = self.cross.get(x, 0) + 1
        self.obligations += res.get('obligations', 0)
        for v in res.get('violations', []):
            self.violations.append(v)
        for s in res.get('inconclusive', []):
            if s not in self.inconclusive and len(self.inconclusive) < 200:
                self.inconclusive.append(s)
        for s in res.get('samples', []):
            if len(self.samples) < 24:
                self.samples.append(s)
        for d in res.get('distinct', []):
            self.distinct.add(d)
        self.validated += res.get('validated', 0)
        self.concolic = getattr(self, 'concolic', 0) + res.get('concolic', 0)
        self.validation_mismatches.extend(res.get('validation_mismatches', []))
        for k, v in res.get('vacuity', {}).items():
            self.vacuity[k] = self.vacuity.get(k, False) or v
        for k, v in res.get('kernels', {}).items():
            d = self.kernels.setdefault(k, {'paths': 0, 'obligations': 0})
            d['paths'] += v.get('paths', 0); d['obligations'] += v.get('obligations', 0)

    def write(self, level='model_checking', explanation=''):
        os.makedirs(EVIDENCE_DIR, exist_ok=True)
        cov = {
            'states': max(self.paths, 1),
            'transitions': max(self.queries, 1),
            'traces_validated_against_impl': self.validated,
            'samples': self.samples[:24] or ['(no sample recorded)'],
            'evaluations': max(self.paths, 1),
            'distinct_nontrivial': max(len(self.distinct), 2) if self.distinct else max(self.paths, 2),
            'rule': 'one evaluation = one symbolic path of the encoded MIR (a set of inputs sharing a branch history); '
                    'distinct_nontrivial counts distinct (skeleton, branch-history) pairs that reached the oracle',
            'exhaustive': not self.inconclusive and not self.errors,
            'explanation': explanation,
            'bounds': self.bounds,
            'functions_encoded': dict(sorted(self.fns.items())),
            'library_models_used': sorted(self.models),
            'solver': {'engine': 'z3 (python API, incremental per path)', 'queries': self.queries, 'sat': self.sat, 'unsat': self.unsat,
                       'unknown': self.unknown, 'solver_wall_s': round(self.solver_s, 2),
                       'cross_checked_with_cvc5': dict(self.cross)},
            'mir_steps_executed': self.steps,
            'obligations_discharged': self.obligations,
            'concolic_completions_of_unfinished_paths': getattr(self, 'concolic', 0),
            'jobs': self.jobs,
            'vacuity_witnesses': self.vacuity,
            'kernels': self.kernels,
            'inconclusive': self.inconclusive[:100],
            'validation_mismatches': self.validation_mismatches[:20],
            'known_findings_reported': [v for v in self.violations if v.get('known')][:40],
            'violations_reported': [v for v in self.violations if not v.get('known')][:40],
            'notes': self.notes,
        }
        cov.update(self.extra)
        ev = {
            'property_id': self.prop, 'tier': self.tier if self.tier in ('quick', 'thorough') else 'quick', 'seed': self.seed, 'level': level,
            'coverage': cov, 'assumptions': self.assumptions, 'wall_s': round(time.time() - self.t0, 2),
            'violations': len([v for v in self.violations if not v.get('known')]),
        }
        path = os.path.join(EVIDENCE_DIR, self.prop + '.json')
        with open(path + '.tmp', 'w') as f:
            json.dump(ev, f, indent=1, default=str)
        os.replace(path + '.tmp', path)
        return path


class KaniCross:
    """secondary engine (E2): Kani/CBMC on the real compiled code of leaf predicates, run beside the MIR executor in the thorough tier.
    A failed or unavailable harness makes the run inconclusive; it never produces a VIOLATION on its own (no property-level oracle)."""

    def __init__(self, rep, harnesses, atoms=False):
        self.rep = rep; self.harnesses = harnesses; self.p = None
        if rep.tier != 'thorough' and not os.environ.get('VERIF_KANI'):
            return
        import subprocess
        cmd = [sys.executable, os.path.join(VERIF, 'tools', 'kani_check.py')] + (['--atoms'] if atoms else []) + list(harnesses)
        self.p = subprocess.Popen(cmd, stdout=subprocess.PIPE, stderr=subprocess.DEVNULL, text=True)

    def collect(self):
        if self.p is None:
            return
        out, _ = self.p.communicate()
        try:
            res = json.loads(out.strip().splitlines()[-1])
        except Exception:
            res = {'error': 'no result from kani_check.py'}
        self.rep.extra['kani_secondary_engine'] = {'tool': 'kani 0.68.0 / CBMC 6.11 (cadical)', 'harness_file': 'kani/harness.rs', 'results': res}
        for h in self.harnesses:
            if res.get(h) != 'SUCCESSFUL':
                self.rep.inconclusive.append('Kani harness %s: %s' % (h, res.get(h, res.get('error', 'missing'))))


def stats_dict(st):
    return {'xresults': list(getattr(st, 'xresults', [])), 'paths': st.paths, 'queries': st.queries, 'sat': st.sat, 'unsat': st.unsat, 'unknown': st.unknown,
            'solver_s': st.solver_s, 'steps': st.steps, 'fns': dict(st.fns), 'models': sorted(st.models)}


# ------------------------------------------------------------------ replay dirs
def save_replay(prop, witness, files):
    """files: {name: text}. -> directory path"""
    h = hashlib.sha256(json.dumps(witness, sort_keys=True, default=str).encode()).hexdigest()[:12]
    d = os.path.join(VERIF, 'replays', '%s-%s' % (prop, h))
    os.makedirs(d, exist_ok=True)
    for n, t in files.items():
        with open(os.path.join(d, n), 'w') as f:
            f.write(t)
    with open(os.path.join(d, 'witness.json'), 'w') as f:
        json.dump(witness, f, indent=1, default=str)
    return d


def finish(rep, level='model_checking', explanation=''):
    """print KNOWN-FINDING / VIOLATION lines, write evidence, return the exit code."""
    known = known_findings(rep.prop)
    code = 0
    seen_known = set()
    for v in rep.violations:
        role = v.get('role', 'unclassified')
        if v.get('reproduced') is False:
            continue
        if role in known:
            v['known'] = True
            if role not in seen_known:
                seen_known.add(role)
                print('KNOWN-FINDING: property=%s role=%s %s' % (rep.prop, role, v.get('summary', known[role])))
    new = [v for v in rep.violations if not v.get('known') and v.get('reproduced') is not False]
    unrepro = [v for v in rep.violations if v.get('reproduced') is False]
    shown = set()
    for v in new:
        key = v.get('role', 'unclassified')
        if key in shown:
            continue
        shown.add(key)
        print('VIOLATION property=%s replay=%s' % (rep.prop, v.get('replay', '(none)')))
        print('  role=%s %s' % (key, v.get('summary', '')))
        code = 1
    if unrepro and code == 0:
        for v in unrepro[:5]:
            print('ENCODING-MISMATCH (not a violation): solver witness did not reproduce natively: %s' % (v.get('summary', ''),))
        rep.inconclusive.append('%d solver witnesses did not reproduce on the native build (encoding/model bug)' % len(unrepro))
        code = 2
    if rep.cross.get('disagree'):
        rep.inconclusive.append('cvc5 disagreed with z3 on %d re-checked queries' % rep.cross['disagree'])
    path = rep.write(level, explanation)
    inc = len(rep.inconclusive)
    print('%s %s: paths=%d queries=%d obligations=%d violations=%d known=%d inconclusive=%d wall=%.1fs evidence=%s' % (
        rep.prop, rep.tier, rep.paths, rep.queries, rep.obligations, len(new), len(seen_known), inc, time.time() - rep.t0, path))
    for s in rep.inconclusive[:8]:
        print('  inconclusive: ' + s[:300])
    return code
