"""C13 - patch flags and dynamic-prop lists are sound update hints."""
import sys, itertools, json
import z3
from ..engine import *
from ..values import *
from .. import harness, denote, astio, driver, jsout, world
from ..denote import OracleGap
from ..harness import Leaf, Skeleton
from . import common, elements, c01, children
from .elements import PRELUDE, BOUND, find_input_element

PROP = 'C13'
MOD = 'mirsym.checks.c13'
TEXT, CLASS, STYLE, PROPS, FULL_PROPS, HYDRATE_EVENTS, NEED_PATCH = 1, 2, 4, 8, 16, 32, 512

NAMES = {'class': 'class', 'style': 'style', 'key': 'key', 'ref': 'ref', 'onClick': 'onClick', 'onFoo': 'onFoo', 'onUpd': 'onUpdate:modelValue',
         'plain': 'title', 'ns': 'xlink:href', 'on': 'on', 'onclick': 'onclick', 'nativeOn': 'nativeOn'}
VKINDS = {'s': '="st"', 'b': '', 'c': '={{1}}', 'ca': '={{[1, "a"]}}', 'co': '={{{{a: 1, "b": [2]}}}}', 'u': '={{undefined}}',
          'sup': '={{super.t}}', 'supc': '={{super["t"]}}', 'supa': '={{["x", super.k]}}', 'this': '={{this.t}}', 'par': '={{(1)}}', 'tsas': '={{"a" as string}}', 'tpl0': '={{`abc`}}', 'neg': '={{-1}}',
          'd': '={{v1}}', 'dm': '={{v2.x}}', 'da': '={{[1, v3]}}', 'do': '={{{{a: v4}}}}', 'dck': '={{{{[v1]: 1}}}}', 'dckt': '={{{{[`k-${{v3}}`]: 1}}}}', 'cckl': '={{{{["lit"]: 1, [`t`]: 2}}}}', 'dsh': '={{{{v2}}}}', 'dtpl': '={{`a${{v3}}`}}'}
SPECIAL = {'spread': '{{...s1}}', 'spreadO': '{{...{{id: v1}}}}', 'vmodel': 'v-model={{v1}}', 'vmodelC': 'v-model={{[v1, v2]}}', 'vmodelS': 'v-model={{[v1, "foo"]}}',
           'dir': 'v-foo={{v2}}', 'show': 'v-show={{v3}}', 'vhtml': 'v-html={{v4}}', 'vtext': 'v-text="t"', 'onobj': 'on={{o1}}'}


def item_src(it):
    if it in SPECIAL:
        return SPECIAL[it]
    n, k = it.split('/')
    return NAMES[n] + VKINDS[k]


def make_skeleton(spec):
    leaves = []
    parts = []
    for i, it in enumerate(spec['attrs']):
        if it.startswith('sym'):
            n = int(it[3:].split('/')[0]); k = it.split('/')[1]
            nm = 'A%d' % i
            leaves.append(Leaf(nm, 'attrname', n))
            parts.append('{%s}' % nm + VKINDS[k])
        else:
            parts.append(item_src(it))
    host = spec['host']
    kids = spec.get('kids', '')
    jsx = '<%s %s>%s</%s>' % (host, ' '.join(parts), kids, host)
    tsx = False
    if any(it.split('/')[-1] in ('sup', 'supc', 'supa', 'this') for it in spec['attrs']):
        # `super.x` / `this.x` need a method of a derived class around them
        src = PRELUDE + 'class K extends Object {{ m() {{ const _0 = %s; return _0; }} }}\n' % jsx
    else:
        src = PRELUDE + 'const _0 = %s;\n' % jsx
    if any(it.split('/')[-1] == 'tsas' for it in spec['attrs']):
        tsx = True
    opts = {'optimize': True, 'merge_props': 'sym', 'transform_on': 'sym'}
    opts.update(spec.get('opts', {}))
    return Skeleton('c13#%s|%s|%s' % (host, ','.join(spec['attrs']), kids), src, leaves, opts, tsx=tsx, meta={'family': 'c13/' + host})


def extra_constraints(skel):
    return c01.extra_constraints(skel)


def may_change(e):
    """can the value differ between renders? (the property's abstraction; erring towards `yes` is always sound)"""
    if isinstance(e, tuple):
        return True
    e = denote.E(e)
    if denote.is_expr(e, 'Lit'):
        return False
    if denote.is_expr(e, 'Ident'):
        return denote.pystr(e.fields[0].get('sym')) != 'undefined'
    if denote.is_expr(e, 'Array'):
        for el in e.fields[0].get('elems'):
            if not is_some(el):
                continue
            if is_some(el.fields[0].get('spread')) or may_change(el.fields[0].get('expr')):
                return True
        return False
    if denote.is_expr(e, 'Object'):
        for p in e.fields[0].get('props'):
            if p.variant == 'Spread':
                return True
            pr = deref(p.fields[0])
            if pr.variant == 'KeyValue':
                k = pr.fields[0].get('key')
                if k.variant == 'Computed':
                    ke = denote.E(k.fields[0].get('expr'))
                    static_key = denote.is_expr(ke, 'Lit') or (denote.is_expr(ke, 'Tpl') and len(ke.fields[0].get('exprs')) == 0)
                    if not static_key:
                        return True
                if may_change(pr.fields[0].get('value')):
                    return True
            elif pr.variant == 'Shorthand':
                if denote.pystr(pr.fields[0].get('sym')) != 'undefined':
                    return True
            else:
                return True
        return False
    if denote.is_expr(e, 'Paren') or e.variant in ('TsAs', 'TsNonNull', 'TsSatisfies', 'TsTypeAssertion', 'TsConstAssertion'):
        return may_change(e.fields[0].get('expr'))
    if denote.is_expr(e, 'Tpl'):
        return len(e.fields[0].get('exprs')) > 0 and True
    if denote.is_expr(e, 'Unary') and e.fields[0].get('op').variant in ('Minus', 'Plus', 'Bang', 'Tilde', 'Void', 'TypeOf'):
        return may_change(e.fields[0].get('arg'))
    return True


def flag_of(v):
    if v.flag is None:
        return None
    n = denote.num_lit(v.flag)
    if n is None:
        raise OracleGap('patch flag is not a number literal')
    return int(n)


def dyn_list(v):
    if v.dyn is None:
        return []
    if not denote.is_expr(v.dyn, 'Array'):
        raise OracleGap('dynamic props argument is not an array literal')
    out = []
    for el in v.dyn.fields[0].get('elems'):
        if not is_some(el):
            raise OracleGap('hole in dynamic props')
        s = denote.str_lit(el.fields[0].get('expr'))
        if s is None:
            raise OracleGap('dynamic prop is not a string literal')
        out.append(s)
    return out


def vnode_obligations(env, mv, v, is_comp, tag=''):
    """clauses (a)-(e) on one emitted vnode call"""
    ctx = env.ctx
    obs = []
    try:
        flag = flag_of(v); dyn = dyn_list(v)
        groups = denote.props_groups(v.props, mv)
    except OracleGap as g:
        raise Unsupported('oracle gap: %s' % g)
    info = {'flag': flag, 'dyn': dyn}
    if flag is not None:
        obs.append(Obligation('negative (hoist/bail) flags are never emitted', flag >= 0, info))
    entries = []
    structural = len(groups) > 1 or any(g.kind != 'lit' for g in groups)
    for g in groups:
        if g.kind == 'lit':
            for en in g.payload:
                if en[0] == 'spread' or (isinstance(en[1], tuple) and en[1][0] == 'computed'):
                    structural = True
                else:
                    entries.append(en)
    if structural:
        obs.append(Obligation('spread / merged / computed-key props carry the full-props bit or no flag',
                              flag is None or flag <= 0 or bool(flag & FULL_PROPS), info))
    keys = [en[1] for en in entries if isinstance(en[1], SStr)]
    # (c) the list names only props actually present
    for d in dyn:
        present = b_or(*[seq(d, k) for k in keys]) if keys else False
        obs.append(Obligation('the dynamic-prop list names only props actually present', present, {'name': d, 'flag': flag}))
    if dyn:
        obs.append(Obligation('a dynamic-prop list comes with the props bit', flag is not None and bool(flag & (PROPS | FULL_PROPS)), info))
    # (a) coverage of every prop that can change
    if flag is not None and flag > 0 and not (flag & FULL_PROPS):
        for en in entries:
            k, val = en[1], en[2]
            if not isinstance(k, SStr) or not may_change(val):
                continue
            if ctx.decide(seq(k, SStr.of('key'))) or ctx.decide(seq(k, SStr.of('ref'))):
                continue            # reserved vnode props: not patched as props
            if not is_comp and ctx.decide(seq(k, SStr.of('class'))):
                obs.append(Obligation('a changing class on an element is covered by the class bit', bool(flag & CLASS), {'flag': flag}))
            elif not is_comp and ctx.decide(seq(k, SStr.of('style'))):
                obs.append(Obligation('a changing style on an element is covered by the style bit', bool(flag & STYLE), {'flag': flag}))
            else:
                listed = b_or(*[seq(d, k) for d in dyn]) if dyn else False
                obs.append(Obligation('every prop that can change is in the dynamic-prop list with the props bit',
                                      b_and(bool(flag & PROPS), listed), {'prop': k, 'flag': flag, 'dyn': dyn}))
    # (e) ref / directive never left with the hydration bit alone
    has_ref = any(isinstance(en[1], SStr) and en[1].is_concrete() and en[1].py() == 'ref' for en in entries)
    if has_ref or v.directives:
        obs.append(Obligation('a vnode with a ref or runtime directive is not left with the hydration bit alone', flag != HYDRATE_EVENTS, info))
    return obs


def bound_ident_child(env, kids):
    """does the child list contain (directly) an identifier bound in the file?"""
    for ch in kids:
        ch = deref(ch)
        if ch.variant == 'JSXExprContainer' and ch.fields[0].get('expr').variant == 'Expr':
            e = denote.E(ch.fields[0].get('expr').fields[0])
            if denote.is_expr(e, 'Ident'):
                ct = e.fields[0].get('ctxt')
                if c01.ctx_outer(env, ct) != env.extra['resp']['unresolved_mark']:
                    return True
    return False


def nested_bound(env, jel):
    """a bound identifier among the direct children of this element or of any element reached by direct JSX nesting"""
    if bound_ident_child(env, jel.get('children')):
        return True
    for ch in jel.get('children'):
        ch = deref(ch)
        if ch.variant == 'JSXElement' and nested_bound(env, deref(ch.fields[0])):
            return True
        if ch.variant == 'JSXFragment' and (bound_ident_child(env, ch.fields[0].get('children')) or any(
                deref(c).variant == 'JSXElement' and nested_bound(env, deref(deref(c).fields[0])) for c in ch.fields[0].get('children'))):
            return True
    return False


def slot_flag_obligations(env, mv, jel, v, depth=0):
    """clause (f) on a component element and, recursively, on directly nested elements"""
    obs = []
    comp = children.is_component_host(env, jel.get('opening').get('name'), mv)
    got = v.children
    if comp:
        objs = []
        if denote.is_expr(got, 'Object'):
            objs.append(got)
        elif denote.is_expr(got, 'Cond'):
            alt = denote.E(got.fields[0].get('alt'))
            if denote.is_expr(alt, 'Object'):
                objs.append(alt)
        for o in objs:
            ents = denote.lit_entries(o.fields[0])
            us = [en for en in ents if en[0] == 'kv' and isinstance(en[1], SStr) and en[1].is_concrete() and en[1].py() == '_']
            has_default_wrapper = any(en[0] == 'kv' and isinstance(en[1], SStr) and en[1].is_concrete() and en[1].py() == 'default' and
                                      not isinstance(en[2], tuple) and denote.is_expr(en[2], 'Arrow') and len(en[2].fields[0].get('params')) == 0 for en in ents)
            if us:
                n = denote.num_lit(us[-1][2])
                obs.append(Obligation('slot objects carry _ = 1 or 2', n in (1, 2, 1.0, 2.0), {'_': n}))
                if nested_bound(env, jel):
                    obs.append(Obligation('_ is 2 when a direct child (here or in a directly nested element) is a bound identifier', n in (2, 2.0), {'_': n, 'depth': depth}))
            elif has_default_wrapper:
                obs.append(Obligation('slot objects carry _ = 1 or 2', False, {'_': None}))
    # recurse into directly nested elements
    if depth < 3:
        nested_in = []
        for ch in jel.get('children'):
            ch = deref(ch)
            if ch.variant == 'JSXElement':
                nested_in.append(deref(ch.fields[0]))
        nested_out = _nested_vnodes(mv, got)
        if len(nested_in) == len(nested_out):
            for je, vv in zip(nested_in, nested_out):
                obs.extend(slot_flag_obligations(env, mv, je, vv, depth + 1))
    return obs


def _nested_vnodes(mv, got):
    """vnode calls that are direct members of the emitted child array / default slot array"""
    arrs = []
    g = denote.E(got)
    if denote.is_expr(g, 'Array'):
        arrs.append(g)
    objs = []
    if denote.is_expr(g, 'Object'):
        objs.append(g)
    if denote.is_expr(g, 'Cond'):
        alt = denote.E(g.fields[0].get('alt'))
        if denote.is_expr(alt, 'Object'):
            objs.append(alt)
    for o in objs:
        for en in denote.lit_entries(o.fields[0]):
            if en[0] == 'kv' and isinstance(en[1], SStr) and en[1].is_concrete() and en[1].py() == 'default' and not isinstance(en[2], tuple) and denote.is_expr(en[2], 'Arrow'):
                body = deref(en[2].fields[0].get('body'))
                if body.variant == 'Expr' and denote.is_expr(body.fields[0], 'Array'):
                    arrs.append(denote.E(body.fields[0]))
    out = []
    for a in arrs:
        for sp, e in children.array_items(a):
            if sp is False:
                try:
                    vv = denote.vnode_view(e, mv)
                except OracleGap:
                    vv = None
                if vv is not None and denote.tag_view(vv.tag, mv) != ('vue', 'Fragment') or (vv is not None and False):
                    cv = denote.call_view(e)
                    if cv and cv[0] is not None and mv.vue_name(cv[0]) == 'createTextVNode':
                        continue
                    out.append(vv)
    return out


def oracle(env):
    ctx = env.ctx
    el = find_input_element(env.pre)
    out = jsout.find_decl_init(env.post, '_0')
    if el is None or out is None:
        raise Unsupported('harness: element not found')
    if not ctx.decide(env.opts.get('optimize', False)):
        return []
    jel = deref(el.fields[0])
    mv = denote.ModuleView(env.post)
    try:
        v = denote.vnode_view(out, mv)
    except OracleGap as g:
        raise Unsupported('oracle gap: %s' % g)
    if v is None:
        return [Obligation('element becomes a vnode call', False)]
    comp = children.is_component_host(env, jel.get('opening').get('name'), mv)
    obs = vnode_obligations(env, mv, v, bool(comp))
    obs.extend(slot_flag_obligations(env, mv, jel, v))
    return obs


# ------------------------------------------------------------------ jobs
def palette(tier):
    items = []
    names = ['class', 'style', 'key', 'ref', 'onClick', 'onFoo', 'onUpd', 'plain', 'ns', 'on', 'nativeOn', 'onclick']
    kinds_q = ['s', 'b', 'c', 'co', 'd']
    kinds_all = list(VKINDS)
    for n in names:
        for k in (kinds_q if tier == 'quick' else kinds_all):
            items.append('%s/%s' % (n, k))
    items += list(SPECIAL)
    return items


NEST = ['<C1>{{v1}}</C1>', '{{v1}}', '{{u9}}', '<C1>{{u9}}</C1>', '<b>{{v2}}</b>', '<C1><Foo>{{v1}}</Foo></C1>', '<C1>x</C1>{{v3}}', '<><C1>{{v1}}</C1></>', '{{...v3}}',
        '<C1>{{f1()}}</C1>', '<C1 v-slots={{s1}}>{{v1}}</C1>']


def jobs(tier):
    out = []
    hosts = ['div', 'Foo']
    pal = palette(tier)
    allk = list(VKINDS)
    for h in hosts:
        out.append({'host': h, 'attrs': []})
        for it in pal:
            out.append({'host': h, 'attrs': [it]})
        for k in ('sup', 'supc', 'supa', 'this', 'par', 'tsas', 'tpl0', 'neg'):
            out.append({'host': h, 'attrs': ['plain/' + k, 'ref/d']})
            out.append({'host': h, 'attrs': ['class/' + k, 'plain/d']})
            out.append({'host': h, 'attrs': ['plain/' + k, 'dir']})
        for k in ('dck', 'dckt', 'cckl', 'dsh', 'dtpl', 'u', 'ca', 'da', 'do', 'dm'):
            out.append({'host': h, 'attrs': ['plain/' + k]})
            out.append({'host': h, 'attrs': ['class/' + k, 'plain/d']})
        for n in ([2, 3, 5, 7] if tier == 'quick' else [2, 3, 4, 5, 6, 7, 8]):
            for k in ('d', 's'):
                out.append({'host': h, 'attrs': ['sym%d/%s' % (n, k)]})
                out.append({'host': h, 'attrs': ['sym%d/%s' % (n, k), 'plain/d']})
        pal2 = ['class/d', 'class/s', 'style/d', 'key/d', 'ref/d', 'onClick/d', 'onFoo/d', 'onUpd/d', 'plain/d', 'plain/s', 'plain/co', 'ns/d', 'on/d', 'nativeOn/d',
                'spread', 'spreadO', 'vmodel', 'vmodelC', 'dir', 'vhtml', 'onobj'] if tier == 'quick' else pal
        for a, b in itertools.product(pal2, repeat=2):
            na = a.split('/')[0]; nb = b.split('/')[0]
            if na == nb and na in ('key', 'ref', 'plain', 'ns', 'on', 'nativeOn', 'onclick', 'onUpd', 'vmodel', 'vmodelC', 'vmodelS', 'vhtml', 'vtext'):
                continue
            out.append({'host': h, 'attrs': [a, b]})
        # a mergeable name written twice (dynamic and constant occurrences in both orders) beside something that gives a positive flag
        for nm in ('class', 'style', 'onClick'):
            for x, y in (('d', 's'), ('s', 'd'), ('d', 'c'), ('c', 'd'), ('d', 'd'), ('ca', 'da'), ('da', 'ca')):
                if nm == 'onClick' and 's' in (x, y):
                    continue
                for z in ('plain/d', 'ref/d', 'onFoo/d', 'dir', 'plain/s'):
                    if tier == 'quick' and z in ('onFoo/d', 'plain/s') and (x, y) not in (('d', 's'), ('d', 'c')):
                        continue
                    out.append({'host': h, 'attrs': ['%s/%s' % (nm, x), '%s/%s' % (nm, y), z]})
                    out.append({'host': h, 'attrs': [z, '%s/%s' % (nm, x), '%s/%s' % (nm, y)]})
        if tier != 'quick':
            pal3 = ['class/d', 'style/s', 'ref/d', 'onClick/d', 'onFoo/d', 'plain/d', 'plain/c', 'spread', 'vmodelC', 'dir', 'onobj']
            for tr in itertools.product(pal3, repeat=3):
                if len(set(tr)) < 3:
                    continue
                out.append({'host': h, 'attrs': list(tr)})
    # slot flags on nested component trees
    for kids in NEST:
        for h in ('Foo', 'C1'):
            out.append({'host': h, 'attrs': [], 'kids': kids})
            out.append({'host': h, 'attrs': ['plain/d'], 'kids': kids})
    return [{'module': MOD, 'spec': s} for s in out]


def classify(v, detail):
    if v['kind'] == 'panic':
        return 'panic'
    info = (detail or {}).get('info') or v.get('info') or {}
    ob = v['obligation']
    extra = ''
    if 'prop' in info:
        p = info['prop']
        extra = ' prop=' + (p if p in ('on', 'key', 'ref', 'class', 'style') else 'listener' if isinstance(p, str) and p.startswith('on') else 'plain')
        import re
        m = re.search(r'(\w[\w:.-]*)=\{\{\[', v['source'])
        if m:
            extra += ' value=object-with-computed-key'
    return ob[:70] + extra


def main(argv):
    rep = common.Report(PROP)
    js = jobs(rep.tier)
    rep.bounds = {'attribute_multisets': 'size <=2 over the kind x name table (quick: reduced pairs) / full pairs + triples (thorough)',
                  'names': sorted(NAMES.values()), 'value_kinds': sorted(VKINDS), 'special': sorted(SPECIAL), 'symbolic_names': 'length 2,3,5,7 (quick) / 2..8',
                  'hosts': ['div', 'Foo'], 'nested_component_trees': NEST, 'options': 'optimize on; mergeProps, transformOn symbolic'}
    rep.assumptions = ['"can differ between renders" = not (literal | undefined | array/object literal of those with static keys)', 'key and ref are reserved vnode props, not patched as props',
                       'slot flag 2 is always acceptable (conservative); 1 only when no bound identifier is a direct child along direct JSX nesting']
    kani = common.KaniCross(rep, ['is_on_matches_vue_is_on', 'patch_flags_are_vues'])
    res = common.run_jobs('mirsym.checks.elements', 'run_family_job', js)
    kani.collect()
    raw = []
    for r in res:
        raw.extend(r.pop('violations', []))
        rep.absorb(r)
    import importlib
    elements.triage(rep, PROP, importlib.import_module(MOD), raw, classify)
    if rep.validation_mismatches:
        rep.inconclusive.append('MIR executor and native build disagree on %d sampled instances' % len(rep.validation_mismatches))
    return common.finish(rep, explanation='whole-module symbolic execution with optimize on; the statement is evaluated on (emitted props, flag, dynamic-prop list, slot objects)')


def replay(path):
    import importlib
    return elements.replay_dir(PROP, importlib.import_module(MOD), path)
