"""C16 - resolveType derives exactly the declared props and their requiredness."""
import sys, itertools, json, re
from ..engine import *
from ..values import *
from .. import harness, denote, astio, driver, jsout, world
from ..denote import OracleGap
from ..harness import Leaf, Skeleton
from . import common, elements, c17, rt

PROP = 'C16'
MOD = 'mirsym.checks.c16'
# how the setup function and its first parameter are written (the property speaks of "the first parameter's declared type")
SETUPS = {
    'arrow': '(props: %s) => () => null',
    'arrow-ctx': '(props: %s, ctx: any) => () => null',
    'async-arrow': 'async (props: %s) => () => null',
    'fn': 'function (props: %s) {{ return () => null; }}',
    'fn-named': 'function Comp(props: %s, {{ slots }}: any) {{ return () => null; }}',
    'obj-pat': '({{ ...rest }}: %s) => () => null',
    'obj-pat-fn': 'function ({{ ...rest }}: %s) {{ return () => null; }}',
    'default': '(props: %s = {{}}) => () => null',
    'default-fn': 'function (props: %s = {{}}) {{ return () => null; }}',
    'obj-pat-default': '({{ ...rest }}: %s = {{}}) => () => null',
    'obj-pat-default-fn': 'function ({{ ...rest }}: %s = {{}}) {{ return () => null; }}',
}
MAPS = [['a'], ['a', 'b?'], ['a', 'q', 'b?'], ['m', 'g', 'a'], ['q?', 'm?', 'c'], ['b?', 'z?'], ['g', 'q']]


def make_skeleton(spec):
    codes = spec['map']
    if 'chain' in spec:
        # a local declaration whose expansion passes through a top-level declaration of the same name (different binding)
        half = max(1, len(codes) // 2)
        A, B = codes[:half], codes[half:]
        top = 'interface P %s\ntype Mid = P & {{}};\n' % rt.body(A) if spec['chain'] != 'alias-top' else 'type P = %s;\ntype Mid = (P);\n' % rt.body(A)
        if spec['chain'] == 'iface':
            local = 'interface P extends Mid %s' % rt.body(B)
        else:
            local = 'type P = Mid & %s;' % rt.body(B)
        head = '// EXPECT %s\n' % json.dumps(rt.expect_of(codes)).replace('{', '{{').replace('}', '}}')
        src = head + "import {{ defineComponent }} from 'vue';\n" + top + 'function scope() {{\n  ' + local + '\n  defineComponent((props: P) => () => null);\n}}\n'
        return Skeleton('c16#%s|chain-%s|local' % (','.join(codes), spec['chain']), src, [], {'resolve_type': True}, tsx=True, meta={'family': 'c16/chain'})
    if 'composed' in spec:
        lab, decls, texpr, expected = rt.composed(codes, 2)[spec['composed']]
        call = 'export default defineComponent((props: %s) => () => null);' % texpr
        src = rt.module_src('EXPECT', expected, decls, call, '')
        return Skeleton('c16#%s|composed:%s|top' % (','.join(codes), lab), src, [], {'resolve_type': True}, tsx=True, meta={'family': 'c16/composed'})
    enc = [e for e in rt.encodings(codes) if e[0] == spec['enc']][0]
    name, before, texpr, after, expected = enc
    call = ('export default ' if spec.get('scope', 'top') == 'top' else '') + 'defineComponent(%s);' % (SETUPS[spec.get('setup', 'arrow')] % texpr)
    shadow = ''
    if spec.get('scope', 'top') != 'top':
        shadow = 'interface P {{ shadowed: number }}\ntype PA = {{ shadowedA: number }};\ninterface Outer {{ p: {{ shadowedO: number }} }}\n'
    src = rt.module_src('EXPECT', expected, before, call, after, spec.get('scope', 'top'), shadow)
    return Skeleton('c16#%s|%s|%s%s' % (','.join(codes), name, spec.get('scope', 'top'), '|setup:' + spec['setup'] if 'setup' in spec else ''), src, [], {'resolve_type': True}, tsx=True, meta={'family': 'c16/' + name})


def oracle(env):
    ctx = env.ctx
    expected = rt.read_expect(env, 'EXPECT')
    if expected is None:
        raise Unsupported('harness: EXPECT comment not found')
    calls = c17.find_define_component_call(env.post)
    if len(calls) != 1:
        raise Unsupported('harness: call not found')
    obs = []
    errors = [d for d in env.diags if not str(d).startswith('warn')]
    if expected == 'ERROR':
        obs.append(Obligation('a type that cannot be resolved is reported as an error, never silently dropped', len(errors) >= 1, {'diags': list(env.diags)}))
        return obs
    po = rt.props_option(calls[0])
    if po is None or not denote.is_expr(po, 'Object'):
        return [Obligation('the call receives a props option', False, {'diags': list(env.diags)})]
    ents = denote.lit_entries(denote.E(po).fields[0])
    got = {}
    dup = False
    for en in ents:
        if en[0] != 'kv' or not isinstance(en[1], SStr) or not en[1].is_concrete():
            return [Obligation('props keys are static', False)]
        k = en[1].py()
        if k in got:
            dup = True
        try:
            _, req = c17.emitted_types(ctx, en[2])
        except OracleGap as g:
            raise Unsupported('oracle gap: %s' % g)
        got[k] = req
    obs.append(Obligation('exactly the declared properties, keys spelled as declared', sorted(got) == sorted(expected) and not dup,
                          {'expected': sorted(expected), 'got': sorted(got), 'duplicate': dup}))
    for k, req in expected.items():
        if k in got:
            obs.append(Obligation('each prop is required unless declared optional', got[k] is req, {'prop': k, 'expected': req, 'got': got[k]}))
    obs.append(Obligation('a resolvable type raises no error', len(errors) == 0, {'diags': list(env.diags)}))
    return obs


def jobs(tier):
    out = []
    maps = MAPS if tier != 'quick' else MAPS[:5]
    for mp in maps:
        for e in rt.encodings(mp):
            out.append({'map': mp, 'enc': e[0]})
            if e[0] in ('alias', 'interface', 'merged', 'extends', 'intersection', 'indexed', 'after-interface', 'partial', 'pick') and (tier != 'quick' or mp in (MAPS[1], MAPS[2])):
                out.append({'map': mp, 'enc': e[0], 'scope': 'local'})
                if (mp == MAPS[2] or tier != 'quick') and 'export ' not in e[1] + e[3]:
                    for sc in ('local-stmt', 'local-mid', 'local-directive', 'block'):
                        out.append({'map': mp, 'enc': e[0], 'scope': sc})
    for mp in (MAPS[1], MAPS[2], MAPS[3]) if tier == 'quick' else MAPS[1:]:
        for ch in ('iface', 'alias', 'alias-top'):
            out.append({'map': mp, 'chain': ch})
    for mp in (MAPS[1], MAPS[2]) if tier == 'quick' else MAPS[:5]:
        for enc in ('interface', 'alias', 'intersection') if tier == 'quick' else [e[0] for e in rt.encodings(mp) if not e[0].startswith(('after', 'merged-after'))]:
            if enc not in [e[0] for e in rt.encodings(mp)]:
                continue
            for su in SETUPS:
                if su != 'arrow':
                    out.append({'map': mp, 'enc': enc, 'setup': su})
    import random
    rnd = random.Random(common.seed())
    for mp in ([MAPS[1], MAPS[2], MAPS[3]] if tier == 'quick' else MAPS[1:]):
        allc = rt.composed(mp, 2)
        idx = list(range(len(allc)))
        if tier == 'quick':
            # every operator pair is covered by construction order; a seeded sample keeps the quick tier short
            head = [i for i in idx if '&' in allc[i][0] and ('Partial' in allc[i][0] or 'Required' in allc[i][0])][:24]
            rest = [i for i in idx if i not in head]
            rnd.shuffle(rest)
            idx = head + rest[:60]
        for i in idx:
            out.append({'map': mp, 'composed': i})
    return [{'module': MOD, 'spec': s, 'verbose': True} for s in out]


def classify(v, detail):
    if v['kind'] == 'panic':
        return 'panic'
    m = re.search(r'c16#([^|]*)\|([^|]*)\|(\w+)', v['skeleton'])
    enc = m.group(2) if m else '?'
    if enc in ('after-alias', 'after-interface', 'merged-after'):
        return 'declaration-after-the-call-is-not-resolved'
    return '%s [encoding=%s scope=%s]' % (v['obligation'][:60], enc, m.group(3) if m else '?')


def main(argv):
    rep = common.Report(PROP)
    js = jobs(rep.tier)
    rep.bounds = {'prop_maps': MAPS, 'setup_function_forms': sorted(SETUPS), 'encodings': [e[0] for e in rt.encodings(MAPS[2])], 'scopes': ['top level', 'inside a function, shadowing different top-level declarations of the same names', 'the same with a call / a directive / a let and an if statement among the local declarations', 'a block statement of the module']}
    rep.assumptions = ['the expectation (prop map an encoding stands for) is carried in the module as a comment written by the generator']
    res = common.run_jobs('mirsym.checks.elements', 'run_family_job', js)
    raw = []
    for r in res:
        raw.extend(r.pop('violations', []))
        rep.absorb(r)
    import importlib
    elements.triage(rep, PROP, importlib.import_module(MOD), raw, classify)
    if rep.validation_mismatches:
        rep.inconclusive.append('MIR executor and native build disagree on %d sampled instances' % len(rep.validation_mismatches))
    return common.finish(rep, explanation='whole-module symbolic execution of resolveType over prop-map encodings; the emitted props option is read back and compared with the map')


def replay(path):
    import importlib
    return elements.replay_dir(PROP, importlib.import_module(MOD), path)
