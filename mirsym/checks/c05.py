"""C05 - v-model / v-models produce a working two-way binding."""
import sys, itertools, json, re
import z3
from ..engine import *
from ..values import *
from .. import harness, denote, astio, driver, jsout, world
from ..denote import OracleGap
from ..harness import Leaf, Skeleton
from . import common, elements, c01, c04, children
from .elements import PRELUDE, BOUND, find_input_element

PROP = 'C05'
MOD = 'mirsym.checks.c05'

TARGETS = {'id': 'v1', 'mem': 'v1.x', 'idx': 'v1[v2]', 'this': 'this.foo'}
FORMS = {
    'plain': 'v-model={{%s}}', 'camel': 'vModel={{%s}}', 'sfx': 'v-model_m1={{%s}}', 'sfx2': 'v-model_m1_m2={{%s}}', 'ns': 'v-model:ar={{%s}}', 'nsm': 'v-model:ar_m1={{%s}}',
    'a1': 'v-model={{[%s]}}', 'as': 'v-model={{[%s, "ar"]}}', 'ac': 'v-model={{[%s, v3]}}', 'acc': 'v-model={{[%s, f1()]}}', 'am': 'v-model={{[%s, ["m1", "m2"]]}}',
    'asm': 'v-model={{[%s, "ar", ["m1"]]}}', 'acm': 'v-model={{[%s, v3, ["m1"]]}}', 'am0': 'v-model={{[%s, []]}}', 'nsa': 'v-model:ar={{[%s, ["m2"]]}}',
    'sfxa': 'v-model_m1={{[%s]}}', 'nsa1': 'v-model:ar={{[%s]}}', 'nsm1': 'v-model:ar_m1={{[%s]}}',
}
HOSTS = {
    'input': 'input', 'cb': 'input type="checkbox"', 'radio': 'input type="radio"', 'text': 'input type="text"', 'dyn': 'input type={{v4}}',
    'cbx': 'input type={{"checkbox"}}', 'rdx': "input type={{'radio'}}", 'spt': 'input {{...s1}} type="checkbox"', 'sp': 'input {{...s1}}',
    'spl-kv': 'input {{...{{type: v4, name: "n"}}}}', 'spl-sh': 'input {{...{{type, name}}}}', 'spl-str': 'input {{...{{"type": v4}}}}', 'spl-comp': 'input {{...{{["type"]: v4}}}}',
    'spl-nested': 'input {{...{{...s1}}}}', 'spl-get': 'input {{...{{get type() {{ return v4 }}}}}}', 'spl-static': 'input {{...{{type: "checkbox"}}}}', 'spl-other': 'input {{...{{id: "x"}}}}',
    'spl-two': 'input {{...{{id: "x"}}}} {{...{{type}}}}', 'spc': 'input {{...f1()}}',
    'cust': 'my-el', 'custcb': 'my-el type="checkbox"', 'custrd': 'my-el type="radio"', 'custdyn': 'my-el type={{v4}}', 'custsp': 'my-el {{...s1}}', 'custtext': 'my-el type="text"', 'divcb': 'div type="checkbox"',
    'typeafter': 'input', 'select': 'select', 'textarea': 'textarea', 'div': 'div', 'Foo': 'Foo', 'C1': 'C1', 'mem': 'v1.Foo',
}
OTHERS = {'': '', 'id': 'id="a"', 'cls': 'class={{v3}}', 'sp': '{{...s1}}', 'upd': 'onUpdate:modelValue={{f1}}'}


def make_skeleton(spec):
    host = HOSTS[spec['host']]
    tag = host.split(' ')[0]
    if 'models' in spec:
        rows = spec['models']
        arr = ', '.join('[' + r + ']' for r in rows)
        a0 = 'v-models={{[%s]}}' % arr
        a1 = ' '.join('v-model={{[%s]}}' % r for r in rows)
        src = PRELUDE + 'const _0 = <%s %s %s/>;\nconst _1 = <%s %s %s/>;\n' % (host, OTHERS[spec.get('other', '')], a0, host, OTHERS[spec.get('other', '')], a1)
        sid = 'c05#models|%s|%s|%s' % (spec['host'], ';'.join(rows), spec.get('other', ''))
    else:
        form = FORMS[spec['form']] % TARGETS[spec['target']]
        other = OTHERS[spec.get('other', '')]
        pos = spec.get('pos', 'last')
        attrs = (other + ' ' + form) if pos == 'last' else (form + ' ' + other)
        if spec['host'] == 'typeafter':
            attrs = attrs + ' type="radio"'
        src = PRELUDE + ('const type = v4, name = "n";\n' if spec['host'].startswith('spl') else '') + 'const _0 = <%s %s/>;\n' % (host, attrs)
        sid = 'c05#%s|%s|%s|%s|%s' % (spec['host'], spec['form'], spec['target'], spec.get('other', ''), pos)
    opts = {'merge_props': 'sym', 'optimize': 'sym'}
    return Skeleton(sid.replace('{', '(').replace('}', ')'), src, [], opts, patterns=['opaque'] if spec['host'].startswith('cust') else None,
                    meta={'family': 'c05/' + ('models' if 'models' in spec else spec['host'])})


# ------------------------------------------------------------------ oracle
def model_attrs(ctx, attrs):
    out = []
    for a in attrs:
        if a.variant != 'JSXAttr':
            continue
        n = a.fields[0].get('name')
        first = (n.fields[0].get('sym') if n.variant == 'Ident' else n.fields[0].get('ns').get('sym'))
        cs = first.cs
        if len(cs) >= 2 and cs[0] == ord('v') and (cs[1] == ord('-') or 65 <= cs[1] <= 90):
            name, arg_s, mods_s = c04.parse_name(ctx, a.fields[0])
            if name.is_concrete() and name.py() == 'model':
                out.append((a.fields[0], arg_s, mods_s))
    return out


def type_info(ctx, attrs):
    """what the `type` of an <input> is known to be: ('static', str) | ('dynamic',) | ('none',) ; plus whether a spread may supply it"""
    has_spread = any(a.variant == 'SpreadElement' for a in attrs)
    for a in attrs:
        if a.variant == 'JSXAttr' and a.fields[0].get('name').variant == 'Ident':
            nm = a.fields[0].get('name').fields[0].get('sym')
            if nm.is_concrete() and nm.py() == 'type':
                v = a.fields[0].get('value')
                if not is_some(v):
                    return ('dynamic',), has_spread
                av = deref(v.fields[0])
                if av.variant == 'Lit' and av.fields[0].variant == 'Str':
                    return ('static', av.fields[0].fields[0].get('value').py()), has_spread
                if av.variant == 'JSXExprContainer' and av.fields[0].get('expr').variant == 'Expr':
                    s = denote.str_lit(av.fields[0].get('expr').fields[0])
                    if s is not None:
                        return ('static', s.py()), has_spread
                return ('dynamic',), has_spread
    return ('none',), has_spread


def accepted_model_directives(tagname, tinfo, has_spread):
    """Vue directives that give a working binding on this host (vModelDynamic dispatches on the runtime type, so it is
    acceptable wherever the static choice would be)"""
    if tagname == 'select':
        return {'vModelSelect'}
    if tagname == 'textarea':
        return {'vModelText'}
    if tagname == 'input':
        if tinfo[0] == 'dynamic':
            return {'vModelDynamic'}
        if tinfo[0] == 'static':
            base = {'checkbox': 'vModelCheckbox', 'radio': 'vModelRadio'}.get(tinfo[1], 'vModelText')
            return {base, 'vModelDynamic'}
        if has_spread:
            return {'vModelDynamic'}          # the type may come from the spread
        return {'vModelText', 'vModelDynamic'}
    # other elements (custom elements above all): Vue's compiler and the Babel plugin treat them like <input> - a written
    # `type` (or a spread that may carry one) governs; without one the text directive or the dynamic one works
    if tinfo[0] == 'dynamic' or (tinfo[0] == 'none' and has_spread):
        return {'vModelDynamic'}
    if tinfo[0] == 'static' and tinfo[1] in ('checkbox', 'radio'):
        return {{'checkbox': 'vModelCheckbox', 'radio': 'vModelRadio'}[tinfo[1]], 'vModelDynamic'}
    return {'vModelText', 'vModelDynamic'}


def listener_assigns(ctx, fn, target):
    """fn is `$event => (target) = $event`"""
    if isinstance(fn, tuple):
        return False
    fn = denote.E(fn)
    if denote.is_expr(fn, 'Arrow'):
        ar = fn.fields[0]
        ps = ar.get('params')
        if len(ps) != 1 or deref(ps[0]).variant != 'Ident':
            return False
        p = deref(ps[0]).fields[0].get('id')
        body = deref(ar.get('body'))
        if body.variant == 'Expr':
            ex = denote.E(body.fields[0])
        else:
            st = body.fields[0].get('stmts')
            if len(st) != 1 or st[0].variant not in ('Expr', 'Return'):
                return False
            ex = denote.E(st[0].fields[0].get('expr') if st[0].variant == 'Expr' else st[0].fields[0].get('arg').fields[0])
        while denote.is_expr(ex, 'Paren'):
            ex = denote.E(ex.fields[0].get('expr'))
        if not denote.is_expr(ex, 'Assign') or ex.fields[0].get('op').variant != 'Assign':
            return False
        rhs = denote.E(ex.fields[0].get('right'))
        if not (denote.is_expr(rhs, 'Ident') and children._same_ident(rhs.fields[0], p)):
            return False
        return target_eq(ctx, ex.fields[0].get('left'), target)
    return False


def _assigns_any(ctx, val, target):
    """val is the listener, or an array literal (merged listeners) containing it"""
    if isinstance(val, tuple):
        return False
    if listener_assigns(ctx, val, target) is True:
        return True
    if denote.is_expr(val, 'Array'):
        for t in denote.flatten_value(val, True):
            if not isinstance(t, tuple) and listener_assigns(ctx, t, target) is True:
                return True
    return False


def target_eq(ctx, assign_target, target):
    t = deref(assign_target)
    if t.variant != 'Simple':
        return False
    s = deref(t.fields[0])
    if s.variant == 'Paren':
        inner = denote.E(s.fields[0].get('expr'))
        while denote.is_expr(inner, 'Paren'):
            inner = denote.E(inner.fields[0].get('expr'))
        return denote.expr_eq(ctx, inner, target)
    if s.variant == 'Ident':
        return denote.is_expr(target, 'Ident') and children._same_ident(s.fields[0].get('id'), target.fields[0])
    if s.variant == 'Member':
        return denote.is_expr(target, 'Member') and denote.expr_eq(ctx, s.fields[0], target.fields[0])
    return False


def key_is(ctx, k, s):
    return isinstance(k, SStr) and ctx.decide(seq(k, s))


def find_kv(ctx, entries, name):
    hits = [en for en in entries if en[0] == 'kv' and isinstance(en[1], SStr) and ctx.decide(seq(en[1], name))]
    return hits


def concat_key(ctx, k, prefix, e):
    """is computed key k the string concatenation prefix + e  (Bin '+' or template literal)?"""
    if not (isinstance(k, tuple) and k[0] == 'computed'):
        return False
    ex = k[1]
    if denote.is_expr(ex, 'Bin') and ex.fields[0].get('op').variant == 'Add':
        l = denote.str_lit(ex.fields[0].get('left'))
        if l is not None and l.is_concrete() and l.py() == prefix:
            r = denote.E(ex.fields[0].get('right'))
            while denote.is_expr(r, 'Paren'):
                r = denote.E(r.fields[0].get('expr'))
            return denote.expr_eq(ctx, r, e)
        return False
    if denote.is_expr(ex, 'Tpl'):
        t = ex.fields[0]
        qs = t.get('quasis'); es = t.get('exprs')
        if len(es) == 1 and len(qs) == 2 and denote.pystr(qs[0].get('raw')) == prefix and denote.pystr(qs[1].get('raw')) == '':
            return denote.expr_eq(ctx, es[0], e)
    return False


def suffix_key(ctx, k, e, suffix):
    if not (isinstance(k, tuple) and k[0] == 'computed'):
        return False
    ex = k[1]
    if denote.is_expr(ex, 'Bin') and ex.fields[0].get('op').variant == 'Add':
        r = denote.str_lit(ex.fields[0].get('right'))
        if r is not None and r.is_concrete() and r.py() == suffix:
            l = denote.E(ex.fields[0].get('left'))
            while denote.is_expr(l, 'Paren'):
                l = denote.E(l.fields[0].get('expr'))
            return denote.expr_eq(ctx, l, e)
    return False


def oracle(env):
    ctx = env.ctx
    obs = []
    el0 = find_input_element(env.pre, '_0')
    out0 = jsout.find_decl_init(env.post, '_0')
    if el0 is None or out0 is None:
        raise Unsupported('harness: element not found')
    jel = deref(el0.fields[0])
    mv = denote.ModuleView(env.post)
    attrs = jel.get('opening').get('attrs')
    # ---- v-models: same as the sequence of v-model attributes (twin `_1` in the same module)
    el1 = find_input_element(env.pre, '_1')
    if el1 is not None:
        out1 = jsout.find_decl_init(env.post, '_1')
        return [Obligation('v-models behaves as the same-order sequence of v-model attributes', denote.expr_eq(ctx, out0, out1))]
    try:
        v = denote.vnode_view(out0, mv)
    except OracleGap as g:
        raise Unsupported('oracle gap: %s' % g)
    if v is None:
        return [Obligation('element becomes a vnode call', False)]
    mas = model_attrs(ctx, attrs)
    if len(mas) != 1:
        raise Unsupported('harness: expected exactly one v-model attribute')
    attr, arg_s, mods_s = mas[0]
    shape = c04.value_shape(attr)
    if shape['kind'] not in ('expr', 'array') or shape.get('value') is None:
        return []
    target = shape['value']
    mods = shape.get('mods') if shape.get('mods') is not None else mods_s
    if (shape.get('mods') is not None or (shape['kind'] == 'array' and shape.get('n', 0) >= 2)) and mods_s:
        mods = None
    arg = None; arg_known = True
    if arg_s is not None and shape.get('arg') is not None:
        arg_known = False
    elif arg_s is not None:
        arg = ('str', arg_s)
    elif shape.get('arg') is not None:
        a = shape['arg']
        s = denote.str_lit(a)
        if s is not None:
            arg = ('str', s)
        elif denote.is_null(a):
            arg = None
        else:
            arg = ('expr', a)
    name = jel.get('opening').get('name')
    comp = children.is_component_host(env, name, mv)
    try:
        groups = denote.props_groups(v.props, mv)
    except OracleGap as g:
        raise Unsupported('oracle gap: %s' % g)
    entries = []
    for g in groups:
        if g.kind == 'lit':
            entries.extend(g.payload)
    if not arg_known:
        return obs
    if comp:
        obs.append(Obligation('a component gets no runtime model directive', len(v.directives) == 0, {'got': len(v.directives)}))
        if arg is None or arg[0] == 'str':
            pname = arg[1] if arg else SStr.of('modelValue')
            hits = find_kv(ctx, entries, pname)
            obs.append(Obligation('component receives the bound value as prop modelValue / <arg>',
                                  b_and(len(hits) >= 1, denote.token_eq(ctx, hits[-1][2], target) if hits else False), {'prop': pname}))
            lname = SStr(tuple(SStr.of('onUpdate:').cs) + tuple(pname.cs))
            lh = find_kv(ctx, entries, lname)
            # (a user-written listener of the same name may sit beside it; how the two combine is C01's matter)
            obs.append(Obligation('onUpdate:<name> listener assigns its argument to the bound target',
                                  any(_assigns_any(ctx, en[2], target) for en in lh), {'listener': lname, 'found': len(lh)}))
            if mods is not None:
                mname = SStr(tuple(pname.cs) + tuple(SStr.of('Modifiers').cs)) if arg else SStr.of('modelModifiers')
                mh = find_kv(ctx, entries, mname)
                if len(mods) == 0:
                    obs.append(Obligation('no modifiers written, no modifiers prop', len(mh) == 0 or c04._obj_keys(mh[-1][2]) == [], {'prop': mname}))
                else:
                    keys = c04._obj_keys(mh[-1][2]) if mh and not isinstance(mh[-1][2], tuple) else None
                    obs.append(Obligation('modifiers are passed as modelModifiers / <arg>Modifiers, each true',
                                          b_and(keys is not None, c04.set_equal(ctx, mods, keys) if keys is not None else False,
                                                c04._all_true(mh[-1][2]) if keys is not None else False), {'prop': mname, 'expected': mods, 'got': keys}))
        else:
            e = arg[1]
            vh = [en for en in entries if en[0] == 'kv' and isinstance(en[1], tuple) and en[1][0] == 'computed' and denote.expr_eq(ctx, en[1][1], e) is True]
            obs.append(Obligation('component receives the bound value under the computed argument name',
                                  b_and(len(vh) >= 1, denote.token_eq(ctx, vh[-1][2], target) if vh else False)))
            lh = [en for en in entries if en[0] == 'kv' and concat_key(ctx, en[1], 'onUpdate:', e) is True]
            obs.append(Obligation('computed argument: the listener key is "onUpdate:" + argument',
                                  b_and(len(lh) >= 1, listener_assigns(ctx, lh[-1][2], target) if lh else False), {'found': len(lh)}))
            if mods is not None and len(mods) > 0:
                mh = [en for en in entries if en[0] == 'kv' and suffix_key(ctx, en[1], e, 'Modifiers') is True]
                keys = c04._obj_keys(mh[-1][2]) if mh and not isinstance(mh[-1][2], tuple) else None
                obs.append(Obligation('computed argument: modifiers under argument + "Modifiers"',
                                      b_and(keys is not None, c04.set_equal(ctx, mods, keys) if keys is not None else False), {'expected': mods, 'got': keys}))
    elif comp is False and arg is None:
        # (an argument on a native form element is not something the statement defines)
        tagname = name.fields[0].get('sym').py() if name.variant == 'Ident' and name.fields[0].get('sym').is_concrete() else None
        tinfo, has_spread = type_info(ctx, attrs)
        acc = accepted_model_directives(tagname, tinfo, has_spread)
        binds = [b for b in v.directives if denote.tag_view(b[0], mv)[0] == 'vue' and denote.tag_view(b[0], mv)[1].startswith('vModel')]
        obs.append(Obligation('a form element gets exactly one Vue model directive', len(binds) == 1, {'got': len(binds)}))
        if len(binds) == 1:
            b = binds[0]
            got = denote.tag_view(b[0], mv)[1]
            obs.append(Obligation('the model directive matches the host (select / textarea / input by type)', got in acc,
                                  {'got': got, 'accepted': sorted(acc), 'tag': tagname, 'type': list(tinfo), 'spread': has_spread}))
            obs.append(Obligation('the model directive is bound to the target', b_and(len(b) >= 2, denote.expr_eq(ctx, b[1], target) if len(b) >= 2 else False)))
            if mods is not None:
                gm = b[3] if len(b) >= 4 else None
                if len(mods) == 0:
                    obs.append(Obligation('no modifiers written, none bound', gm is None or c04._obj_keys(gm) == []))
                else:
                    keys = c04._obj_keys(gm) if gm is not None else None
                    obs.append(Obligation('modifiers are bound to the model directive, each true',
                                          b_and(keys is not None, c04.set_equal(ctx, mods, keys) if keys is not None else False,
                                                c04._all_true(gm) if keys is not None else False), {'expected': mods, 'got': keys}))
        lh = find_kv(ctx, entries, SStr.of('onUpdate:modelValue'))
        mine = [en for en in lh if _assigns_any(ctx, en[2], target)]
        obs.append(Obligation('onUpdate:modelValue listener assigns its argument to the bound target', len(mine) >= 1, {'found': len(lh)}))
    return obs


# ------------------------------------------------------------------ jobs
def jobs(tier):
    out = []
    forms_q = ['plain', 'camel', 'sfx', 'ns', 'nsm', 'nsa1', 'nsm1', 'a1', 'as', 'ac', 'am', 'asm', 'acm']
    forms = forms_q if tier == 'quick' else list(FORMS)
    for h in HOSTS:
        for f in forms:
            for t in (['id', 'mem'] if tier == 'quick' else list(TARGETS)):
                if tier == 'quick' and t == 'mem' and f not in ('plain', 'as', 'ac'):
                    continue
                out.append({'host': h, 'form': f, 'target': t})
    for h in ('input', 'Foo', 'div', 'sp'):
        for o in ('id', 'cls', 'sp', 'upd'):
            for pos in ('last', 'first'):
                out.append({'host': h, 'form': 'asm', 'target': 'id', 'other': o, 'pos': pos})
                out.append({'host': h, 'form': 'plain', 'target': 'mem', 'other': o, 'pos': pos})
    rowsets = [['v1, "my_arg"'], ['v1, "a_b", ["m1"]', 'v2'], ['v1, "x-y"'], ['v1, "update:z"'], ['v1'], ['v1, "ar"'], ['v1, ["m1"]', 'v2, "bar", ["m1", "m2"]'], ['v1', 'v2, "ar"'], ['v1, v3', 'v2'], ['v1.x, "ar", ["m"]']]
    if tier != 'quick':
        rowsets += [['v1, "a"', 'v2, "b"', 'v3, "c"'], ['v1[v2]'], ['v1, ["m1"]', 'v2, ["m2"]']]
    for h in ('Foo', 'input', 'C1', 'div'):
        for rs in rowsets:
            out.append({'host': h, 'models': rs})
            out.append({'host': h, 'models': rs, 'other': 'id'})
    return [{'module': MOD, 'spec': s} for s in out]


def classify(v, detail):
    if v['kind'] == 'panic':
        return 'panic'
    info = (detail or {}).get('info') or v.get('info') or {}
    ob = v['obligation']
    if ob.startswith('computed argument: the listener key'):
        return 'computed-argument:listener-key-is-not-onUpdate:+argument'
    if ob.startswith('the model directive matches'):
        return 'model-directive:%s:type=%s:spread=%s:got=%s' % (info.get('tag'), (info.get('type') or ['?'])[0], info.get('spread'), info.get('got'))
    return ob[:80]


def main(argv):
    rep = common.Report(PROP)
    js = jobs(rep.tier)
    rep.bounds = {'hosts': sorted(HOSTS), 'forms': sorted(FORMS), 'targets': sorted(TARGETS), 'co-occurring': sorted(OTHERS), 'v-models_lists': '<=2 (quick) / <=3 entries',
                  'options': 'mergeProps, optimize symbolic'}
    rep.assumptions = ['vModelDynamic is accepted wherever a static model directive would be (it dispatches on the runtime type)',
                       'elements other than input / select / textarea (custom elements above all) follow the input rule when a `type` is written or a spread may carry one, as in Vue\'s own compiler and the Babel plugin; without one vModelText or vModelDynamic',
                       'suffix modifiers next to an array form with argument/list, and an argument given both as v-model:arg and in the array: not fixed by the statement']
    res = common.run_jobs('mirsym.checks.elements', 'run_family_job', js)
    raw = []
    for r in res:
        raw.extend(r.pop('violations', []))
        rep.absorb(r)
    import importlib
    elements.triage(rep, PROP, importlib.import_module(MOD), raw, classify)
    if rep.validation_mismatches:
        rep.inconclusive.append('MIR executor and native build disagree on %d sampled instances' % len(rep.validation_mismatches))
    return common.finish(rep, explanation='whole-module symbolic execution of v-model / v-models lowering; binding read back from the emitted props / withDirectives call')


def replay(path):
    import importlib
    return elements.replay_dir(PROP, importlib.import_module(MOD), path)
