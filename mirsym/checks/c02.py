"""C02 - children and JSX text follow the JSX whitespace and child-list rules.
Kernel 1 (text): util::transform_text == JSX rule for every string of <= N code points.
Kernel 2 (children): see elements.py (child-list construction), added by the element harness."""
import sys, time, json
import z3
from ..engine import *
from ..values import *
from .. import jsout, astio, driver
from . import common, textrule

PROP = 'C02'
CLASSES = {          # partition of the code-point space used to split work on the first characters
    'tab': lambda c: c == 9, 'lf': lambda c: c == 10, 'cr': lambda c: c == 13, 'sp': lambda c: c == 32,
    'ows': lambda c: z3.And(is_rust_whitespace(c), c != 9, c != 10, c != 13, c != 32),
    'other': lambda c: z3.Not(is_rust_whitespace(c)),
}


def job_text(job):
    """job = {'n': length, 'split': [class names for the first chars]}"""
    it, info = load(verbose=False)
    fn = it.fn('transform_text')
    n = job['n']
    inp = [z3.BitVec('c%d' % i, CHW) for i in range(n)]
    base = [textrule.valid_char(c) for c in inp]
    for c, cls in zip(inp, job.get('split', [])):
        base.append(CLASSES[cls](c))
    st = Stats()
    res = {'violations': [], 'inconclusive': [], 'samples': [], 'obligations': 0, 'distinct': [], 'vacuity': {}}

    def body(ctx):
        s = SStr(inp)
        got = it.run(ctx, fn, [s])
        exp, nlines = textrule.sym_clean(ctx, s)
        ctx.exp = exp; ctx.got = got
        # gap (a): one line made only of space/tab -> unspecified, both outputs accepted
        unspec = (nlines == 1 and n > 0 and b_and(*[b_or(v_eq(c, 32), v_eq(c, 9)) for c in inp]))
        if len(got.cs) != len(exp):
            holds = False
        else:
            holds = b_and(*[v_eq(a, b) for a, b in zip(got.cs, exp)])
        return [Obligation('transform_text == JSX rule', b_or(unspec, holds))]

    seen_roles = set()
    for r in explore(body, base, st, deadline=job.get('deadline')):
        if r.kind == 'ok':
            res['obligations'] += 1
            res['distinct'].append('text/%d/%s' % (n, ''.join('1' if d else '0' for d in r.ctx.taken)))
            if len(res['samples']) < 2 and r.ctx.check() == z3.sat:
                m = r.ctx.solver.model()
                s = mval(m, SStr(inp))
                res['samples'].append({'kernel': 'transform_text', 'input': s, 'cleaned': mval(m, r.ctx.got), 'path_decisions': len(r.ctx.taken)})
            res['vacuity']['transform_text reached oracle'] = True
        elif r.kind == 'violation':
            res['obligations'] += 1
            s = mval(r.model, SStr(inp))
            res['violations'].append({'kernel': 'transform_text', 'input': s, 'mir_out': mval(r.model, r.ctx.got), 'oracle_out': ''.join(chr(mval(r.model, c)) for c in r.ctx.exp)})
        elif r.kind == 'panic':
            s = mval(r.model, SStr(inp)) if r.model is not None else None
            res['violations'].append({'kernel': 'transform_text', 'input': s, 'panic': r.detail})
        else:
            res['inconclusive'].append('transform_text n=%d: %s %s' % (n, r.kind, r.detail))
    res['stats'] = common.stats_dict(st)
    return res


def text_jobs(N):
    jobs = []
    for n in range(0, N + 1):
        if n <= 3:
            jobs.append({'n': n})
        elif n <= 5:
            for a in CLASSES:
                jobs.append({'n': n, 'split': [a]})
        else:
            for a in CLASSES:
                for b in CLASSES:
                    jobs.append({'n': n, 'split': [a, b]})
    return jobs


def native_text(e3, s):
    """run the real transform on <div>{s}</div>; -> (parser_saw_same_text, cleaned_text_or_'' , raw response)"""
    r = e3.run('const a = <div>' + textrule.render_text(s) + '</div>;', {})
    if 'pre' not in r or 'post' not in r:
        return None, None, r
    pre = astio.read_program(r['pre'])
    texts = astio.find_all(pre, 'JSXText')
    same = len(texts) == 1 and texts[0].get('value').py() == s
    if s == '':
        same = len(texts) == 0
    post = astio.read_program(r['post'])
    init = jsout.find_decl_init(post, 'a')
    name, args = jsout.call_parts(init)
    kids = args[2]
    if jsout.is_null(kids):
        return same, '', r
    elems = jsout.array_elems(kids)
    if elems is None or len(elems) != 1:
        return same, None, r
    nm, a2 = jsout.call_parts(deref(elems[0].fields[0].get('expr')))
    v = jsout.str_lit(a2[0])
    return same, (v.py() if v is not None else None), r


def triage_text(rep, e3, raw_violations):
    """replay each solver witness natively; classify; fill rep.violations"""
    by_role = {}
    for v in raw_violations:
        s = v['input']
        if 'panic' in v:
            r = e3.run('const a = <div>' + textrule.render_text(s or '') + '</div>;', {})
            repro = 'panic' in r or r.get('crash')
            role = 'text-rule:panic'
            native = r.get('panic')
        else:
            same, native, r = native_text(e3, s)
            if same is False or same is None:
                rep.inconclusive.append('witness %r is not what the parser produces for that source text (parser normalisation) - skipped' % s)
                continue
            if textrule.unspecified(s):
                continue
            role = textrule.classify(s, native)
            repro = role is not None
            if native != v.get('mir_out'):
                rep.validation_mismatches.append({'input': s, 'mir': v.get('mir_out'), 'native': native})
                repro = False
                role = 'encoding-mismatch'
        ent = by_role.setdefault(role, [])
        ent.append((s, native, v, repro))
    for role, items in by_role.items():
        items.sort(key=lambda x: (len(x[0] or ''), x[0] or ''))
        s, native, v, repro = items[0]
        d = None
        if repro:
            d = common.save_replay(PROP, {'kernel': 'transform_text', 'input': s, 'role': role}, {
                'input.jsx': 'const a = <div>' + textrule.render_text(s or '') + '</div>;', 'options.json': '{}',
                'native_output.txt': repr(native), 'expected_by_jsx_rule.txt': repr(textrule.py_clean(s or '')),
                'replay.sh': '#!/bin/sh\n# replays this input on the real build\ncd /verif && ./check C02 --replay "$(dirname "$0")"\n'})
        rep.violations.append({'role': role, 'reproduced': bool(repro), 'replay': d, 'count': len(items),
                               'summary': 'JSX text %r is cleaned to %r, the JSX rule gives %r (%d witnesses with this role)' % (s, native, textrule.py_clean(s or ''), len(items)),
                               'witnesses': [x[0] for x in items[:6]]})


def classify_children(v, detail):
    import re
    if v['kind'] == 'panic':
        return 'children:panic'
    info = (detail or {}).get('info') or v.get('info') or {}
    shape = info.get('shape')
    if shape == 'function':
        return 'children:single-function-child-of-non-component-host-becomes-slots-object'
    if shape == 'object':
        return 'children:single-object-literal-child-of-non-component-host-becomes-slots-object'
    return 'children:' + v['obligation'][:40]


def main(argv):
    rep = common.Report(PROP)
    quick = rep.tier == 'quick'
    N = 4 if quick else 6
    rep.bounds = {'text_length_code_points': '0..%d' % N, 'alphabet': 'every Unicode scalar value (replayed through numeric entities where the character cannot occur raw)'}
    rep.assumptions = ['swc parser produces JSXText.value == source slice for the alphabet above (checked on every replayed witness)',
                       'Z3 bit-vector semantics; library models listed under coverage.library_models_used',
                       'single whitespace-only line: outputs "" and the unchanged text are both accepted (statement and Babel rule disagree)']
    res = common.run_jobs('mirsym.checks.c02', 'job_text', text_jobs(N))
    raw = []
    for r in res:
        raw.extend(r.pop('violations', []))
        rep.absorb(r)
    # kernel 2: child-list construction on element / fragment / KeepAlive / custom-element hosts (whole-module runs)
    from . import c03, elements
    import importlib
    kj = [{'module': 'mirsym.checks.c03', 'spec': sp} for sp in c03.kid_jobs(rep.tier, c03.ELEM_HOSTS, lambda h: ['']) + c03.text_host_jobs(rep.tier)]
    res2 = common.run_jobs('mirsym.checks.elements', 'run_family_job', kj)
    raw2 = []
    for r in res2:
        raw2.extend(r.pop('violations', []))
        rep.absorb(r)
    elements.triage(rep, PROP, importlib.import_module('mirsym.checks.c03'), raw2, classify_children)
    rep.bounds['children'] = {'children_per_element': '<=2 (+ text-between triples) quick / <=3 thorough', 'hosts': c03.ELEM_HOSTS, 'text_hosts': c03.TEXT_HOSTS, 'child_kinds': sorted(c03.KIDS),
                              'symbolic_text_length_in_child_lists': '1..3'}
    e3 = driver.E3()
    triage_text(rep, e3, raw)
    # validate the MIR encoding against the native build on the sample inputs too
    for smp in rep.samples:
        if smp.get('kernel') == 'transform_text':
            same, native, _ = native_text(e3, smp['input'])
            if same:
                rep.validated += 1
                if native != smp['cleaned']:
                    rep.validation_mismatches.append({'input': smp['input'], 'mir': smp['cleaned'], 'native': native})
    e3.close()
    if rep.validation_mismatches:
        rep.inconclusive.append('MIR executor and native build disagree on %d inputs (model bug)' % len(rep.validation_mismatches))
    return common.finish(rep, explanation='symbolic execution of the MIR of util::transform_text against the JSX text rule; solver decides equality of the two symbolic outputs on every path')


def replay(path):
    w = json.load(open(path + '/witness.json'))
    if 'source' in w:
        from . import elements
        import importlib
        return elements.replay_dir(PROP, importlib.import_module('mirsym.checks.c03'), path)
    e3 = driver.E3()
    same, native, r = native_text(e3, w['input'])
    e3.close()
    exp = textrule.py_clean(w['input'])
    print('input=%r native=%r jsx_rule=%r' % (w['input'], native, exp))
    if native != exp and not textrule.unspecified(w['input']):
        print('VIOLATION property=C02 replay=%s' % path)
        return 1
    return 0
