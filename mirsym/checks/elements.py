"""Shared pieces of the element-level checks (C01, C02 children, C03, C04, C05, C12, C13, C14): skeleton palettes, the
job runner, triage (native confirmation + role classification)."""
import itertools, json, os, re
import z3
from ..engine import *
from ..values import *
from .. import harness, denote, astio, driver, jsout, world
from ..harness import Leaf, Skeleton
from . import common, textrule

# template-bound names contain a digit/underscore right after the first character, symbolic leaves are constrained away
# from them through Leaf.forbid
BOUND = ['C1', 'v1', 'v2', 'v3', 'v4', 'f1', 's1', 'o1']
PRELUDE = 'const C1 = 0, v1 = 0, v2 = 0, v3 = 0, v4 = 0, f1 = 0, s1 = 0, o1 = 0;\n'


def sym_clean_str(ctx, s):
    chars, _ = textrule.sym_clean(ctx, s)
    return SStr(chars)


def find_input_element(pre, name='_0'):
    init = jsout.find_decl_init(pre, name)
    if init is None:
        return None
    init = deref(init)
    while isinstance(init, Adt) and init.ty == 'Expr' and init.variant == 'Paren':
        init = deref(init.fields[0].get('expr'))
    return init


def run_family_job(job):
    """job = {'module': python module with make_skeleton(job) and oracle(env), 'spec': ...}"""
    import importlib
    mod = importlib.import_module(job['module'])
    it, info = load(verbose=job.get('verbose', False))
    e3 = _e3()
    skel = mod.make_skeleton(job['spec'])
    st = Stats()
    res = harness.run_skeleton(it, e3, skel, mod.oracle, st, deadline=job.get('deadline'), max_paths=job.get('max_paths', 4000),
                               want_samples=job.get('samples', 1), extra_base=mod.extra_constraints(skel) if hasattr(mod, 'extra_constraints') else ())
    res['spec'] = job['spec']
    return res


_E3 = None


def _e3():
    global _E3
    if _E3 is None:
        _E3 = driver.E3()
    return _E3


def triage(rep, prop, mod, raw, classify):
    """confirm each solver witness on the native build, classify into roles, fill rep.violations.
       classify(violation, native_detail) -> role string"""
    e3 = _e3()
    by_role = {}
    n_checked = 0
    seen_src = set()
    for v in raw:
        key = (v['source'], json.dumps(v['options'], sort_keys=True), v['obligation'], json.dumps(v.get('info'), sort_keys=True, default=str))
        if key in seen_src:
            continue
        seen_src.add(key)
        role_hint = classify(v, None)
        if len(by_role.get(role_hint, [])) >= 3:
            by_role[role_hint].append((v, None, None))
            continue
        ok, detail = harness.native_check(e3, mod.oracle, v)
        n_checked += 1
        if ok is None:
            rep.inconclusive.append('witness for %s could not be replayed natively (%s): %s' % (v['obligation'], detail.get('native'), v['source'][:120]))
            continue
        role = classify(v, detail) if ok else 'encoding-mismatch'
        by_role.setdefault(role, []).append((v, ok, detail))
    for role, items in by_role.items():
        confirmed = [x for x in items if x[1] is not None]
        if not confirmed:
            continue
        confirmed.sort(key=lambda x: len(x[0]['source']))
        v, ok, detail = confirmed[0]
        d = None
        if ok:
            d = common.save_replay(prop, {'skeleton': v['skeleton'], 'source': v['source'], 'options': v['options'], 'tsx': v.get('tsx', False), 'variants': v.get('variants'), 'alt_sources': v.get('alt_sources'), 'twice': v.get('twice'),
                                          'obligation': v['obligation'], 'role': role}, {
                'input.' + ('tsx' if v.get('tsx') else 'jsx'): v['source'], 'options.json': json.dumps(v['options']),
                'native_output.js': (detail or {}).get('code') or '', 'verdict.json': json.dumps(detail, default=str, indent=1),
                'replay.sh': '#!/bin/sh\ncd /verif && ./check %s --replay "$(dirname "$0")"\n' % prop})
        rep.violations.append({'role': role, 'reproduced': bool(ok), 'replay': d, 'count': len(items),
                               'summary': '%s | %s | options %s | native: %s' % (v['obligation'], v['source'].replace(PRELUDE, '').strip()[:160],
                                                                                json.dumps({k: x for k, x in v['options'].items() if x != world.OPTION_DEFAULTS.get(world.RUST.get(k, k), None)}),
                                                                                json.dumps((detail or {}).get('info') or (detail or {}).get('message') or (detail or {}).get('native'), default=str)[:200]),
                               'witnesses': [x[0]['source'].replace(PRELUDE, '').strip()[:200] for x in items[:5]]})
    return n_checked


world.RUST = {v: k for k, v in world.JSON_NAMES.items()}


def replay_dir(prop, mod, path):
    w = json.load(open(os.path.join(path, 'witness.json')))
    v = {'source': w['source'], 'options': w['options'], 'tsx': w.get('tsx', False), 'kind': 'violation', 'obligation': w['obligation'], 'variants': w.get('variants'), 'alt_sources': w.get('alt_sources'), 'twice': w.get('twice')}
    ok, detail = harness.native_check(_e3(), mod.oracle, v)
    print(json.dumps(detail, default=str)[:1500])
    if ok:
        print('VIOLATION property=%s replay=%s' % (prop, path))
        return 1
    return 0
