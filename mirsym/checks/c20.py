"""C20 - resolveType augments only Vue's defineComponent and never overrides the user."""
import sys, itertools, json, re
import z3
from ..engine import *
from ..values import *
from .. import harness, denote, astio, driver, jsout, world
from ..denote import OracleGap
from ..harness import Leaf, Skeleton
from . import common, elements, c17

PROP = 'C20'
MOD = 'mirsym.checks.c20'

IMPORTS = {
    'vue': "import {{ defineComponent }} from 'vue';\n", 'alias': "import {{ defineComponent as dc }} from 'vue';\n", 'renamed': "import {{ h as defineComponent }} from 'vue';\n",
    'other': "import {{ defineComponent }} from 'other';\n", 'ns': "import * as Vue from 'vue';\n", 'default': "import defineComponent from 'vue';\n",
    'none': '', 'local': 'function defineComponent(a: any, b?: any) {{ return a }}\n', 'vue2': "import {{ ref, defineComponent, h }} from 'vue';\n",
    'symsrc': "import {{ defineComponent }} from '{S}';\n", 'late': '',
    'vue-prefix': "import {{ defineComponent }} from 'vue-demi';\n", 'vue-scope': "import {{ defineComponent }} from '@vue/runtime-core';\n", 'vue-upper': "import {{ defineComponent }} from 'Vue';\n",
    'vue-suffix': "import {{ defineComponent }} from 'petite-vue';\n",
}
CALLEE = {'vue': 'defineComponent', 'alias': 'dc', 'renamed': 'defineComponent', 'other': 'defineComponent', 'ns': 'Vue.defineComponent', 'default': 'defineComponent',
          'none': 'defineComponent', 'local': 'defineComponent', 'vue2': 'defineComponent', 'symsrc': 'defineComponent', 'late': 'defineComponent',
          'vue-prefix': 'defineComponent', 'vue-scope': 'defineComponent', 'vue-upper': 'defineComponent', 'vue-suffix': 'defineComponent'}
SETUP = {'typed': "(props: {{ a: string }}, ctx: SetupContext<{{ (e: 'x'): void }}>) => () => null", 'fn': 'function (props: {{ a: string }}) {{ return () => null }}',
         'untyped': '() => () => null', 'obj': '{{ setup() {{ return () => null }} }}', 'objn': "{{ name: 'Own', setup() {{ return () => null }} }}", 'ident': 'setupFn'}
OPTIONS = {
    'none': '', 'empty': ', {{}}', 'props': ", {{ props: {{ u: Number }} }}", 'emits': ", {{ emits: ['u'] }}", 'name': ", {{ name: 'User' }}", 'all': ", {{ props: {{ u: Number }}, emits: ['u'], name: 'User' }}",
    'sprops': ", {{ 'props': {{ u: Number }} }}", 'sname': ", {{ 'name': 'User' }}", 'short': ', {{ props, name }}', 'method': ', {{ props() {{ return {{}} }} }}', 'getter': ', {{ get name() {{ return "g" }} }}',
    'other': ', {{ inheritAttrs: false }}', 'spread1': ', {{ ...base }}', 'spread2': ", {{ ...base, props: {{ u: Number }} }}", 'spread3': ", {{ props: {{ u: Number }}, ...base }}",
    'spread4': ", {{ ...base, name: 'User' }}", 'ident': ', base', 'call': ', mk()', 'argspread': ', ...rest', 'computed': ", {{ ['props']: {{ u: Number }} }}", 'third': ", {{ name: 'User' }}, 3",
    'asconst': ", {{ name: 'User', inheritAttrs: false }} as const", 'paren': ", ({{ props: {{ u: Number }}, emits: ['u'] }})", 'sat': ", {{ name: 'User' }} satisfies any",
    'asany': ", {{ emits: ['u'] }} as any", 'parenas': ", ({{ props: {{ u: Number }} }} as const)", 'asother': ', {{ inheritAttrs: false }} as const', 'asident': ', base as any',
    'nonnull': ", {{ name: 'User' }}!", 'parenspread': ", ({{ ...base, name: 'User' }})",
}
DECL = {'const': 'const Comp = @;', 'let': 'let Comp = @;', 'export': 'export const Comp = @;', 'default': 'export default @;', 'assign': 'let Comp; Comp = @;', 'stmt': '@;',
        'shadow': 'function f(defineComponent: any) {{ const Comp = @; return Comp }}', 'inner': 'function f() {{ const Comp = @; return Comp }}', 'destr': 'const {{ Comp }} = @;',
        'firstspread': 'const Comp = @;'}


def make_skeleton(spec):
    leaves = []
    imp = spec['import']
    if imp == 'symsrc':
        leaves.append(Leaf('S', 'jsname', spec.get('srclen', 3)))
    call = '%s(%s%s)' % (CALLEE[imp], SETUP[spec['setup']], OPTIONS[spec['options']])
    if spec['decl'] == 'firstspread':
        call = '%s(...rest%s)' % (CALLEE[imp], OPTIONS[spec['options']])
    body = DECL[spec['decl']].replace('@', call)
    pre = 'const base: any = {{}}, props: any = {{}}, name = "n", rest: any[] = [], setupFn: any = null; function mk(): any {{ return {{}} }}\n'
    src = IMPORTS[imp] + pre + body + '\n'
    if imp == 'late':
        src = pre + body + "\nimport {{ defineComponent }} from 'vue';\n"
    return Skeleton('c20#%s|%s|%s|%s' % (imp, spec['setup'], spec['options'], spec['decl']), src, leaves, {'resolve_type': 'sym'}, tsx=True, meta={'family': 'c20/' + imp})


def find_calls(program, names=('defineComponent', 'dc')):
    hits = []

    def f(v, p):
        if isinstance(v, Adt) and v.ty == 'CallExpr':
            c = v.get('callee')
            if c.variant == 'Expr':
                ce = denote.E(c.fields[0])
                if denote.is_expr(ce, 'Ident') and denote.pystr(ce.fields[0].get('sym')) in names:
                    hits.append(v)
                elif denote.is_expr(ce, 'Member') and denote.is_expr(ce.fields[0].get('obj'), 'Ident') and denote.pystr(denote.E(ce.fields[0].get('obj')).fields[0].get('sym')) == 'Vue':
                    hits.append(v)
    astio.walk(program, f)
    return hits


def vue_define_component_binding(ctx, program):
    """ctxt of a `defineComponent` imported by that name from 'vue' (no alias), or None"""
    for item in program.fields[0].get('body'):
        if item.variant == 'ModuleDecl' and item.fields[0].variant == 'Import':
            imp = item.fields[0].fields[0]
            if not ctx.decide(seq(imp.get('src').get('value'), SStr.of('vue'))):
                continue
            if imp.get('type_only'):
                continue
            for sp in imp.get('specifiers'):
                if sp.variant == 'Named':
                    n = sp.fields[0]
                    if not is_some(n.get('imported')) and denote.pystr(n.get('local').get('sym')) == 'defineComponent' and not n.get('is_type_only'):
                        return n.get('local').get('ctxt')
    return None


WRAPPERS = ('Paren', 'TsAs', 'TsConstAssertion', 'TsSatisfies', 'TsNonNull', 'TsTypeAssertion')


def unwrap(e):
    """parentheses and type annotations evaluate to the expression they hold"""
    e = denote.E(e)
    while isinstance(e, Adt) and e.ty == 'Expr' and e.variant in WRAPPERS:
        e = denote.E(e.fields[0].get('expr'))
    return e


def flat_entries(obj):
    """entries of an object literal; `...{ k: v }` of a literal without accessors contributes its entries in place"""
    out = []
    for en in denote.lit_entries(obj):
        inner = unwrap(en[1]) if en[0] == 'spread' else None
        if inner is not None and denote.is_expr(inner, 'Object'):
            sub = flat_entries(inner.fields[0])
            if all(not (x[0] == 'kv' and isinstance(x[2], tuple) and x[2][0] in ('getter', 'setter')) for x in sub):
                out.extend(sub); continue
        out.append(('spread', inner) if inner is not None else en)
    return out


def options_groups(arg):
    """second argument -> [Group]"""
    e = unwrap(arg)
    if denote.is_expr(e, 'Object'):
        return [denote.Group('lit', flat_entries(e.fields[0]))]
    return [denote.Group('spread', e)]


def key_tokens(ctx, groups, k):
    return denote.denote_key(ctx, groups, SStr.of(k), False)


def oracle(env):
    ctx = env.ctx
    cin = find_calls(env.pre); cout = find_calls(env.post)
    if len(cin) != 1 or len(cout) != 1:
        raise Unsupported('harness: call not found')
    U, R = cin[0], cout[0]
    rt = ctx.decide(env.opts.get('resolve_type', False))
    binding = vue_define_component_binding(ctx, env.pre)
    callee = denote.E(U.get('callee').fields[0])
    eligible = rt and binding is not None and denote.is_expr(callee, 'Ident') and denote.pystr(callee.fields[0].get('sym')) == 'defineComponent' and \
        callee.fields[0].get('ctxt') == binding
    obs = []
    if not eligible:
        obs.append(Obligation("calls that are not Vue's defineComponent (or with resolveType off) are left exactly as written",
                              denote.expr_eq(ctx, Adt('Expr', 'Call', [U]), Adt('Expr', 'Call', [R])), {'resolveType': rt, 'binding': binding is not None}))
        return obs
    ua = U.get('args'); ra = R.get('args')
    if any(is_some(a.get('spread')) for a in ua[:2]):
        obs.append(Obligation('a spread argument list is left alone', denote.expr_eq(ctx, ua, ra), {'args_in': len(ua), 'args_out': len(ra)}))
        return obs
    # arguments other than the options are untouched
    obs.append(Obligation('the setup argument is untouched', b_and(len(ra) >= 1, denote.expr_eq(ctx, ua[0], ra[0]) if ra else False)))
    if len(ua) > 2:
        obs.append(Obligation('further arguments are untouched', b_and(len(ra) == len(ua), denote.expr_eq(ctx, ua[2:], ra[2:]))))
    first = denote.E(ua[0].get('expr')) if ua else None
    if first is None or not (denote.is_expr(first, 'Fn') or denote.is_expr(first, 'Arrow')):
        # (Vue ignores the second argument when the first one is not a function: nothing to demand of it)
        return obs
    gu = options_groups(ua[1].get('expr')) if len(ua) >= 2 else []
    gr = options_groups(ra[1].get('expr')) if len(ra) >= 2 else []
    keys = set()
    for g in gu + gr:
        if g.kind == 'lit':
            for en in g.payload:
                if en[0] == 'kv' and isinstance(en[1], SStr) and en[1].is_concrete():
                    keys.add(en[1].py())
    for k in sorted(keys | {'props', 'emits', 'name', '\x00other'}):
        tu = key_tokens(ctx, gu, k); tr = key_tokens(ctx, gr, k)
        if k in ('props', 'emits', 'name'):
            same = denote.tokens_equal(ctx, tu, tr)
            user_explicit = bool(tu) and not (isinstance(tu[0], tuple) and tu[0][0] in ('spread', 'computed'))
            if user_explicit:
                obs.append(Obligation('an option the user wrote is what Vue receives', same, {'key': k, 'user_tokens': len(tu), 'result_tokens': len(tr)}))
            else:
                # the inferred value may only sit underneath whatever the user supplied (spreads / computed keys stay on top)
                under = b_and(len(tr) == len(tu) + 1, not isinstance(tr[0], tuple) or tr[0][0] not in ('spread', 'computed') if tr else False,
                              denote.tokens_equal(ctx, tu, tr[1:]) if len(tr) == len(tu) + 1 else False)
                obs.append(Obligation('an inferred option never overrides what an options expression spread into the result supplies', b_or(same, under),
                                      {'key': k, 'user_tokens': len(tu), 'result_tokens': len(tr)}))
        else:
            obs.append(Obligation('other options are untouched', denote.tokens_equal(ctx, tu, tr), {'key': k}))
    return obs


def jobs(tier):
    out = []
    for imp in IMPORTS:
        for st in (['typed', 'obj'] if tier == 'quick' else list(SETUP)):
            for op in (['none', 'all', 'ident'] if tier == 'quick' and imp not in ('vue', 'vue2') else list(OPTIONS)):
                for d in (['const'] if imp not in ('vue',) else list(DECL)):
                    if d == 'firstspread' and op not in ('none', 'name'):
                        continue
                    if tier == 'quick' and imp == 'vue' and d not in ('const', 'default', 'assign', 'shadow', 'firstspread', 'stmt') and op not in ('none', 'name', 'spread2', 'asconst', 'paren'):
                        continue
                    out.append({'import': imp, 'setup': st, 'options': op, 'decl': d})
    for n in ([3, 4, 6] if tier == 'quick' else [2, 3, 4, 5, 6, 8]):
        for op in ('none', 'name', 'ident'):
            out.append({'import': 'symsrc', 'setup': 'typed', 'options': op, 'decl': 'const', 'srclen': n})
    seen = set(); res = []
    for s in out:
        k = json.dumps(s, sort_keys=True)
        if k not in seen:
            seen.add(k); res.append(s)
    return [{'module': MOD, 'spec': s, 'verbose': True} for s in res]


def classify(v, detail):
    if v['kind'] == 'panic':
        return 'panic'
    info = (detail or {}).get('info') or v.get('info') or {}
    ob = v['obligation']
    m = re.search(r'defineComponent\(.*?(, (\{.*\}|base|mk\(\)|\.\.\.rest))?\)[;\s]', v['source'], re.S)
    shape = ''
    src = v['source']
    if "'props'" in src or "'name'" in src: shape = 'string-keyed'
    elif re.search(r', \{ props, name \}', src): shape = 'shorthand'
    elif 'props() {' in src: shape = 'method'
    elif 'get name()' in src: shape = 'getter'
    elif '...base' in src: shape = 'literal-with-spread'
    elif "['props']" in src: shape = 'computed-key'
    elif '(...rest' in src: shape = 'first-argument-spread'
    return '%s [%s] key=%s' % (ob[:60], shape, info.get('key'))


def main(argv):
    rep = common.Report(PROP)
    js = jobs(rep.tier)
    rep.bounds = {'binding_provenance': sorted(IMPORTS), 'setup_argument': sorted(SETUP), 'options_argument': sorted(OPTIONS), 'declaration_kinds': sorted(DECL),
                  'import_source': "concrete + fully symbolic module name of 3 (quick) / 2..5 characters", 'resolveType': 'symbolic'}
    rep.assumptions = ["Vue's defineComponent(setup, options): the options argument is only read when the first argument is a function",
                       'object literal semantics: last entry for a key wins, spreads copy']
    res = common.run_jobs('mirsym.checks.elements', 'run_family_job', js)
    raw = []
    for r in res:
        raw.extend(r.pop('violations', []))
        rep.absorb(r)
    import importlib
    elements.triage(rep, PROP, importlib.import_module(MOD), raw, classify)
    if rep.validation_mismatches:
        rep.inconclusive.append('MIR executor and native build disagree on %d sampled instances' % len(rep.validation_mismatches))
    return common.finish(rep, explanation='whole-module symbolic execution of the resolveType gate and option injection; the resulting options expression is evaluated abstractly per key')


def replay(path):
    import importlib
    return elements.replay_dir(PROP, importlib.import_module(MOD), path)
