"""C15 - the vnode factory is createVNode unless a pragma names another."""
import sys, itertools, json
import z3
from ..engine import *
from ..values import *
from .. import harness, denote, astio, driver, jsout, world
from ..denote import OracleGap
from ..harness import Leaf, Skeleton
from . import common, elements
from .elements import PRELUDE

PROP = 'C15'
MOD = 'mirsym.checks.c15'

CANDS = {'jsx': ' @jsx h ', 'jsx2': ' @jsx  custom ', 'words': ' @jsx h and more words ', 'imp': ' @jsxImportSource vue ', 'rt': ' @jsxRuntime automatic ',
         'frag': ' @jsxFrag F ', 'noname': ' @jsx ', 'noat': ' jsx h ', 'plain': ' just a comment ', 'jsdoc': '* @jsx h ', 'jsdocnl': '*\n * @jsx h\n ',
         'glued': '@jsxh', 'member': ' @jsx React.createElement ', 'tab': '\t@jsx\th\t', 'mid': ' see @jsx h ', 'upper': ' @JSX h '}
BODY = 'const _0 = <div id="a">t<b/></div>;\nfunction g() {{ @INNER@return <><Foo/></>; }}\n@MID@const _1 = <Foo>{{v1}}</Foo>;\n'
# further element populations: elements that end up inside withDirectives(...), models on components, spreads, slot objects, member tags
BODIES = {
    None: BODY,
    'dirs': 'const _0 = <div id="a"><p v-show={{v1}}>x</p><b/></div>;\nfunction g() {{ @INNER@return <><input v-model={{v1}}/></>; }}\n'
            '@MID@const _1 = <Foo><li v-focus={{[v1, "arg"]}}><b/></li></Foo>;\n',
    'misc': 'const _0 = <Foo {{...v1}} class="a"><Bar v-model={{v1}}/>{{v1}}</Foo>;\nfunction g() {{ @INNER@return <><div v-html={{v1}}/><a.b c="1"/></>; }}\n'
            '@MID@const _1 = <Foo v-slots={{{{ s: () => <i>t</i> }}}}><textarea v-model={{[v1, ["trim"]]}}/></Foo>;\n',
}


def make_skeleton(spec):
    leaves = []

    def cm(code, idx):
        if code is None:
            return ''
        style, what = code
        if what.startswith('sym'):
            nm = 'P%d' % idx
            leaves.append(Leaf(nm, 'comment', int(what[3:])))
            text = '{%s}' % nm
        else:
            text = CANDS[what].replace('{', '{{').replace('}', '}}')
        if style == 'block':
            return '/*' + text + '*/\n'
        if style == 'jsdoc':
            return '/**' + text + '*/\n'
        return '//' + text + '\n'
    head = cm(spec.get('head'), 0) + cm(spec.get('head2'), 3)        # head2: a second comment in the same leading group
    mid = cm(spec.get('mid'), 1) + cm(spec.get('mid2'), 4)
    inner = cm(spec.get('inner'), 2)
    src = head + 'const v1 = 0;\n' + BODIES[spec.get('body')].replace('@INNER@', inner).replace('@MID@', mid)
    if spec.get('shebang'):
        # a hashbang line is the first token of the file: the head comments then lead the first statement only
        src = '#!/usr/bin/env node\n' + src
    opts = {'optimize': False}
    sk = Skeleton('c15#%s|%s|%s|%s%s' % (spec.get('head'), spec.get('mid'), spec.get('inner'), spec.get('pragma'), ('|%s|%s' % (spec.get('head2'), spec.get('mid2')) if spec.get('head2') or spec.get('mid2') else '') + ('|' + spec['body'] if spec.get('body') else '') + ('|shebang' if spec.get('shebang') else '')), src, leaves, opts,
                  pragma=spec.get('pragma'), meta={'family': 'c15'})
    return sk


def extra_constraints(skel):
    cs = []
    for l in skel.leaves:
        # a line comment cannot contain a line terminator; keep the alphabet of symbolic comments free of them everywhere
        for c in l.chars:
            cs.append(z3.And(c != 10, c != 13, c != 0x2028, c != 0x2029))
        cs.append(l.chars[0] != ord('/'))        # `/**/` would close a block comment at once
        cs.append(l.chars[-1] != ord('*') if False else z3.BoolVal(True))
    return cs


def ws(c):
    return is_rust_whitespace(c)


def parse_annotation(ctx, text):
    """the statement's reading of one comment: -> pragma name (SStr) or None"""
    cs = list(text.cs)
    while cs and ctx.decide(ws(cs[0])):
        cs = cs[1:]
    while cs and ctx.decide(ws(cs[-1])):
        cs = cs[:-1]
    if cs and ctx.decide(v_eq(cs[0], ord('*'))):        # JSDoc style
        cs = cs[1:]
        while cs and ctx.decide(ws(cs[0])):
            cs = cs[1:]
    tag = [ord(x) for x in '@jsx']
    if len(cs) < 4 or not ctx.decide(b_and(*[v_eq(a, b) for a, b in zip(cs[:4], tag)])):
        return None
    rest = cs[4:]
    if not rest or not ctx.decide(ws(rest[0])):
        return None                  # `@jsx` without a name, or another tag such as @jsxFrag / @jsxImportSource
    while rest and ctx.decide(ws(rest[0])):
        rest = rest[1:]
    name = []
    for c in rest:
        if ctx.decide(ws(c)):
            break
        name.append(c)
    if not name:
        return None
    return SStr(name)


def vnode_callees(mv, program):
    """callee identifiers of every vnode-creating call in the emitted module"""
    out = []

    def f(v, p):
        if isinstance(v, Adt) and v.ty == 'Expr' and v.variant == 'Call':
            try:
                vv = denote.vnode_view(v, mv)
            except OracleGap:
                vv = None
            if vv is not None and vv.expr is v and vv.callee is not None:
                out.append(vv.callee)
            elif vv is not None and vv.callee is not None and vv.expr is not v:
                pass
    astio.walk(program, f)
    return out


def oracle(env):
    ctx = env.ctx
    comments = env.extra['comments']
    pre_body = env.pre.fields[0].get('body')
    module_lo = env.pre.fields[0].get('span').fields[0]
    # comments the statement honours: leading comments of the module / of a top-level statement, in source order
    positions = []
    for item in pre_body:
        from ..models import _span_of
        sp = _top_span(item)
        if sp is not None and sp not in positions:
            positions.append(sp)
    if module_lo not in positions:
        positions.insert(0, module_lo)
    names = []
    for pos in sorted(positions):
        for kind, text in comments.get(pos, []):
            t = text if isinstance(text, SStr) else SStr.of(text)
            n = parse_annotation(ctx, t)
            if n is not None:
                names.append(n)
    opt = env.opts.get('pragma')
    if isinstance(opt, str):
        opt = SStr.of(opt)
    mv = denote.ModuleView(env.post)
    callees = []
    for nm in ('_0', '_1'):
        init = jsout.find_decl_init(env.post, nm)
        if init is not None:
            callees.extend(_callees_in(mv, init))
    fn_ret = _fn_return(env.post, 'g')
    if fn_ret is not None:
        callees.extend(_callees_in(mv, fn_ret))
    obs = []
    if len(callees) < 4:
        obs.append(Obligation('every element and fragment becomes a vnode call', False, {'found': len(callees)}))
    has_cv_import = any(v == 'createVNode' for v in mv.vue.values())
    if len(names) > 1:
        # several annotations: the statement does not say which one wins; any of them is accepted
        for c in callees:
            obs.append(Obligation('vnode factory is one of the annotated names', b_or(*[seq(c.get('sym'), n) for n in names])))
        return obs
    expected = names[0] if names else opt
    if expected is not None:
        for c in callees:
            obs.append(Obligation('every element and fragment is created by calling exactly the pragma identifier',
                                  b_and(mv.vue_name(c) is None, seq(c.get('sym'), expected)), {'expected': expected, 'got': c.get('sym'), 'from_comment': bool(names)}))
        obs.append(Obligation('createVNode is not imported when a pragma is in force', not has_cv_import))
    else:
        for c in callees:
            obs.append(Obligation("without a pragma every element and fragment is created by Vue's createVNode", mv.vue_name(c) == 'createVNode',
                                  {'got': c.get('sym')}))
        n_imp = len([1 for v in mv.vue.values() if v == 'createVNode'])
        obs.append(Obligation('createVNode is imported once', n_imp == 1, {'imports': n_imp}))
    return obs


def _top_span(item):
    from ..models import _span_of

    class _T:
        pass
    import types
    from .. import astio as A
    it = types.SimpleNamespace(T=A.types())
    try:
        return _span_of(it, item).fields[0]
    except Exception:
        return None


def _callees_in(mv, e):
    out = []

    def f(v, p):
        if isinstance(v, Adt) and v.ty == 'Expr' and v.variant == 'Call':
            cv = denote.call_view(v)
            if cv is not None and cv[0] is not None and len(cv[1]) >= 3 and not any(sp for sp, _ in cv[1]):
                if mv.vue_name(cv[0]) in (None, 'createVNode'):
                    out.append(cv[0])
    astio.walk(e, f)
    return out


def _fn_return(program, name):
    hit = []

    def f(v, p):
        if isinstance(v, Adt) and v.ty == 'FnDecl' and denote.pystr(v.get('ident').get('sym')) == name:
            def g(x, q):
                if isinstance(x, Adt) and x.ty == 'ReturnStmt' and is_some(x.get('arg')):
                    hit.append(deref(x.get('arg').fields[0]))
            astio.walk(v, g)
    astio.walk(program, f)
    return hit[0] if hit else None


def jobs(tier):
    out = []
    styles = ['block', 'jsdoc', 'line']
    for pragma in (None, 'opt'):
        out.append({'pragma': pragma})
        for c in CANDS:
            for st in styles:
                if st == 'line' and '\n' in CANDS[c]:
                    continue
                out.append({'head': (st, c), 'pragma': pragma})
            out.append({'mid': ('block', c), 'pragma': pragma})
            out.append({'inner': ('block', c), 'pragma': pragma})
        for c, d in itertools.product(['jsx', 'imp', 'plain', 'frag'], repeat=2):
            out.append({'head': ('block', c), 'mid': ('block', d), 'pragma': pragma})
        # two comments leading the same token: a non-annotation (also one that mentions @jsx) before / after the annotation
        firsts = ['imp', 'rt', 'frag', 'mid', 'plain', 'noname', 'glued'] if tier == 'quick' else [c for c in CANDS if c not in ('jsdocnl',)]
        for c in firsts:
            for st1, st2 in (('jsdoc', 'jsdoc'), ('line', 'line'), ('block', 'line'), ('line', 'block')):
                out.append({'head': (st1, c), 'head2': (st2, 'jsx'), 'pragma': pragma})
                out.append({'head': (st1, 'jsx2'), 'head2': (st2, c), 'pragma': pragma})
            out.append({'mid': ('line', c), 'mid2': ('block', 'jsx'), 'pragma': pragma})
        out.append({'head': ('line', 'sym5'), 'head2': ('block', 'jsx'), 'pragma': pragma})
        out.append({'head': ('block', 'jsx'), 'head2': ('line', 'sym5'), 'pragma': pragma})
        lens = [5, 6, 7] if tier == 'quick' else [4, 5, 6, 7, 8, 9]
        for n in lens:
            out.append({'head': ('block', 'sym%d' % n), 'pragma': pragma})
            if n <= 7 or tier != 'quick':
                out.append({'head': ('jsdoc', 'sym%d' % n), 'pragma': pragma})
            out.append({'mid': ('line', 'sym%d' % n), 'pragma': pragma})
        for st in styles:
            out.append({'head': (st, 'jsx'), 'pragma': pragma, 'shebang': True})
            out.append({'head': (st, 'imp'), 'head2': (st, 'jsx2'), 'pragma': pragma, 'shebang': True})
        out.append({'pragma': pragma, 'shebang': True})
        out.append({'mid': ('block', 'jsx'), 'pragma': pragma, 'shebang': True})
        out.append({'head': ('block', 'frag'), 'mid': ('line', 'jsx'), 'pragma': pragma, 'shebang': True})
        out.append({'head': ('block', 'sym6'), 'pragma': pragma, 'shebang': True})
        out.append({'head': ('line', 'sym5'), 'pragma': pragma, 'shebang': True})
        for body in ('dirs', 'misc'):
            out.append({'pragma': pragma, 'body': body})
            for st in styles:
                out.append({'head': (st, 'jsx'), 'pragma': pragma, 'body': body})
            out.append({'mid': ('block', 'jsx2'), 'pragma': pragma, 'body': body})
            out.append({'inner': ('block', 'jsx'), 'pragma': pragma, 'body': body})
            out.append({'head': ('block', 'imp'), 'mid': ('line', 'frag'), 'pragma': pragma, 'body': body})
            out.append({'head': ('block', 'sym6'), 'pragma': pragma, 'body': body})
    return [{'module': MOD, 'spec': s, 'max_paths': 60000} for s in out]


def classify(v, detail):
    if v['kind'] == 'panic':
        return 'panic'
    info = (detail or {}).get('info') or v.get('info') or {}
    ob = v['obligation']
    src = v['source']
    import re
    m = re.search(r'@jsx(\w*)', src)
    tag = m.group(1) if m else ''
    got = info.get('got')
    extra = ''
    if ob.startswith('without a pragma'):
        extra = ' other-@jsx-tag-taken-as-pragma' if tag else ' comment-taken-as-pragma'
    elif ob.startswith('every element and fragment is created'):
        exp = info.get('expected')
        if isinstance(got, str) and isinstance(exp, str) and got.startswith(exp) and got != exp:
            extra = ' trailing-words-kept-in-callee'
    return ob[:70] + extra


def main(argv):
    rep = common.Report(PROP)
    js = jobs(rep.tier)
    rep.bounds = {'symbolic_comment_text_length': '5..7 (quick) / 4..9 (thorough) code points, full Unicode minus line terminators', 'candidate_texts': sorted(CANDS),
                  'placements': 'file head, before a later top-level statement, inside a function; block / JSDoc / line style; <=2 comments', 'pragma_option': 'absent / "opt"'}
    rep.assumptions = ['whitespace = Unicode White_Space', 'several annotations in one module: any of them is accepted', 'the name is the first whitespace-delimited word after `@jsx`']
    res = common.run_jobs('mirsym.checks.elements', 'run_family_job', js)
    raw = []
    for r in res:
        raw.extend(r.pop('violations', []))
        rep.absorb(r)
    import importlib
    elements.triage(rep, PROP, importlib.import_module(MOD), raw, classify)
    if rep.validation_mismatches:
        rep.inconclusive.append('MIR executor and native build disagree on %d sampled instances' % len(rep.validation_mismatches))
    return common.finish(rep, explanation='whole-module symbolic execution with symbolic comment texts; the annotation grammar of the statement is evaluated on the same symbolic text')


def replay(path):
    import importlib
    return elements.replay_dir(PROP, importlib.import_module(MOD), path)
