"""The JSX text-cleaning rule (Babel's cleanJSXElementLiteralChild, which the Vue JSX plugin follows), written once
symbolically (over ctx.decide) and once concretely (for classification / replay)."""
import z3
from ..values import *

SP, TAB, LF, CR = 32, 9, 10, 13
# characters that cannot occur raw in a JSXText token (or are decoded by the parser): outside the symbolic alphabet
FORBIDDEN_TEXT = []      # every scalar value can occur in JSXText.value (via entities)


def valid_char(c, forbidden=FORBIDDEN_TEXT):
    cs = [z3.ULE(c, 0x10ffff), z3.Or(z3.ULT(c, 0xd800), z3.UGT(c, 0xdfff))]
    cs += [c != f for f in forbidden]
    return z3.And(cs)


def sym_clean(ctx, s, relax=()):
    """symbolic JSX rule. returns list of chars (ints / z3)"""
    cs = list(s.cs)
    n = len(cs)
    lines = []
    cur = []
    i = 0
    while i < n:
        c = cs[i]
        if ctx.decide(v_eq(c, CR)):
            lines.append(cur); cur = []
            if i + 1 < n and ctx.decide(v_eq(cs[i + 1], LF)):
                i += 1
        elif ctx.decide(v_eq(c, LF)):
            lines.append(cur); cur = []
        else:
            cur = cur + [c]
        i += 1
    lines.append(cur)

    def sp(c):
        return b_or(v_eq(c, SP), v_eq(c, TAB))
    out = []
    for k, l in enumerate(lines):
        if k != 0:
            while l and ctx.decide(sp(l[0])):
                l = l[1:]
        if k != len(lines) - 1:
            while l and ctx.decide(sp(l[-1])):
                l = l[:-1]
        if l:
            out.append([ite(v_eq(c, TAB), SP, c) for c in l])
    res = []
    for k, l in enumerate(out):
        if k:
            res.append(SP)
        res.extend(l)
    return res, len(lines)


WS = set()
for lo, hi in WS_RANGES:
    WS.update(range(lo, hi + 1))


def py_clean(s, relax=frozenset()):
    """concrete JSX rule with optional relaxations (each names one way the implementation is known to deviate):
       A  the first line is right-trimmed even when it is also the last line
       B  a lone CR is not a line break
       C  all Unicode White_Space (not only space/tab) is trimmed next to a line break
       D  a final line break does not open a new (empty) last line, so the line before it keeps its trailing whitespace
    """
    if 'B' in relax:
        raw = s.replace('\r\n', '\n').split('\n')
    else:
        raw = s.replace('\r\n', '\n').replace('\r', '\n').split('\n')
    if 'D' in relax and len(raw) > 1 and raw[-1] == '':
        raw = raw[:-1]
    ws = WS if 'C' in relax else {SP, TAB}
    out = []
    for k, l in enumerate(raw):
        l = l.replace('\t', ' ')
        first = k == 0
        last = k == len(raw) - 1
        if not first:
            while l and ord(l[0]) in ws:
                l = l[1:]
        if not last or ('A' in relax and first):
            while l and ord(l[-1]) in ws:
                l = l[:-1]
        if l:
            out.append(l)
    return ' '.join(out)


def classify(s, native_out):
    """-> role string: which documented deviation(s) explain native_out, or 'unexplained'."""
    import itertools
    if py_clean(s) == native_out:
        return None
    for r in range(1, 5):
        for combo in itertools.combinations('ABCD', r):
            if py_clean(s, frozenset(combo)) == native_out:
                return 'text-rule:' + '+'.join(combo)
    return 'text-rule:unexplained'


def unspecified(s):
    """single line consisting only of space/tab: the statement's summary and Babel's rule disagree; both accepted."""
    return len(s) > 0 and all(c in ' \t' for c in s)


def render_text(s):
    """source text whose JSXText.value is exactly s: `{ } < > &` and CR LF pairs go through numeric entities."""
    out = []
    for i, c in enumerate(s):
        crlf = (c == '\r' and s[i + 1:i + 2] == '\n') or (c == '\n' and i > 0 and s[i - 1] == '\r')
        if c in '{}<>&' or crlf:
            out.append('&#%d;' % ord(c))
        else:
            out.append(c)
    return ''.join(out)
