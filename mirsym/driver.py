"""Build-side plumbing: MIR dumps of /repo's current tree, the E3 native driver, caches and locks."""
import os, sys, subprocess, hashlib, json, time, fcntl, glob, shutil

VERIF = os.path.dirname(os.path.dirname(os.path.abspath(__file__)))
REPO = os.environ.get('VERIF_REPO', '/repo')
CACHE = os.path.join(VERIF, '.cache')
ENV = dict(os.environ, CARGO_NET_OFFLINE='true', CARGO_TERM_COLOR='never')


def repo_hash():
    h = hashlib.sha256()
    files = sorted(glob.glob(REPO + '/visitor/src/**/*.rs', recursive=True)) + [REPO + '/visitor/Cargo.toml', REPO + '/Cargo.lock', REPO + '/Cargo.toml']
    for f in files:
        h.update(f.encode())
        try:
            h.update(open(f, 'rb').read())
        except OSError:
            h.update(b'<missing>')
    return h.hexdigest()[:20]


class Lock:
    def __init__(self, name):
        os.makedirs(CACHE, exist_ok=True)
        self.path = os.path.join(CACHE, name + '.lock')

    def __enter__(self):
        self.f = open(self.path, 'w')
        fcntl.flock(self.f, fcntl.LOCK_EX)
        return self

    def __exit__(self, *a):
        fcntl.flock(self.f, fcntl.LOCK_UN)
        self.f.close()


def mir_dump(verbose=True):
    """-> (plain_text, verbose_text|None, info). Regenerated whenever /repo's sources change (cache keyed by their hash)."""
    h = repo_hash()
    d = os.path.join(CACHE, 'mir')
    os.makedirs(d, exist_ok=True)
    plain = os.path.join(d, h + '.mir')
    verb = os.path.join(d, h + '.vmir')
    info = {'repo_hash': h, 'cached': True, 'dump_s': 0.0}
    with Lock('mir'):
        if not (os.path.exists(plain) and (os.path.exists(verb) or not verbose)):
            info['cached'] = False
            t = time.time()
            for out, extra in ((plain, []), (verb, ['-Zverbose-internals'])):
                if out == verb and not verbose:
                    continue
                # force a re-run of rustc even if cargo thinks the crate is fresh
                env = dict(ENV, CARGO_TARGET_DIR=os.path.join(CACHE, 'mir-target' if REPO == '/repo' else 'mir-target-' + hashlib.sha256(REPO.encode()).hexdigest()[:10]))
                os.utime(os.path.join(REPO, 'visitor/src/lib.rs')) if False else None
                cmd = ['cargo', '+nightly', 'rustc', '--offline', '--lib', '--', '-Zunpretty=mir', '-C', 'debug-assertions=off',
                       '-C', 'overflow-checks=on', '--cfg', 'mirdump_' + h[:8] + ('v' if extra else 'p')] + extra
                r = subprocess.run(cmd, cwd=os.path.join(REPO, 'visitor'), env=env, capture_output=True, text=True)
                if r.returncode != 0 or len(r.stdout) < 1000:
                    raise RuntimeError('MIR dump failed:\n' + r.stderr[-3000:])
                with open(out + '.tmp', 'w') as f:
                    f.write(r.stdout)
                os.replace(out + '.tmp', out)
            info['dump_s'] = round(time.time() - t, 1)
            # keep the cache small: drop dumps of other trees
            for f in glob.glob(os.path.join(d, '*')):
                if not os.path.basename(f).startswith(h):
                    os.remove(f)
    return open(plain).read(), (open(verb).read() if verbose else None), info


def e3_build():
    """build the native driver against /repo's current tree; returns the binary path.
    With VERIF_REPO pointing elsewhere (seed testing in a scratch worktree) a private copy of the driver crate and target dir is used."""
    tgt = os.path.join(CACHE, 'e3-target')
    src = os.path.join(VERIF, 'e3')
    if REPO != '/repo':
        tag = hashlib.sha256(REPO.encode()).hexdigest()[:10]
        tgt = os.path.join(CACHE, 'e3-alt-' + tag, 'target')
        alt = os.path.join(CACHE, 'e3-alt-' + tag, 'e3')
        os.makedirs(os.path.join(alt, 'src'), exist_ok=True)
        with open(os.path.join(alt, 'Cargo.toml'), 'w') as f:
            f.write(open(os.path.join(src, 'Cargo.toml')).read().replace('/repo/visitor', REPO + '/visitor'))
        for fn in os.listdir(os.path.join(src, 'src')):
            shutil.copy(os.path.join(src, 'src', fn), os.path.join(alt, 'src', fn))
        src = alt
    with Lock('e3'):
        lock_src = os.path.join(REPO, 'Cargo.lock')
        lock_dst = os.path.join(src, 'Cargo.lock')
        if not os.path.exists(lock_dst) or open(lock_src).read() != open(lock_dst).read() and 'name = "e3"' not in open(lock_dst).read():
            shutil.copy(lock_src, lock_dst)
        r = subprocess.run(['cargo', 'build', '--offline', '--quiet'], cwd=src, env=dict(ENV, CARGO_TARGET_DIR=tgt),
                           capture_output=True, text=True)
        if r.returncode != 0:
            raise RuntimeError('e3 build failed:\n' + r.stderr[-3000:])
    return os.path.join(tgt, 'debug', 'e3')


class E3:
    """long-running native driver process (restarted if it dies, e.g. on stack overflow)."""

    def __init__(self, binary=None):
        self.binary = binary or e3_build()
        self.p = None
        self.n = 0

    def _start(self):
        self.p = subprocess.Popen([self.binary], stdin=subprocess.PIPE, stdout=subprocess.PIPE, stderr=subprocess.DEVNULL, text=True, bufsize=1)

    def run(self, src, options=None, tsx=False, dump=True, twice=False):
        if self.p is None or self.p.poll() is not None:
            self._start()
        self.n += 1
        req = {'id': self.n, 'src': src, 'tsx': tsx, 'options': options or {}, 'dump': dump, 'twice': twice}
        try:
            self.p.stdin.write(json.dumps(req) + '\n')
            self.p.stdin.flush()
            line = self.p.stdout.readline()
        except (BrokenPipeError, OSError):
            line = ''
        if not line:
            code = self.p.poll()
            self.p = None
            return {'crash': True, 'exit': code}
        return json.loads(line)

    def close(self):
        if self.p is not None:
            try:
                self.p.stdin.close(); self.p.wait(timeout=5)
            except Exception:
                self.p.kill()
            self.p = None
