"""Build-side plumbing: MIR dumps of /repo's current tree, the E3 native driver, caches and locks."""
import os, sys, subprocess, hashlib, json, time, fcntl, glob, shutil

VERIF = os.path.dirname(os.path.dirname(os.path.abspath(__file__)))
REPO = os.environ.get('VERIF_REPO', '/repo')
CACHE = os.path.join(VERIF, '.cache')
ENV = dict(os.environ, CARGO_NET_OFFLINE='true', CARGO_TERM_COLOR='never')


def repo_hash():
    h = hashlib.sha256()
    files = sorted(glob.glob(REPO + '/visitor/src/**/*.rs', recursive=True)) + [REPO + '/visitor/Cargo.toml', REPO + '/Cargo.lock', REPO + '/Cargo.toml']
    for f in files:
        h.update(f.encode())
        try:
            h.update(open(f, 'rb').read())
        except OSError:
            h.update(b'<missing>')
    return h.hexdigest()[:20]


class Lock:
    def __init__(self, name):
        os.makedirs(CACHE, exist_ok=True)
        self.path = os.path.join(CACHE, name + '.lock')

    def __enter__(self):
        self.f = open(self.path, 'w')
        fcntl.flock(self.f, fcntl.LOCK_EX)
        return self

    def __exit__(self, *a):
        fcntl.flock(self.f, fcntl.LOCK_UN)
        self.f.close()


_TEXT = {}


def _read_cached(path):
    if path not in _TEXT:
        _TEXT.clear() if len(_TEXT) > 4 else None
        _TEXT[path] = open(path).read()
    return _TEXT[path]


def _repo_tag():
    return '' if REPO == '/repo' else '-' + hashlib.sha256(REPO.encode()).hexdigest()[:10]


def mir_dump(verbose=True):
    """-> (plain_text, verbose_text|None, info). Regenerated whenever /repo's sources change (cache keyed by their hash)."""
    h = repo_hash()
    d = os.path.join(CACHE, 'mir')
    os.makedirs(d, exist_ok=True)
    plain = os.path.join(d, h + '.mir')
    verb = os.path.join(d, h + '.vmir')
    info = {'repo_hash': h, 'cached': True, 'dump_s': 0.0}
    if os.path.exists(plain) and (os.path.exists(verb) or not verbose):       # written atomically: no lock needed to read
        return _read_cached(plain), (_read_cached(verb) if verbose else None), info
    with Lock('mir' + _repo_tag()):
        if not (os.path.exists(plain) and (os.path.exists(verb) or not verbose)):
            info['cached'] = False
            t = time.time()
            for out, extra in ((plain, []), (verb, ['-Zverbose-internals'])):
                if out == verb and not verbose:
                    continue
                # force a re-run of rustc even if cargo thinks the crate is fresh
                env = dict(ENV, CARGO_TARGET_DIR=os.path.join(CACHE, 'mir-target' if REPO == '/repo' else 'mir-target-alt'))
                os.utime(os.path.join(REPO, 'visitor/src/lib.rs')) if False else None
                cmd = ['cargo', '+nightly', 'rustc', '--offline', '--lib', '--', '-Zunpretty=mir', '-C', 'debug-assertions=off',
                       '-C', 'overflow-checks=on', '--cfg', 'mirdump_' + h[:8] + ('v' if extra else 'p')] + extra
                r = subprocess.run(cmd, cwd=os.path.join(REPO, 'visitor'), env=env, capture_output=True, text=True)
                if r.returncode != 0 or len(r.stdout) < 1000:
                    raise RuntimeError('MIR dump failed:\n' + r.stderr[-3000:])
                with open(out + '.tmp', 'w') as f:
                    f.write(r.stdout)
                os.replace(out + '.tmp', out)
            info['dump_s'] = round(time.time() - t, 1)
            # keep the cache small: drop dumps of other trees
            old = sorted((f for f in glob.glob(os.path.join(d, '*')) if not os.path.basename(f).startswith(h)), key=os.path.getmtime)
            for f in old[:-8]:          # keep the last few trees (scratch worktrees run beside /repo)
                try:
                    os.remove(f)
                except OSError:
                    pass
    return _read_cached(plain), (_read_cached(verb) if verbose else None), info


_E3_BUILT = {}


def e3_build():
    h = repo_hash()
    if h not in _E3_BUILT:
        _E3_BUILT.clear()
        _E3_BUILT[h] = _e3_build(h)
    return _E3_BUILT[h]


def _e3_src_hash():
    hh = hashlib.sha256()
    for f in sorted(glob.glob(os.path.join(VERIF, 'e3', 'src', '*.rs'))) + [os.path.join(VERIF, 'e3', 'Cargo.toml')]:
        hh.update(open(f, 'rb').read())
    return hh.hexdigest()[:12]


def _e3_build(h):
    """build the native driver against /repo's current tree; returns the binary path.
    With VERIF_REPO pointing elsewhere (seed testing in a scratch worktree) a private copy of the driver crate and target dir is used."""
    tgt = os.path.join(CACHE, 'e3-target')
    src = os.path.join(VERIF, 'e3')
    if REPO != '/repo':
        tag = hashlib.sha256(REPO.encode()).hexdigest()[:10]
        tgt = os.path.join(CACHE, 'e3-alt-target')        # shared by all scratch worktrees: only the path crates rebuild
        alt = os.path.join(CACHE, 'e3-alt-' + tag, 'e3')
        os.makedirs(os.path.join(alt, 'src'), exist_ok=True)
        with open(os.path.join(alt, 'Cargo.toml'), 'w') as f:
            f.write(open(os.path.join(src, 'Cargo.toml')).read().replace('/repo/visitor', REPO + '/visitor'))
        for fn in os.listdir(os.path.join(src, 'src')):
            shutil.copy(os.path.join(src, 'src', fn), os.path.join(alt, 'src', fn))
        src = alt
    stamp = os.path.join(CACHE, 'e3-stamp' + _repo_tag())
    want = h + ':' + _e3_src_hash()
    final = os.path.join(os.path.dirname(src), 'e3.bin') if REPO != '/repo' else os.path.join(tgt, 'debug', 'e3')
    try:
        if open(stamp).read() == want and os.path.exists(final):        # this tree's driver is already built
            return final
    except OSError:
        pass
    with Lock('e3' + ('' if REPO == '/repo' else '-alt')):
        lock_src = os.path.join(REPO, 'Cargo.lock')
        lock_dst = os.path.join(src, 'Cargo.lock')
        if not os.path.exists(lock_dst) or open(lock_src).read() != open(lock_dst).read() and 'name = "e3"' not in open(lock_dst).read():
            shutil.copy(lock_src, lock_dst)
        r = subprocess.run(['cargo', 'build', '--offline', '--quiet'], cwd=src, env=dict(ENV, CARGO_TARGET_DIR=tgt),
                           capture_output=True, text=True)
        if r.returncode != 0:
            raise RuntimeError('e3 build failed:\n' + r.stderr[-3000:])
        if REPO != '/repo':
            # the shared target dir's binary is overwritten by the next scratch worktree: keep a private copy
            priv = os.path.join(os.path.dirname(src), 'e3.bin')
            built = os.path.join(tgt, 'debug', 'e3')
            if not os.path.exists(priv) or open(priv, 'rb').read() != open(built, 'rb').read():
                shutil.copy2(built, priv + '.tmp')
                os.replace(priv + '.tmp', priv)
        with open(stamp + '.tmp', 'w') as f:
            f.write(want)
        os.replace(stamp + '.tmp', stamp)
    return final


class E3:
    """long-running native driver process (restarted if it dies, e.g. on stack overflow)."""

    def __init__(self, binary=None):
        self.binary = binary or e3_build()
        self.p = None
        self.n = 0

    def _start(self):
        self.p = subprocess.Popen([self.binary], stdin=subprocess.PIPE, stdout=subprocess.PIPE, stderr=subprocess.DEVNULL, text=True, bufsize=1)

    def run(self, src, options=None, tsx=False, dump=True, twice=False, prelude=None, options_text=None):
        if self.p is None or self.p.poll() is not None:
            self._start()
        self.n += 1
        req = {'id': self.n, 'src': src, 'tsx': tsx, 'options': options or {}, 'dump': dump, 'twice': twice}
        if options_text is not None:
            req['options_text'] = options_text      # the configuration as JSON text (read with serde_json::from_str, as the plugin entry does)
        if prelude:
            req['prelude'] = [dict(p, id=0, dump=False) for p in prelude]
        try:
            self.p.stdin.write(json.dumps(req) + '\n')
            self.p.stdin.flush()
            line = self.p.stdout.readline()
        except (BrokenPipeError, OSError):
            line = ''
        if not line:
            code = self.p.poll()
            self.p = None
            return {'crash': True, 'exit': code}
        return json.loads(line)

    def close(self):
        if self.p is not None:
            try:
                self.p.stdin.close(); self.p.wait(timeout=5)
            except Exception:
                self.p.kill()
            self.p = None
