import sys, os, importlib


def main():
    args = sys.argv[1:]
    if not args:
        print('usage: check <ID> [--tier quick|thorough] [--replay dir]'); return 2
    prop = args[0]
    if '--tier' in args:
        os.environ['VERIF_TIER'] = args[args.index('--tier') + 1]
    mod = importlib.import_module('mirsym.checks.' + prop.lower())
    if '--replay' in args:
        return mod.replay(args[args.index('--replay') + 1].rstrip('/'))
    return mod.main(args[1:])


if __name__ == '__main__':
    sys.exit(main())
