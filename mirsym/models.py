"""Models of the external (non-crate) functions the visitor's MIR calls. Every model is listed in evidence when used.
All string models are symbolic-aware: branching goes through ctx.decide()."""
import re, glob, os
import z3
from .values import *
from .interp import Unsupported, Panic, clone_val, _strip_generics

_MODELS = []
_CACHE = {}


def model(pat):
    rx = re.compile(pat)

    def deco(f):
        _MODELS.append((rx, f))
        return f
    return deco


def norm(callee):
    f = callee
    f = f.replace('bitflags::__private::', '')
    f = re.sub(r'swc_core::(ecma::ast|swc_atoms::hstr|swc_atoms|common::comments|common::errors|common::sync|common|ecma::visit|ecma::utils|plugin::errors)::', '', f)
    f = re.sub(r'\b(std|core|alloc)::', '', f)
    f = re.sub(r'\b(option|result|vec|string|boxed|borrow|collections|btree_map|btree_set|hash_map|iter|convert|ops|cmp|clone|default|marker|rc|indexmap::set|indexmap::map|indexmap|fnv|hash)::', '', f)
    return f


# self-test of the concolic fallback: pretend the matching library functions have no model
_DISABLED = re.compile(os.environ['VERIF_DISABLE_MODEL']) if os.environ.get('VERIF_DISABLE_MODEL') else None


class Models:
    def __init__(self):
        self.used = set()

    def call(self, it, ctx, callee, args):
        ent = _CACHE.get(callee)
        if ent is None:
            f = norm(callee)
            if _DISABLED is not None and _DISABLED.search(f):
                raise Unsupported('no model for ' + callee[:300] + ' (disabled by VERIF_DISABLE_MODEL)')
            for rx, fn in _MODELS:
                m = rx.search(f)
                if m:
                    ent = (fn, m, f); break
            else:
                raise Unsupported('no model for ' + callee[:300])
            _CACHE[callee] = ent
        fn, m, f = ent
        return fn(it, ctx, args, m, f)


# ---------------------------------------------------------------- helpers
def S(v):
    """view a value as SStr (through refs, Cow, Box)."""
    v = deref(v)
    while isinstance(v, Adt) and v.ty == 'Cow':
        v = deref(v.fields[0])
    if isinstance(v, SStr):
        return v
    raise Unsupported('expected string, got ' + repr(v)[:80])


def L(v):
    v = deref(v)
    if isinstance(v, Iter):
        return v.rest()
    if isinstance(v, list):
        return v
    raise Unsupported('expected list, got ' + type(v).__name__)


def _items(v):
    """remaining items of an iterator value; a concrete `lo..hi` counts as one"""
    v = deref(v)
    if isinstance(v, Adt) and v.ty == 'Range':
        lo, hi = deref(v.fields[0]), deref(v.fields[1])
        if is_sym(lo) or is_sym(hi):
            raise Unsupported('symbolic range iteration')
        v.fields[0] = hi if hi > lo else lo
        return list(range(lo, hi))
    return v.rest()


def sub(s, cs):
    return SStr(cs)


def refs_of(lst):
    return [Ref(lst, i) for i in range(len(lst))]


def opt(v):
    return Some(v) if v is not None else NoneV()


def struct_eq(ctx, a, b):
    """structural equality (derive(PartialEq) semantics) -> bool | z3"""
    a = deref(a); b = deref(b)
    if isinstance(a, SStr) or isinstance(b, SStr):
        return seq(S(a), S(b))
    if isinstance(a, Adt) and a.ty == 'Cow':
        return struct_eq(ctx, a.fields[0], b)
    if isinstance(b, Adt) and b.ty == 'Cow':
        return struct_eq(ctx, a, b.fields[0])
    if isinstance(a, Adt) and isinstance(b, Adt):
        if a.variant != b.variant or len(a.fields) != len(b.fields):
            return False
        return b_and(*[struct_eq(ctx, x, y) for x, y in zip(a.fields, b.fields)])
    if isinstance(a, list) and isinstance(b, list):
        if len(a) != len(b):
            return False
        return b_and(*[struct_eq(ctx, x, y) for x, y in zip(a, b)])
    if isinstance(a, float) or isinstance(b, float):
        return a == b
    return v_eq(a, b)


@model(r'^<BindingIdent as Deref(Mut)?>::deref(_mut)?$')
def m_binding_ident_deref(it, ctx, a, m, f):
    b = deref(a[0])
    return Ref(b.fields, b.names.index('id'))


@model(r'^Span::(with_hi|with_lo)$')
def m_span_with(it, ctx, a, m, f):
    sp = deref(a[0]); v = deref(a[1])
    if isinstance(v, Adt):
        v = v.fields[0]
    lo, hi = sp.fields[0], sp.fields[1]
    return Adt('Span', None, [lo, v] if m.group(1) == 'with_hi' else [v, hi], ['lo', 'hi'])


@model(r'^Span::dummy_with_cmt$')
def m_dummy_with_cmt(it, ctx, a, m, f):
    n = ctx.__dict__.get('dummy_cnt', 0xFFFF0000)
    ctx.dummy_cnt = n + 1
    return Adt('Span', None, [n, n], ['lo', 'hi'])


@model(r' as (ops::)?(function::)?Fn(Mut|Once)?<\(.*\)>>::call(_mut|_once)?$')
def m_closure_call(it, ctx, a, m, f):
    args = a[1] if isinstance(a[1], list) else [a[1]]
    return it.call_closure(ctx, a[0], list(args))


# ---------------------------------------------------------------- drops / no-ops / identity conversions
@model(r' as Drop>::drop$|^mem::drop::|^mem::forget|^must_use::|^hint::')
def m_nop(it, ctx, a, m, f):
    return a[0] if f.startswith('must_use') else []


@model(r'^Box::<.*>::new$|^Box::<.*>::from$|^Rc::<.*>::new$|^Lrc::<.*>::new$')
def m_box_new(it, ctx, a, m, f):
    return a[0]


@model(r'^Box::<\[.*\]>::new_uninit$')
def m_new_uninit(it, ctx, a, m, f):
    return Uninit()


@model(r'box_assume_init_into_vec_unsafe')
def m_assume_init(it, ctx, a, m, f):
    return list(deref(a[0]).val)


@model(r'as Deref(Mut)?>::deref(_mut)?$|as AsRef<.*>>::as_ref$|as Borrow<.*>>::borrow$|String::as_str$|Atom::as_str$|Vec::<.*>::as_slice$|Vec::<.*>::as_mut_slice$|::as_ref$' if False else r'as Deref(Mut)?>::deref(_mut)?$|as AsRef<.*>>::as_ref$|as Borrow<.*>>::borrow$|String::as_str$|Atom::as_str$|Vec::<.*>::as_(mut_)?slice$')
def m_deref(it, ctx, a, m, f):
    v = a[0]
    if isinstance(v, Ref):
        inner = v.get()
        if isinstance(inner, Adt) and inner.ty == 'Cow':
            return inner.fields[0] if isinstance(inner.fields[0], Ref) else Ref(inner.fields, 0)
        if isinstance(inner, Ref):      # &Box<T> etc: Box is transparent, &&T collapses for Deref of &T
            return inner if 'Lazy' not in f else inner
        return v
    if isinstance(v, Adt) and v.ty == 'Cow':
        return v.fields[0]
    return v


@model(r'as Clone>::clone$|as ToOwned>::to_owned$|::to_vec$|Cow::<.*>::into_owned$|Cow::<.*>::to_mut$')
def m_clone(it, ctx, a, m, f):
    v = deref(a[0])
    if isinstance(v, Adt) and v.ty == 'Cow' and 'Cow' in f and 'into_owned' in f:
        return clone_val(deref(v.fields[0]))
    return clone_val(v)


@model(r"<Cow<'_, str> as From<(&str|&'\w+ str|String|&String)>>::from$")
def m_cow_from(it, ctx, a, m, f):
    v = a[0]
    return Adt('Cow', 'Owned' if 'String>' in f and '&' not in m.group(1) else 'Borrowed', [v])


@model(r'as (Into|From)<.*>>::(into|from)$|as ToString>::to_string$|^String::from$|::into_boxed_str$|String::into_boxed_str')
def m_into(it, ctx, a, m, f):
    v = deref(a[0])
    if 'Into<IdentName>' in f or f.startswith('<IdentName as From<'):
        if isinstance(v, Adt) and v.ty == 'Ident':
            return Adt('IdentName', None, [v.get('span'), v.get('sym')], ['span', 'sym'])
        return Adt('IdentName', None, [Adt('Span', None, [0, 0], ['lo', 'hi']), S(v)], ['span', 'sym'])
    if re.search(r'<IdentName as Into<Ident>>|<Ident as From<IdentName>>', f):
        return Adt('Ident', None, [v.get('span'), 0, v.get('sym'), False], ['span', 'ctxt', 'sym', 'optional'])
    if re.search(r'<Ident as Into<BindingIdent>>|<BindingIdent as From<Ident>>', f):
        return Adt('BindingIdent', None, [v, NoneV()], ['id', 'type_ann'])
    if re.search(r'<BindingIdent as Into<Ident>>|<Ident as From<BindingIdent>>', f):
        return v.get('id')
    if re.search(r'Into<(Atom|String|Cow<.*str>|Box<str>)>|From<(&str|&String|String|Atom|Cow<.*str>|&Atom|Box<str>)>', f) or 'ToString' in f or f == 'String::from':
        if isinstance(v, Adt) and v.ty == 'Cow':
            v = deref(v.fields[0])
        if isinstance(v, SStr):
            return v
    if re.search(r'<regex::Regex as Into<options::Regex>>', f):
        return Adt('Regex', None, [v])
    if isinstance(v, (SStr, int, float, bool)):
        return v
    m2 = re.search(r'<(\w+) as Into<(\w+)>>', f)
    if m2 and m2.group(1) == m2.group(2):
        return v
    # swc_ecma_ast's derived conversions: wrap a node into the enum variant that holds it / ExprOrSpread from an expression
    m3 = re.search(r'^<(.*) as From<(.*)>>::from$', f)
    if m3:
        tgt, src = m3.group(1), m3.group(2)
    else:
        m3 = re.search(r'^<(.*) as Into<(.*)>>::into$', f)
        tgt, src = (m3.group(2), m3.group(1)) if m3 else (None, None)
    if tgt:
        unbox = lambda t: re.sub(r'^(?:Box<(.*)>)$', r'\1', t.strip())
        bt, bs = unbox(tgt), unbox(src)
        if bt == bs:
            return v
        if bt == 'ExprOrSpread' and bs == 'Expr':
            return Adt('ExprOrSpread', None, [NoneV(), v], ['spread', 'expr'])
        vs = [vn for vn, fts, _, _ in it.T.enums.get(bt, []) if len(fts) == 1 and unbox(fts[0]) == bs]
        if len(vs) == 1 and bt not in ('Option', 'Result'):
            return Adt(bt, vs[0], [v])
    raise Unsupported('conversion ' + f[:200] + ' on ' + repr(v)[:60])


# ---------------------------------------------------------------- strings
@model(r'str::<impl str>::replace::<char>$')
def m_replace(it, ctx, a, m, f):
    s = S(a[0]); pat = a[1]; rep = S(a[2])
    out = []
    for c in s.cs:
        if ctx.decide(v_eq(c, pat)):
            out.extend(rep.cs)
        else:
            out.append(c)
    return sub(s, out)


@model(r'str::<impl str>::replace::<&str>$')
def m_replace_str(it, ctx, a, m, f):
    s = S(a[0]); pat = S(a[1]); rep = S(a[2])
    k = len(pat.cs)
    if k == 0:
        raise Unsupported('replace with empty pattern')
    out = []
    i = 0
    n = len(s.cs)
    while i < n:
        if i + k <= n and ctx.decide(seq(SStr(s.cs[i:i + k]), pat)):
            out.extend(rep.cs); i += k
        else:
            out.append(s.cs[i]); i += 1
    return sub(s, out)


@model(r'str::<impl str>::split::<\[char; (\d+)\]>$')
def m_split_chars(it, ctx, a, m, f):
    s = S(a[0]); seps = L(a[1])
    parts = []; cur = []
    for c in s.cs:
        if ctx.decide(b_or(*[v_eq(c, x) for x in seps])):
            parts.append(sub(s, cur)); cur = []
        else:
            cur.append(c)
    parts.append(sub(s, cur))
    return Iter(parts)


@model(r'str::<impl str>::trim_end_matches::<char>$')
def m_trim_end_matches(it, ctx, a, m, f):
    s = S(a[0]); ch = a[1]
    return sub(s, _trim_end(ctx, s.cs, lambda c: v_eq(c, ch)))


@model(r'str::<impl str>::lines$')
def m_lines(it, ctx, a, m, f):
    s = S(a[0])
    res = []; cur = []
    for c in s.cs:
        if ctx.decide(v_eq(c, 10)):
            line = cur
            if line and ctx.decide(v_eq(line[-1], 13)):
                line = line[:-1]
            res.append(sub(s, line)); cur = []
        else:
            cur = cur + [c]
    if cur:
        res.append(sub(s, cur))
    return Iter(res)


def _trim_start(ctx, cs, pred):
    cs = list(cs)
    while cs and ctx.decide(pred(cs[0])):
        cs = cs[1:]
    return cs


def _trim_end(ctx, cs, pred):
    cs = list(cs)
    while cs and ctx.decide(pred(cs[-1])):
        cs = cs[:-1]
    return cs


@model(r'str::<impl str>::(trim|trim_start|trim_end)$')
def m_trim(it, ctx, a, m, f):
    s = S(a[0]); cs = s.cs
    if m.group(1) in ('trim', 'trim_start'):
        cs = _trim_start(ctx, cs, is_rust_whitespace)
    if m.group(1) in ('trim', 'trim_end'):
        cs = _trim_end(ctx, cs, is_rust_whitespace)
    return sub(s, cs)


_CHARPAT = r'(char|\[char; \d+\]|&\[char; \d+\]|&\[char\]|fn\(char\) -> bool \{.*\}|\{closure@.*\})'


def _char_pred(it, ctx, pat, ty):
    """a `Pattern` that matches single chars (char, [char; N], &[char], FnMut(char) -> bool) as a predicate char -> bool term.
    Closure predicates are run on the interpreter (they may fork)."""
    if ty == 'char':
        return lambda c: v_eq(c, pat)
    if ty.startswith('[char') or ty.startswith('&[char'):
        xs = list(deref(pat))
        return lambda c: b_or(*[v_eq(c, x) for x in xs])
    return lambda c: it.call_closure(ctx, pat, [c])


@model(r'str::<impl str>::(trim_start_matches|trim_end_matches|trim_matches)::<' + _CHARPAT + r'>$')
def m_trim_matches_pat(it, ctx, a, m, f):
    s = S(a[0]); pred = _char_pred(it, ctx, a[1], m.group(2)); cs = s.cs
    if m.group(1) in ('trim_start_matches', 'trim_matches'):
        cs = _trim_start(ctx, cs, pred)
    if m.group(1) in ('trim_end_matches', 'trim_matches'):
        cs = _trim_end(ctx, cs, pred)
    return sub(s, cs)


@model(r'str::<impl str>::contains::<(\[char; \d+\]|&\[char; \d+\]|&\[char\]|fn\(char\) -> bool \{.*\}|\{closure@.*\})>$')
def m_contains_pat(it, ctx, a, m, f):
    s = S(a[0]); pred = _char_pred(it, ctx, a[1], m.group(1))
    if m.group(1).startswith(('[', '&')):
        return b_or(*[pred(c) for c in s.cs])
    for c in s.cs:
        if ctx.decide(pred(c)):
            return True
    return False


@model(r'str::<impl str>::(starts_with|ends_with)::<(\[char; \d+\]|&\[char; \d+\]|&\[char\])>$')
def m_starts_with_set(it, ctx, a, m, f):
    s = S(a[0])
    if not s.cs:
        return False
    return _char_pred(it, ctx, a[1], m.group(2))(s.cs[0] if m.group(1) == 'starts_with' else s.cs[-1])


@model(r'str::<impl str>::(find|rfind)::<(\[char; \d+\]|&\[char; \d+\]|&\[char\]|fn\(char\) -> bool \{.*\}|\{closure@.*\})>$')
def m_find_pat(it, ctx, a, m, f):
    s = S(a[0]); pred = _char_pred(it, ctx, a[1], m.group(2))
    rng = range(len(s.cs)) if m.group(1) == 'find' else range(len(s.cs) - 1, -1, -1)
    for i in rng:
        if ctx.decide(pred(s.cs[i])):
            return Some(it.utf8_len(ctx, SStr(s.cs[:i])))
    return NoneV()


@model(r'str::<impl str>::trim_start_matches::<char>$')
def m_trim_start_matches(it, ctx, a, m, f):
    s = S(a[0]); ch = a[1]
    return sub(s, _trim_start(ctx, s.cs, lambda c: v_eq(c, ch)))


@model(r'str::<impl str>::strip_prefix::<(char|&str)>$')
def m_strip_prefix(it, ctx, a, m, f):
    s = S(a[0])
    if m.group(1) == 'char':
        if len(s.cs) >= 1 and ctx.decide(v_eq(s.cs[0], a[1])):
            return Some(sub(s, s.cs[1:]))
        return NoneV()
    p = S(a[1])
    n = len(p.cs)
    if len(s.cs) >= n and ctx.decide(seq(SStr(s.cs[:n]), p)):
        return Some(sub(s, s.cs[n:]))
    return NoneV()


@model(r'str::<impl str>::split::<char>$')
def m_split(it, ctx, a, m, f):
    s = S(a[0]); sep = a[1]
    parts = []; cur = []
    for c in s.cs:
        if ctx.decide(v_eq(c, sep)):
            parts.append(sub(s, cur)); cur = []
        else:
            cur.append(c)
    parts.append(sub(s, cur))
    return Iter(parts)


@model(r'str::<impl str>::to_ascii_lowercase$')
def m_lower(it, ctx, a, m, f):
    s = S(a[0])
    return sub(s, [_lower(c) for c in s.cs])


def _lower(c):
    if isinstance(c, int):
        return c + 32 if 65 <= c <= 90 else c
    return z3.If(z3.And(z3.UGE(c, 65), z3.ULE(c, 90)), c + 32, c)


@model(r'str::<impl str>::eq_ignore_ascii_case$')
def m_eq_ic(it, ctx, a, m, f):
    x = S(a[0]); y = S(a[1])
    return seq(SStr([_lower(c) for c in x.cs]), SStr([_lower(c) for c in y.cs]))


@model(r'str::<impl str>::(starts_with|ends_with)::<(fn\(char\) -> bool \{.*\}|\{closure@.*\})>$')
def m_starts_with_pred(it, ctx, a, m, f):
    s = S(a[0])
    if not s.cs:
        return False
    c = s.cs[0] if m.group(1) == 'starts_with' else s.cs[-1]
    return it.call_closure(ctx, a[1], [c])


@model(r'str::<impl str>::starts_with::<(&str|char|&String)>$')
def m_starts_with(it, ctx, a, m, f):
    s = S(a[0])
    if m.group(1) == 'char':
        return len(s.cs) >= 1 and v_eq(s.cs[0], a[1])
    p = S(a[1])
    n = len(p.cs)
    return len(s.cs) >= n and seq(SStr(s.cs[:n]), p)


@model(r'str::<impl str>::ends_with::<(&str|char)>$')
def m_ends_with(it, ctx, a, m, f):
    s = S(a[0])
    if m.group(1) == 'char':
        return len(s.cs) >= 1 and v_eq(s.cs[-1], a[1])
    p = S(a[1])
    n = len(p.cs)
    return len(s.cs) >= n and seq(SStr(s.cs[len(s.cs) - n:]), p)


@model(r'str::<impl str>::as_bytes$|String::as_bytes$')
def m_as_bytes(it, ctx, a, m, f):
    s = S(a[0])
    out = []
    for c in s.cs:
        if isinstance(c, int):
            out.extend(chr(c).encode('utf-8'))
            continue
        if ctx.decide(z3.ULT(c, 0x80)):
            out.append(z3.Extract(7, 0, c))
        elif ctx.decide(z3.ULT(c, 0x800)):
            out.append(z3.Extract(7, 0, 0xC0 | z3.LShR(c, 6)))
            out.append(z3.Extract(7, 0, 0x80 | (c & 0x3F)))
        elif ctx.decide(z3.ULT(c, 0x10000)):
            out.append(z3.Extract(7, 0, 0xE0 | z3.LShR(c, 12)))
            out.append(z3.Extract(7, 0, 0x80 | (z3.LShR(c, 6) & 0x3F)))
            out.append(z3.Extract(7, 0, 0x80 | (c & 0x3F)))
        else:
            out.append(z3.Extract(7, 0, 0xF0 | z3.LShR(c, 18)))
            out.append(z3.Extract(7, 0, 0x80 | (z3.LShR(c, 12) & 0x3F)))
            out.append(z3.Extract(7, 0, 0x80 | (z3.LShR(c, 6) & 0x3F)))
            out.append(z3.Extract(7, 0, 0x80 | (c & 0x3F)))
    return out


@model(r'<impl u8>::is_ascii_lowercase$|<impl char>::is_ascii_lowercase$')
def m_is_ascii_lower(it, ctx, a, m, f):
    return in_range(deref(a[0]), 97, 122)


@model(r'<impl u8>::is_ascii_uppercase$|<impl char>::is_ascii_uppercase$')
def m_is_ascii_upper(it, ctx, a, m, f):
    return in_range(deref(a[0]), 65, 90)


@model(r'str::<impl str>::contains::<(char|&str|&String)>$')
def m_contains(it, ctx, a, m, f):
    s = S(a[0])
    if m.group(1) == 'char':
        return b_or(*[v_eq(c, a[1]) for c in s.cs])
    p = S(a[1]); k = len(p.cs)
    if k == 0:
        return True
    return b_or(*[seq(SStr(s.cs[i:i + k]), p) for i in range(0, len(s.cs) - k + 1)])


@model(r'str::<impl str>::(find|rfind)::<(char|&str)>$')
def m_find(it, ctx, a, m, f):
    s = S(a[0])
    if m.group(2) == 'char':
        pred = lambda i: v_eq(s.cs[i], a[1]); k = 1
    else:
        p = S(a[1]); k = len(p.cs)
        pred = lambda i: seq(SStr(s.cs[i:i + k]), p)
    rng = range(0, len(s.cs) - k + 1)
    if m.group(1) == 'rfind':
        rng = reversed(rng)
    for i in rng:
        if ctx.decide(pred(i)):
            return Some(it.utf8_len(ctx, SStr(s.cs[:i])))
    return NoneV()


@model(r'str::<impl str>::split_once::<(char|&str)>$')
def m_split_once(it, ctx, a, m, f):
    s = S(a[0])
    if m.group(1) == 'char':
        pred = lambda i: v_eq(s.cs[i], a[1]); k = 1
    else:
        p = S(a[1]); k = len(p.cs)
        pred = lambda i: seq(SStr(s.cs[i:i + k]), p)
    for i in range(0, len(s.cs) - k + 1):
        if ctx.decide(pred(i)):
            return Some([SStr(s.cs[:i]), SStr(s.cs[i + k:])])
    return NoneV()


@model(r'str::<impl str>::strip_suffix::<(char|&str)>$')
def m_strip_suffix(it, ctx, a, m, f):
    s = S(a[0])
    if m.group(1) == 'char':
        if len(s.cs) >= 1 and ctx.decide(v_eq(s.cs[-1], a[1])):
            return Some(SStr(s.cs[:-1]))
        return NoneV()
    p = S(a[1]); n = len(p.cs)
    if len(s.cs) >= n and ctx.decide(seq(SStr(s.cs[len(s.cs) - n:]), p)):
        return Some(SStr(s.cs[:len(s.cs) - n]))
    return NoneV()


@model(r'str::<impl str>::trim_matches::<char>$')
def m_trim_matches(it, ctx, a, m, f):
    s = S(a[0]); ch = a[1]
    return SStr(_trim_end(ctx, _trim_start(ctx, s.cs, lambda c: v_eq(c, ch)), lambda c: v_eq(c, ch)))


@model(r'str::<impl str>::split_whitespace$|str::<impl str>::split_ascii_whitespace$')
def m_split_ws(it, ctx, a, m, f):
    s = S(a[0]); parts = []; cur = []
    pred = is_rust_whitespace if 'ascii' not in f else (lambda c: b_or(v_eq(c, 32), in_range(c, 9, 10), in_range(c, 12, 13)))
    for c in s.cs:
        if ctx.decide(pred(c)):
            if cur:
                parts.append(SStr(cur)); cur = []
        else:
            cur.append(c)
    if cur:
        parts.append(SStr(cur))
    return Iter(parts)


@model(r'<impl char>::is_whitespace$')
def m_char_is_ws(it, ctx, a, m, f):
    return is_rust_whitespace(deref(a[0]))


@model(r'<impl char>::is_ascii_whitespace$|<impl u8>::is_ascii_whitespace$')
def m_char_is_ascii_ws(it, ctx, a, m, f):
    c = deref(a[0])
    return b_or(v_eq(c, 32), in_range(c, 9, 10), in_range(c, 12, 13))


@model(r'<impl char>::is_ascii_alphabetic$|<impl u8>::is_ascii_alphabetic$')
def m_char_is_alpha(it, ctx, a, m, f):
    c = deref(a[0])
    return b_or(in_range(c, 65, 90), in_range(c, 97, 122))


@model(r'<impl char>::is_ascii_digit$|<impl u8>::is_ascii_digit$')
def m_char_is_digit(it, ctx, a, m, f):
    return in_range(deref(a[0]), 48, 57)


@model(r'<impl char>::is_ascii_alphanumeric$|<impl u8>::is_ascii_alphanumeric$')
def m_char_is_alnum(it, ctx, a, m, f):
    c = deref(a[0])
    return b_or(in_range(c, 65, 90), in_range(c, 97, 122), in_range(c, 48, 57))


@model(r'<impl char>::is_ascii$|<impl u8>::is_ascii$')
def m_char_is_ascii(it, ctx, a, m, f):
    return v_ule(deref(a[0]), 127)


@model(r'<impl char>::is_(uppercase|lowercase)$')
def m_char_is_case(it, ctx, a, m, f):
    c = deref(a[0])
    if is_sym(c) or c > 127:
        raise Unsupported('Unicode case predicate on symbolic / non-ASCII char')
    return (65 <= c <= 90) if m.group(1) == 'uppercase' else (97 <= c <= 122)


@model(r'str::<impl str>::to_(lowercase|uppercase)$')
def m_str_case(it, ctx, a, m, f):
    s = S(a[0])
    for c in s.cs:
        if is_sym(c):
            if not ctx.decide(z3.ULT(c, 128)):
                raise Unsupported('Unicode case mapping of a symbolic non-ASCII char')
        elif c > 127:
            raise Unsupported('Unicode case mapping')
    if m.group(1) == 'lowercase':
        return SStr([_lower(c) for c in s.cs])
    return SStr([(c - 32 if 97 <= c <= 122 else c) if isinstance(c, int) else z3.If(z3.And(z3.UGE(c, 97), z3.ULE(c, 122)), c - 32, c) for c in s.cs])


@model(r'str::<impl str>::to_ascii_uppercase$')
def m_upper(it, ctx, a, m, f):
    s = S(a[0])
    return SStr([(c - 32 if 97 <= c <= 122 else c) if isinstance(c, int) else z3.If(z3.And(z3.UGE(c, 97), z3.ULE(c, 122)), c - 32, c) for c in s.cs])


@model(r'str::<impl str>::is_char_boundary$')
def m_is_char_boundary(it, ctx, a, m, f):
    raise Unsupported('is_char_boundary')


@model(r'str::<impl str>::char_indices$')
def m_char_indices(it, ctx, a, m, f):
    s = S(a[0]); out = []; b = 0
    for c in s.cs:
        out.append([b, c])
        b += it.utf8_len(ctx, SStr([c]))
    return Iter(out)


@model(r'str::<impl str>::bytes$')
def m_bytes(it, ctx, a, m, f):
    return Iter(m_as_bytes(it, ctx, a, m, f))


@model(r'^String::new$|<String as Default>::default$')
def m_string_new(it, ctx, a, m, f):
    return SStr(())


@model(r'^String::push_str$')
def m_push_str(it, ctx, a, m, f):
    r = a[0]; r.set(SStr(tuple(S(r.get()).cs) + tuple(S(a[1]).cs))); return []


@model(r'^String::push$')
def m_push_ch(it, ctx, a, m, f):
    r = a[0]; r.set(SStr(tuple(S(r.get()).cs) + (a[1],))); return []


@model(r'<String as Add<&str>>::add$')
def m_string_add(it, ctx, a, m, f):
    return SStr(tuple(S(a[0]).cs) + tuple(S(a[1]).cs))


@model(r'str::<impl str>::repeat$')
def m_repeat(it, ctx, a, m, f):
    return SStr(tuple(S(a[0]).cs) * a[1])


@model(r'str::<impl str>::chars$')
def m_chars(it, ctx, a, m, f):
    return Iter(list(S(a[0]).cs))


@model(r'<impl char>::to_ascii_lowercase$|<impl u8>::to_ascii_lowercase$')
def m_char_lower(it, ctx, a, m, f):
    return _lower(deref(a[0]))


@model(r'<impl char>::to_ascii_uppercase$|<impl u8>::to_ascii_uppercase$')
def m_char_upper(it, ctx, a, m, f):
    c = deref(a[0])
    if isinstance(c, int):
        return c - 32 if 97 <= c <= 122 else c
    return z3.If(z3.And(z3.UGE(c, 97), z3.ULE(c, 122)), c - 32, c)


def _upper(c):
    if isinstance(c, int):
        return c - 32 if 97 <= c <= 122 else c
    return z3.If(z3.And(z3.UGE(c, 97), z3.ULE(c, 122)), c - 32, c)


def _char_index_of_byte(ctx, s, off):
    """char index k with utf8_len(s[:k]) == off; a byte offset that is out of range or inside a character panics in the real code"""
    k = 0; b = 0
    while b < off:
        if k >= len(s.cs):
            raise Panic('str index out of range')
        c = s.cs[k]
        if isinstance(c, int):
            b += 1 if c < 0x80 else 2 if c < 0x800 else 3 if c < 0x10000 else 4
        elif ctx.decide(z3.ULT(c, 0x80)):
            b += 1
        elif ctx.decide(z3.ULT(c, 0x800)):
            b += 2
        elif ctx.decide(z3.ULT(c, 0x10000)):
            b += 3
        else:
            b += 4
        k += 1
    if b != off:
        raise Panic('byte index %d is not a char boundary' % off)
    return k


def _range_bounds(ctx, s, r, kind):
    if kind == 'RangeFrom':
        return _char_index_of_byte(ctx, s, r.fields[0]), len(s.cs)
    if kind == 'RangeTo':
        return 0, _char_index_of_byte(ctx, s, r.fields[0])
    if kind == 'RangeFull':
        return 0, len(s.cs)
    lo = _char_index_of_byte(ctx, s, r.fields[0]); hi = _char_index_of_byte(ctx, s, r.fields[1])
    if lo > hi:
        raise Panic('slice index starts after it ends')
    return lo, hi


@model(r'^str::traits::<impl Index<(RangeFrom|RangeTo|Range)<usize>> for str>::index$|<(?:str|String) as Index<(RangeFrom|RangeTo|Range|RangeFull)(?:<usize>)?>>::index$')
def m_str_index(it, ctx, a, m, f):
    s = S(a[0]); r = deref(a[1])
    kind = m.group(1) or m.group(2)
    lo, hi = _range_bounds(ctx, s, r, kind)
    return SStr(s.cs[lo:hi])


@model(r'^str::traits::<impl IndexMut<(RangeFrom|RangeTo|Range)<usize>> for str>::index_mut$|<(?:str|String) as IndexMut<(RangeFrom|RangeTo|Range|RangeFull)(?:<usize>)?>>::index_mut$')
def m_str_index_mut(it, ctx, a, m, f):
    """`&mut s[a..b]`: a view that in-place operations write through"""
    if not isinstance(a[0], Ref):
        raise Unsupported('index_mut on a non-reference string')
    s = S(a[0]); r = deref(a[1])
    kind = m.group(1) or m.group(2)
    lo, hi = _range_bounds(ctx, s, r, kind)
    return Adt('StrViewMut', None, [a[0], lo, hi], ['target', 'lo', 'hi'])


@model(r'str::<impl str>::make_ascii_(lowercase|uppercase)$|^String::make_ascii_(lowercase|uppercase)$')
def m_make_ascii_case(it, ctx, a, m, f):
    conv = _lower if 'lowercase' in f else _upper
    v = a[0]
    tgt = deref(v) if not (isinstance(v, Adt) and v.ty == 'StrViewMut') else v
    if isinstance(tgt, Adt) and tgt.ty == 'StrViewMut':
        ref = tgt.fields[0]; lo, hi = tgt.fields[1], tgt.fields[2]
        while isinstance(ref.get(), Ref):
            ref = ref.get()
        s = ref.get()
        cs = list(s.cs)
        ref.set(SStr(cs[:lo] + [conv(c) for c in cs[lo:hi]] + cs[hi:]))
        return []
    if isinstance(v, Ref):
        s = S(v)
        r = v
        while isinstance(r.get(), Ref):
            r = r.get()
        r.set(SStr([conv(c) for c in s.cs]))
        return []
    raise Unsupported('make_ascii_case on ' + repr(v)[:60])


@model(r'str::<impl str>::is_empty$|String::is_empty$|Atom::is_empty$')
def m_str_is_empty(it, ctx, a, m, f):
    return len(S(a[0]).cs) == 0


@model(r'str::<impl str>::len$|String::len$')
def m_str_len(it, ctx, a, m, f):
    return it.utf8_len(ctx, S(a[0]))


@model(r'slice::<impl \[&str\]>::join::<&str>$|<impl \[String\]>::join')
def m_join(it, ctx, a, m, f):
    parts = L(a[0]); sep = S(a[1])
    out = []
    for k, p in enumerate(parts):
        if k:
            out.extend(sep.cs)
        out.extend(S(p).cs)
    return SStr(out)


@model(r' as PartialEq(<.*>)?>::(eq|ne)$')
def m_eq(it, ctx, a, m, f):
    r = struct_eq(ctx, a[0], a[1])
    return r if m.group(2) == 'eq' else b_not(r)


@model(r' as PartialOrd(<.*>)?>::(lt|le|gt|ge)$')
def m_ord(it, ctx, a, m, f):
    x = deref(a[0]); y = deref(a[1])
    if isinstance(x, SStr):
        lt = s_lt(x, y); e = seq(x, y)
        return {'lt': lt, 'le': b_or(lt, e), 'gt': b_not(b_or(lt, e)), 'ge': b_not(lt)}[m.group(2)]
    return {'lt': x < y, 'le': x <= y, 'gt': x > y, 'ge': x >= y}[m.group(2)]


# ---------------------------------------------------------------- format!
@model(r"^fmt::rt::Argument::<'_>::new_(display|debug)")
def m_fmt_arg(it, ctx, a, m, f):
    v = deref(a[0])
    if isinstance(v, Adt) and v.ty == 'Cow':
        v = deref(v.fields[0])
    if isinstance(v, SStr):
        return v
    if '::<char>' in f:
        return SStr([v])
    if isinstance(v, int) and not isinstance(v, bool):
        return SStr.of(str(v))
    raise Unsupported('format argument ' + repr(v)[:80])


@model(r"^Arguments::<'_>::new::<")
def m_fmt_args(it, ctx, a, m, f):
    tpl = deref(a[0]); argv = list(L(a[1]))
    b = tpl if isinstance(tpl, list) else [ord(c) for c in S(tpl).py()]
    out = []
    i = 0
    while i < len(b):
        c = b[i]
        if c == 0:
            break
        if c < 0x80:
            out.extend(bytes(b[i + 1:i + 1 + c]).decode('utf-8').encode('utf-32-le') and [ord(ch) for ch in bytes(b[i + 1:i + 1 + c]).decode('utf-8')])
            i += 1 + c
        elif c == 0xc0:
            out.extend(S(argv.pop(0)).cs); i += 1
        else:
            raise Unsupported('format template byte %#x' % c)
    return SStr(out)


@model(r"^Arguments::<'_>::from_str")
def m_fmt_from_str(it, ctx, a, m, f):
    return S(a[0])


@model(r'^fmt::format$|^format$|^fmt::format::')
def m_format(it, ctx, a, m, f):
    return a[0]


# ---------------------------------------------------------------- Vec / slices
@model(r'^Vec::<.*>::(new|with_capacity)$|^Vec::<.*>::new_in|<Vec<.*> as Default>::default$')
def m_vec_new(it, ctx, a, m, f):
    return []


@model(r'^Vec::<.*>::push$')
def m_vec_push(it, ctx, a, m, f):
    L(a[0]).append(a[1]); return []


@model(r'^Vec::<.*>::pop$')
def m_vec_pop(it, ctx, a, m, f):
    v = L(a[0])
    return Some(v.pop()) if v else NoneV()


@model(r'^Vec::<.*>::insert$')
def m_vec_insert(it, ctx, a, m, f):
    v = L(a[0])
    if a[1] > len(v):
        raise Panic('Vec::insert index out of bounds')
    v.insert(a[1], a[2]); return []


@model(r'^Vec::<.*>::remove$')
def m_vec_remove(it, ctx, a, m, f):
    v = L(a[0])
    if a[1] >= len(v):
        raise Panic('Vec::remove index out of bounds')
    return v.pop(a[1])


@model(r'^Vec::<.*>::extend_from_slice$')
def m_vec_extend_slice(it, ctx, a, m, f):
    L(a[0]).extend(clone_val(list(L(a[1])))); return []


@model(r'<Vec<.*> as Extend<.*>>::extend::')
def m_vec_extend(it, ctx, a, m, f):
    L(a[0]).extend(L(a[1])); return []


def _seq_range(r, n):
    """(lo, hi) of a range value over a sequence of length n"""
    r = deref(r)
    if r == [] or (isinstance(r, Adt) and r.ty == 'RangeFull'):
        return 0, n
    if isinstance(r, Adt):
        if r.ty == 'Range':
            return deref(r.fields[0]), deref(r.fields[1])
        if r.ty == 'RangeTo':
            return 0, deref(r.fields[0])
        if r.ty == 'RangeFrom':
            return deref(r.fields[0]), n
        if r.ty == 'RangeToInclusive':
            return 0, deref(r.fields[0]) + 1
        if r.ty == 'RangeInclusive':
            return deref(r.fields[0]), deref(r.fields[1]) + 1
    raise Unsupported('range ' + repr(r)[:60])


@model(r'^Vec::<.*>::splice::')
def m_vec_splice(it, ctx, a, m, f):
    v = L(a[0]); rng = deref(a[1]); items = L(a[2])
    lo, hi = _seq_range(rng, len(v))
    if is_sym(lo) or is_sym(hi):
        raise Unsupported('symbolic splice range')
    if lo > hi or hi > len(v):
        raise Panic('splice range out of bounds')
    removed = v[lo:hi]
    v[lo:hi] = items
    return Iter(removed)


@model(r'^(Vec::<.*>|slice::<impl \[.*\]>)::(is_empty|len)$')
def m_vec_len(it, ctx, a, m, f):
    v = L(a[0])
    return len(v) == 0 if m.group(2) == 'is_empty' else len(v)


@model(r'^slice::<impl \[.*\]>::(first|last)$|^Vec::<.*>::(first|last)$')
def m_first(it, ctx, a, m, f):
    v = L(a[0])
    if not v:
        return NoneV()
    return Some(Ref(v, 0 if (m.group(1) or m.group(2)) == 'first' else len(v) - 1))


@model(r'^slice::<impl \[.*\]>::(get|get_mut)::<(Range|RangeTo|RangeFrom|RangeFull|RangeInclusive|RangeToInclusive)(<usize>)?>$')
def m_slice_get_range(it, ctx, a, m, f):
    v = L(a[0]); r = deref(a[1]); kind = m.group(2)
    n = len(v)
    if kind == 'Range':
        lo, hi = r.fields[0], r.fields[1]
    elif kind == 'RangeTo':
        lo, hi = 0, r.fields[0]
    elif kind == 'RangeFrom':
        lo, hi = r.fields[0], n
    elif kind == 'RangeFull':
        lo, hi = 0, n
    elif kind == 'RangeToInclusive':
        lo, hi = 0, r.fields[0] + 1
    else:
        raise Unsupported('slice get with ' + kind)
    if not (isinstance(lo, int) and isinstance(hi, int)):
        raise Unsupported('symbolic slice range')
    if lo > hi or hi > n:
        return NoneV()
    return Some(v[lo:hi])        # a sub-slice is a copy here: fine for reads (get), not modelled for get_mut writes


@model(r'^slice::<impl \[.*\]>::(get|get_mut)::<usize>$')
def m_get(it, ctx, a, m, f):
    v = L(a[0]); i = a[1]
    return Some(Ref(v, i)) if i < len(v) else NoneV()


@model(r'^slice::<impl \[.*\]>::(iter|iter_mut)$')
def m_slice_iter(it, ctx, a, m, f):
    v = L(a[0])
    return Iter(refs_of(v))


@model(r'^slice::<impl \[.*\]>::fill$')
def m_fill(it, ctx, a, m, f):
    v = L(a[0])
    for i in range(len(v)):
        v[i] = clone_val(a[1])
    return []


@model(r'^mem::take::<')
def m_take(it, ctx, a, m, f):
    r = a[0]
    v = r.get()
    if isinstance(v, list):
        r.set([])
    elif isinstance(v, Adt) and v.ty == 'Option':
        r.set(NoneV())
    elif isinstance(v, bool) or (is_sym(v) and z3.is_bool(v)):
        r.set(False)
    elif isinstance(v, int):
        r.set(0)
    elif isinstance(v, SStr):
        r.set(SStr(()))
    else:
        raise Unsupported('mem::take of ' + repr(v)[:60])
    return v


def _dummy_span():
    return Adt('Span', None, [0, 0], ['lo', 'hi'])


def _dummy_of(ty):
    """swc's `Take::dummy()` for the AST types whose dummy is `Invalid`/empty (see swc_ecma_ast)."""
    ty = ty.strip()
    mb = re.match(r'^(?:std::boxed::)?Box<(.*)>$', ty)
    if mb:
        return _dummy_of(mb.group(1))
    t = ty.split('<')[0].split('::')[-1]
    if t == 'Vec':
        return []
    if t == 'Option':
        return NoneV()
    if t in ('Expr', 'Pat'):
        return Adt(t, 'Invalid', [Adt('Invalid', None, [_dummy_span()], ['span'])])
    if t == 'Stmt':
        return Adt('Stmt', 'Empty', [Adt('EmptyStmt', None, [_dummy_span()], ['span'])])
    if t == 'Span':
        return _dummy_span()
    raise Unsupported('Take::dummy of ' + ty)


@model(r'^<(.*) as (?:[\w:]*::)?Take>::(take|dummy)$')
def m_swc_take(it, ctx, a, m, f):
    d = _dummy_of(m.group(1))
    if m.group(2) == 'dummy':
        return d
    r = a[0]
    v = r.get(); r.set(d)
    return v


@model(r'as Clone>::clone_from$')
def m_clone_from(it, ctx, a, m, f):
    # `dst.clone_from(&src)`: dst becomes a copy of src (allocation reuse is not observable)
    a[0].set(clone_val(deref(a[1])))
    return []


@model(r'^mem::replace::<')
def m_replace_mem(it, ctx, a, m, f):
    r = a[0]
    v = r.get(); r.set(a[1])
    return v


@model(r'<ops::Range<usize> as|^ops::Range')
def m_range(it, ctx, a, m, f):
    raise Unsupported('range op ' + f)


@model(r'^(Vec|IndexSet|VecDeque)::<.*>::retain::|^(Vec)::<.*>::retain_mut::')
def m_retain(it, ctx, a, m, f):
    v = L(a[0]); keep = []
    for i in range(len(v)):
        r = it.call_closure(ctx, a[1], [Ref(v, i)])
        if ctx.decide(r):
            keep.append(v[i])
    v[:] = keep
    return []


@model(r'^IndexMap::<.*>::retain::')
def m_imap_retain(it, ctx, a, m, f):
    v = L(a[0]); keep = []
    for e in v:
        if ctx.decide(it.call_closure(ctx, a[1], [Ref(e, 0), Ref(e, 1)])):
            keep.append(e)
    v[:] = keep
    return []


@model(r'^(Vec|IndexSet|IndexMap|BTreeSet|BTreeMap|HashMap|String)::<?.*>?::clear$|^String::clear$')
def m_clear(it, ctx, a, m, f):
    r = a[0]
    v = deref(r)
    if isinstance(v, list):
        v[:] = []
    else:
        r.set(SStr(()))
    return []


@model(r'^Vec::<.*>::truncate$')
def m_truncate(it, ctx, a, m, f):
    v = L(a[0]); del v[a[1]:]; return []


@model(r'^Vec::<.*>::dedup_by::<')
def m_dedup_by(it, ctx, a, m, f):
    """same_bucket(&mut a, &mut b): a is the later element, b the kept earlier one; a is removed when it returns true"""
    v = L(a[0])
    i = 1
    while i < len(v):
        if ctx.decide(it.call_closure(ctx, a[1], [Ref(v, i), Ref(v, i - 1)])):
            del v[i]
        else:
            i += 1
    return []


@model(r'^Vec::<.*>::split_off$')
def m_split_off(it, ctx, a, m, f):
    v = L(a[0]); at = a[1]
    if not isinstance(at, int):
        raise Unsupported('symbolic split_off index')
    if at > len(v):
        raise Panic('split_off index out of bounds')
    tail = v[at:]; del v[at:]
    return tail


@model(r'^Vec::<.*>::append$')
def m_append(it, ctx, a, m, f):
    v = L(a[0]); w = L(a[1]); v.extend(w); w[:] = []; return []


@model(r'^Vec::<.*>::(swap_remove)$')
def m_swap_remove(it, ctx, a, m, f):
    v = L(a[0]); i = a[1]
    if i >= len(v):
        raise Panic('swap_remove index out of bounds')
    x = v[i]; v[i] = v[-1]; v.pop()
    return x


@model(r'^Vec::<.*>::drain::<')
def m_drain(it, ctx, a, m, f):
    v = L(a[0]); r = deref(a[1])
    if isinstance(r, Adt) and r.ty in ('Range',):
        lo, hi = r.fields[0], r.fields[1]
    elif isinstance(r, Adt) and r.ty == 'RangeFull' or r == []:
        lo, hi = 0, len(v)
    elif isinstance(r, Adt) and r.ty == 'RangeFrom':
        lo, hi = r.fields[0], len(v)
    elif isinstance(r, Adt) and r.ty == 'RangeTo':
        lo, hi = 0, r.fields[0]
    else:
        raise Unsupported('drain range ' + repr(r))
    if hi > len(v) or lo > hi:
        raise Panic('drain range out of bounds')
    out = v[lo:hi]; del v[lo:hi]
    return Iter(out)


@model(r'^(Vec::<.*>|slice::<impl \[.*\]>)::(reverse)$')
def m_reverse(it, ctx, a, m, f):
    L(a[0]).reverse(); return []


@model(r'^slice::<impl \[.*\]>::(split_first|split_last)$')
def m_split_first(it, ctx, a, m, f):
    v = L(a[0])
    if not v:
        return NoneV()
    if m.group(1) == 'split_first':
        return Some([Ref(v, 0), v[1:]])
    return Some([Ref(v, len(v) - 1), v[:-1]])


@model(r'^slice::<impl \[.*\]>::(starts_with|ends_with)$')
def m_slice_starts(it, ctx, a, m, f):
    v = L(a[0]); w = L(a[1])
    if len(w) > len(v):
        return False
    part = v[:len(w)] if m.group(1) == 'starts_with' else v[len(v) - len(w):]
    return b_and(*[struct_eq(ctx, x, y) for x, y in zip(part, w)])


@model(r'^slice::<impl \[.*\]>::concat::|^slice::<impl \[.*\]>::to_vec$')
def m_concat(it, ctx, a, m, f):
    v = L(a[0])
    if 'to_vec' in f:
        return clone_val(list(v))
    out = []
    for x in v:
        out.extend(L(x))
    return out


@model(r'^IndexSet::<.*>::(shift_remove|swap_remove|remove)::<')
def m_iset_remove(it, ctx, a, m, f):
    v = L(a[0])
    for i, y in enumerate(v):
        if ctx.decide(struct_eq(ctx, y, a[1])):
            if m.group(1) == 'shift_remove':
                del v[i]
            else:               # swap_remove (and `remove`, its deprecated alias): the last element takes the place
                v[i] = v[-1]; v.pop()
            return True
    return False


@model(r'^IndexSet::<.*>::(get_index|first|last)$')
def m_iset_get_index(it, ctx, a, m, f):
    v = L(a[0])
    i = a[1] if m.group(1) == 'get_index' else (0 if m.group(1) == 'first' else len(v) - 1)
    return Some(Ref(v, i)) if 0 <= i < len(v) else NoneV()


@model(r'^IndexMap::<.*>::(get|get_mut)::<')
def m_imap_get(it, ctx, a, m, f):
    for e in L(a[0]):
        if ctx.decide(struct_eq(ctx, e[0], a[1])):
            return Some(Ref(e, 1))
    return NoneV()


@model(r'^IndexMap::<.*>::(contains_key)::<|^BTreeMap::<.*>::contains_key::<')
def m_imap_contains(it, ctx, a, m, f):
    for e in L(a[0]):
        if ctx.decide(struct_eq(ctx, e[0], a[1])):
            return True
    return False


@model(r'^IndexMap::<.*>::(into_iter|into_values|into_keys|values|keys|values_mut)$|^BTreeMap::<.*>::(into_iter|into_values|into_keys|values|keys|values_mut)$')
def m_imap_into_iter(it, ctx, a, m, f):
    kind = m.group(1) or m.group(2)
    v = L(a[0])
    if kind == 'into_iter': return Iter([[e[0], e[1]] for e in v])
    if kind == 'into_values': return Iter([e[1] for e in v])
    if kind == 'into_keys': return Iter([e[0] for e in v])
    if kind in ('values', 'values_mut'): return Iter([Ref(e, 1) for e in v])
    return Iter([Ref(e, 0) for e in v])


@model(r'^BTreeSet::<.*>::insert$')
def m_bset_insert(it, ctx, a, m, f):
    return _set_insert(ctx, L(a[0]), a[1])


@model(r'^BTreeSet::<.*>::contains::<')
def m_bset_contains(it, ctx, a, m, f):
    for y in L(a[0]):
        if ctx.decide(struct_eq(ctx, y, a[1])):
            return True
    return False


@model(r'^BTreeMap::<.*>::insert$')
def m_bmap_insert(it, ctx, a, m, f):
    mp = L(a[0]); key = a[1]
    for e in mp:
        if ctx.decide(struct_eq(ctx, e[0], key)):
            old = e[1]; e[1] = a[2]
            return Some(old)
    i = 0
    while i < len(mp) and ctx.decide(s_lt(S(mp[i][0]), S(key))):
        i += 1
    mp.insert(i, [key, a[2]])
    return NoneV()


@model(r'^Entry::<.*>::(or_insert|or_insert_with|or_default)(::<.*>)?$')
def m_entry_or_insert(it, ctx, a, m, f):
    e = a[0]
    if e.variant == 'Occupied':
        return Ref(e.fields[0], 1)
    mp, key = e.fields[0][0], e.fields[0][1]
    kind = m.group(1)
    v = a[1] if kind == 'or_insert' else it.call_closure(ctx, a[1], []) if kind == 'or_insert_with' else None
    if kind == 'or_default':
        raise Unsupported('Entry::or_default')
    ent = [key, v]
    if len(e.fields[0]) > 2 and e.fields[0][2] == 'append':       # insertion-ordered map
        mp.append(ent)
        return Ref(ent, 1)
    i = 0
    while i < len(mp) and ctx.decide(s_lt(S(mp[i][0]), S(key))):
        i += 1
    mp.insert(i, ent)
    return Ref(ent, 1)


@model(r'^iter::once::<|^once::<')
def m_once(it, ctx, a, m, f):
    return Iter([a[0]])


@model(r'^iter::empty::<|^empty::<')
def m_empty(it, ctx, a, m, f):
    return Iter([])


@model(r'Iterator>::(skip|take|step_by|nth)$')
def m_skip_take(it, ctx, a, m, f):
    i = deref(a[0]); k = m.group(1); n = a[1]
    r = i.rest()
    if k == 'skip': return Iter(r[n:])
    if k == 'take': return Iter(r[:n])
    if k == 'step_by': return Iter(r[::n])
    i.items = r; i.pos = min(n + 1, len(r))
    return Some(r[n]) if n < len(r) else NoneV()


@model(r'Iterator>::(min|max)$')
def m_minmax(it, ctx, a, m, f):
    r = _items(a[0])
    if not r: return NoneV()
    if any(is_sym(deref(x)) for x in r): raise Unsupported('symbolic min/max')
    return Some(min(r, key=deref) if m.group(1) == 'min' else max(r, key=deref))


@model(r'Iterator>::sum::<')
def m_sum(it, ctx, a, m, f):
    return sum(deref(x) for x in _items(a[0]))


@model(r'Iterator>::partition::<')
def m_partition(it, ctx, a, m, f):
    yes = []; no = []
    for x in _items(a[0]):
        (yes if ctx.decide(it.call_closure(ctx, a[1], [mkref(x)])) else no).append(x)
    return [yes, no]


@model(r'Iterator>::unzip::<')
def m_unzip(it, ctx, a, m, f):
    xs = []; ys = []
    for p in _items(a[0]):
        p = deref(p); xs.append(p[0]); ys.append(p[1])
    return [xs, ys]


@model(r'Iterator>::(take_while|skip_while|map_while)::')
def m_while(it, ctx, a, m, f):
    kind = m.group(1); out = []
    r = _items(a[0])
    if kind == 'take_while':
        for x in r:
            if not ctx.decide(it.call_closure(ctx, a[1], [mkref(x)])): break
            out.append(x)
    elif kind == 'skip_while':
        i = 0
        while i < len(r) and ctx.decide(it.call_closure(ctx, a[1], [mkref(r[i])])): i += 1
        out = r[i:]
    else:
        for x in r:
            o = it.call_closure(ctx, a[1], [x])
            if not is_some(o): break
            out.append(o.fields[0])
    return Iter(out)


@model(r'Iterator>::(rposition|rfind)::')
def m_rsearch(it, ctx, a, m, f):
    r = _items(a[0])
    for k in range(len(r) - 1, -1, -1):
        arg = r[k] if m.group(1) == 'rposition' else mkref(r[k])
        if ctx.decide(it.call_closure(ctx, a[1], [arg])):
            return Some(k if m.group(1) == 'rposition' else r[k])
    return NoneV()


@model(r'Iterator>::(eq|ne)::<')
def m_iter_eq(it, ctx, a, m, f):
    x = _items(a[0]); y = L(a[1]) if not isinstance(deref(a[1]), Iter) else deref(a[1]).rest()
    r = struct_eq(ctx, x, y)
    return r if m.group(1) == 'eq' else b_not(r)


@model(r'DoubleEndedIterator>::(next_back)$')
def m_next_back(it, ctx, a, m, f):
    i = deref(a[0])
    if i.pos < len(i.items):
        return Some(i.items.pop())
    return NoneV()


@model(r'Iterator>::(size_hint|len)$|ExactSizeIterator>::len$')
def m_iter_len(it, ctx, a, m, f):
    i = deref(a[0]); n = len(i.items) - i.pos
    return n if 'size_hint' not in f else [n, Some(n)]


@model(r'^Option::<.*>::(is_some_and|is_none_or)::<')
def m_is_some_and(it, ctx, a, m, f):
    o = deref(a[0]); some = o.variant == 'Some'
    if m.group(1) == 'is_some_and':
        return it.call_closure(ctx, a[1], [o.fields[0]]) if some else False
    return it.call_closure(ctx, a[1], [o.fields[0]]) if some else True


# ---------------------------------------------------------------- iterators (eager)
@model(r' as IntoIterator>::into_iter$')
def m_into_iter(it, ctx, a, m, f):
    v = a[0]
    if isinstance(v, Iter):
        return v
    hs = deref(v)
    if isinstance(hs, Adt) and hs.ty == 'StdHashSet':
        return m_hset_iter(it, ctx, a, m, f)
    if isinstance(v, Ref):
        inner = v.get()
        if isinstance(inner, list):
            return Iter(refs_of(inner))
        if isinstance(inner, Iter):
            return inner
        if isinstance(inner, Adt) and inner.ty == 'Option':
            return Iter([Ref(inner.fields, 0)] if is_some(inner) else [])
    if isinstance(v, list):
        return Iter(v)
    if isinstance(v, Adt) and v.ty == 'Option':
        return Iter(list(v.fields))
    raise Unsupported('into_iter of ' + repr(v)[:80])


@model(r'Iterator>::next$')
def m_next(it, ctx, a, m, f):
    i = deref(a[0])
    if i.pos < len(i.items):
        i.pos += 1
        return Some(i.items[i.pos - 1])
    return NoneV()


@model(r'^Peekable::<.*>::peek$')
def m_peek(it, ctx, a, m, f):
    i = deref(a[0])
    return Some(Ref(i.items, i.pos)) if i.pos < len(i.items) else NoneV()


@model(r'Iterator>::(peekable|fuse|by_ref|into_iter|copied|cloned)$|Iterator>::(copied|cloned)::')
def m_iter_id(it, ctx, a, m, f):
    i = deref(a[0])
    if 'cloned' in f or 'copied' in f:
        return Iter([clone_val(deref(x)) for x in i.rest()])
    return i


@model(r'Iterator>::enumerate$')
def m_enumerate(it, ctx, a, m, f):
    return Iter([[k, x] for k, x in enumerate(_items(a[0]))])


@model(r'Iterator>::rev$')
def m_rev(it, ctx, a, m, f):
    return Iter(list(reversed(_items(a[0]))))


@model(r'Iterator>::chain::')
def m_chain(it, ctx, a, m, f):
    return Iter(_items(a[0]) + L(a[1]))


@model(r'Iterator>::zip::')
def m_zip(it, ctx, a, m, f):
    x = _items(a[0]); y = L(a[1]) if not isinstance(deref(a[1]), Iter) else deref(a[1]).rest()
    return Iter([[p, q] for p, q in zip(x, y)])


@model(r'Iterator>::(map|filter_map|filter|flat_map|take_while|skip_while|inspect)::')
def m_adapt(it, ctx, a, m, f):
    src = deref(a[0]); c = a[1]; kind = m.group(1)
    items = src.rest() if isinstance(src, Iter) else list(src)
    out = []
    for x in items:
        if kind == 'map':
            out.append(it.call_closure(ctx, c, [x]))
        elif kind == 'filter_map':
            r = it.call_closure(ctx, c, [x])
            if is_some(r):
                out.append(r.fields[0])
        elif kind == 'filter':
            r = it.call_closure(ctx, c, [mkref(x)])
            if ctx.decide(r):
                out.append(x)
        elif kind == 'flat_map':
            r = it.call_closure(ctx, c, [x])
            out.extend(_iter_items(r))
        else:
            raise Unsupported('iterator adaptor ' + kind)
    return Iter(out)


def _iter_items(r):
    r = deref(r)
    if isinstance(r, Iter):
        return r.rest()
    if isinstance(r, list):
        return r
    if isinstance(r, Adt) and r.ty == 'Option':
        return list(r.fields)
    raise Unsupported('flatten of ' + repr(r)[:60])


@model(r'Iterator>::flatten$')
def m_flatten(it, ctx, a, m, f):
    out = []
    for x in _items(a[0]):
        out.extend(_iter_items(x))
    return Iter(out)


@model(r'Iterator>::fold::')
def m_fold(it, ctx, a, m, f):
    acc = a[1]
    for x in _items(a[0]):
        acc = it.call_closure(ctx, a[2], [acc, x])
    return acc


@model(r'Iterator>::for_each::')
def m_for_each(it, ctx, a, m, f):
    for x in _items(a[0]):
        it.call_closure(ctx, a[1], [x])
    return []


@model(r'Iterator>::(find_map|any|all|find|position)::')
def m_search(it, ctx, a, m, f):
    i = deref(a[0]); c = a[1]; kind = m.group(1)
    k = 0
    while i.pos < len(i.items):
        x = i.items[i.pos]; i.pos += 1
        if kind == 'find_map':
            r = it.call_closure(ctx, c, [x])
            if is_some(r):
                return r
        elif kind == 'find':
            r = it.call_closure(ctx, c, [mkref(x)])
            if ctx.decide(r):
                return Some(x)
        elif kind == 'position':
            r = it.call_closure(ctx, c, [x])
            if ctx.decide(r):
                return Some(k)
        else:
            r = it.call_closure(ctx, c, [x])
            d = ctx.decide(r)
            if kind == 'any' and d:
                return True
            if kind == 'all' and not d:
                return False
        k += 1
    return {'find_map': NoneV(), 'find': NoneV(), 'position': NoneV(), 'any': False, 'all': True}[kind]


@model(r'Iterator>::(count|last)$')
def m_count(it, ctx, a, m, f):
    r = _items(a[0])
    if m.group(1) == 'count':
        return len(r)
    return Some(r[-1]) if r else NoneV()


@model(r'Iterator>::collect::<(Vec|Box<\[)')
def m_collect_vec(it, ctx, a, m, f):
    return _items(a[0])


@model(r'Iterator>::collect::<Option<Vec')
def m_collect_opt_vec(it, ctx, a, m, f):
    out = []
    for x in _items(a[0]):
        if not is_some(x):
            return NoneV()
        out.append(x.fields[0])
    return Some(out)


def _set_insert(ctx, lst, x, key=lambda v: v):
    """insert into an ordered set of strings kept sorted; returns False if present."""
    kx = S(key(x))
    for i, y in enumerate(lst):
        ky = S(key(y))
        if ctx.decide(seq(kx, ky)):
            return False
        if ctx.decide(s_lt(kx, ky)):
            lst.insert(i, x)
            return True
    lst.append(x)
    return True


@model(r'Iterator>::collect::<BTreeSet<')
def m_collect_btreeset(it, ctx, a, m, f):
    out = []
    for x in _items(a[0]):
        _set_insert(ctx, out, x)
    return out


@model(r'Iterator>::collect::<(IndexSet|FnvIndexSet|HashSet)<')
def m_collect_indexset(it, ctx, a, m, f):
    if m.group(1) == 'HashSet' and _random_hasher(f):
        out = []
        for x in _items(a[0]):
            _iset_insert(ctx, out, x)
        return Adt('StdHashSet', None, [out], ['items'])
    out = []
    for x in _items(a[0]):
        _iset_insert(ctx, out, x)
    return out


@model(r'Iterator>::collect::<String>')
def m_collect_string(it, ctx, a, m, f):
    out = []
    for x in _items(a[0]):
        x = deref(x)
        out.extend(x.cs if isinstance(x, SStr) else [x])
    return SStr(out)


@model(r'^BTreeSet::<.*>::(is_empty|len)$|^IndexSet::<.*>::(is_empty|len)$|^BTreeMap::<.*>::(is_empty|len)$|^IndexMap::<.*>::(is_empty|len)$|^HashMap::<.*>::(is_empty|len)$')
def m_coll_len(it, ctx, a, m, f):
    v = L(a[0])
    return len(v) == 0 if 'is_empty' in f else len(v)


@model(r'^BTreeSet::<.*>::(into_iter|iter)$')
def m_set_iter(it, ctx, a, m, f):
    return Iter(L(a[0]))


# ---------------------------------------------------------------- RefCell / Cell: transparent (single-threaded interpreter, borrows are not tracked)
@model(r'^(RefCell|Cell)::<.*>::new$')
def m_cell_new(it, ctx, a, m, f):
    return a[0]


@model(r'^RefCell::<.*>::(borrow|borrow_mut|get_mut|try_borrow|try_borrow_mut)$')
def m_refcell_borrow(it, ctx, a, m, f):
    r = a[0]
    if 'try_' in f:
        return Adt('Result', 'Ok', [r])
    return r


@model(r'^<(cell::)?(Ref|RefMut)<.*> as (Deref|DerefMut)>::(deref|deref_mut)$')
def m_refcell_deref(it, ctx, a, m, f):
    r = a[0]
    inner = r.get() if isinstance(r, Ref) else r
    return inner if isinstance(inner, Ref) else r


@model(r'^(RefCell|Cell)::<.*>::(into_inner|take)$')
def m_cell_into_inner(it, ctx, a, m, f):
    if f.endswith('::take'):
        return m_take(it, ctx, a, m, f)
    return a[0]


@model(r'^ImportSpecifier::local$')
def m_import_specifier_local(it, ctx, a, m, f):
    sp = deref(a[0])
    return Ref(sp.fields[0].fields, sp.fields[0].names.index('local'))


# ---------------------------------------------------------------- std HashSet with the default hasher: iteration order is random per instance
def _random_hasher(f):
    """does the (normalised) callee name a std hash container without a fixed hasher parameter?"""
    return not re.search(r'BuildHasher|Fnv|Fx|AHash|ahash', f)


def _nondet_iteration(ctx, what, n):
    """iterating a RandomState-hashed container with >= 2 elements yields an order that differs from run to run: recorded on the
    path (C08's determinism clause reads it); execution continues with one arbitrary order (reversed insertion order)."""
    if n >= 2:
        ctx.__dict__.setdefault('nondet_iterations', []).append(what)


@model(r'^HashSet::<.*>::(len|is_empty)$')
def m_hset_len(it, ctx, a, m, f):
    v = deref(a[0])
    lst = v.fields[0] if isinstance(v, Adt) and v.ty == 'StdHashSet' else L(v)
    return len(lst) if m.group(1) == 'len' else len(lst) == 0


@model(r'^HashSet::<.*>::(new|with_capacity)$|<HashSet<.*> as Default>::default$')
def m_hset_new(it, ctx, a, m, f):
    return Adt('StdHashSet', None, [[]], ['items']) if _random_hasher(f) else []


@model(r'^HashSet::<.*>::insert$')
def m_hset_insert(it, ctx, a, m, f):
    v = deref(a[0])
    return _iset_insert(ctx, v.fields[0] if isinstance(v, Adt) and v.ty == 'StdHashSet' else L(v), a[1])


@model(r'^HashSet::<.*>::contains::<')
def m_hset_contains(it, ctx, a, m, f):
    v = deref(a[0])
    lst = v.fields[0] if isinstance(v, Adt) and v.ty == 'StdHashSet' else L(v)
    x = deref(a[1])
    return b_or(*[struct_eq(ctx, x, y) for y in lst]) if lst else False


@model(r'^HashSet::<.*>::(iter|into_iter|drain)$|^<&?HashSet<.*> as IntoIterator>::into_iter$')
def m_hset_iter(it, ctx, a, m, f):
    v = deref(a[0])
    if isinstance(v, Adt) and v.ty == 'StdHashSet':
        lst = v.fields[0]
        _nondet_iteration(ctx, 'HashSet iteration (%s)' % f[:80], len(lst))
        order = list(reversed(lst))
        if 'drain' in f:
            v.fields[0] = []
        byref = isinstance(a[0], Ref) and 'drain' not in f
        return Iter(refs_of(order) if byref else order)
    lst = L(v)
    return Iter(refs_of(lst) if isinstance(a[0], Ref) else lst)


# ---------------------------------------------------------------- IndexSet<Cow<str>> (dynamic props) / IndexSet generally
def _iset_insert(ctx, lst, x):
    for y in lst:
        if ctx.decide(struct_eq(ctx, x, y)):
            return False
    lst.append(x)
    return True


@model(r'^IndexSet::<.*>::(new|default|with_capacity)$|<IndexSet<.*> as Default>::default$|^IndexMap::<.*>::(new|default)$|<IndexMap<.*> as Default>::default$')
def m_iset_new(it, ctx, a, m, f):
    return []


@model(r'^IndexSet::<.*>::insert$')
def m_iset_insert(it, ctx, a, m, f):
    return _iset_insert(ctx, L(a[0]), a[1])


@model(r'^IndexSet::<.*>::contains::')
def m_iset_contains(it, ctx, a, m, f):
    for y in L(a[0]):
        if ctx.decide(struct_eq(ctx, a[1], y)):
            return True
    return False


@model(r'^IndexSet::<.*>::(pop)$')
def m_iset_pop(it, ctx, a, m, f):
    v = L(a[0])
    return Some(v.pop()) if v else NoneV()


@model(r'<IndexSet<.*> as Extend<.*>>::extend::|^IndexSet::<.*>::extend::')
def m_iset_extend(it, ctx, a, m, f):
    dst = L(a[0])
    for x in L(a[1]):
        _iset_insert(ctx, dst, x)
    return []


@model(r'^IndexSet::<.*>::(iter|into_iter)$')
def m_iset_iter(it, ctx, a, m, f):
    v = L(a[0])
    return Iter(refs_of(v) if m.group(1) == 'iter' else v)


@model(r'^IndexMap::<.*>::(with_capacity)$')
def m_imap_new(it, ctx, a, m, f):
    return []


@model(r'^IndexMap::<.*>::insert$')
def m_imap_insert(it, ctx, a, m, f):
    mp = L(a[0])
    for e in mp:
        if ctx.decide(struct_eq(ctx, e[0], a[1])):
            old = e[1]; e[1] = a[2]
            return Some(old)
    mp.append([a[1], a[2]])
    return NoneV()


@model(r'^IndexMap::<.*>::iter_mut$')
def m_imap_iter_mut(it, ctx, a, m, f):
    return Iter([[Ref(e, 0), Ref(e, 1)] for e in L(a[0])])


@model(r'^IndexMap::<.*>::iter$')
def m_imap_iter(it, ctx, a, m, f):
    return Iter([[Ref(e, 0), Ref(e, 1)] for e in L(a[0])])


@model(r'^slice::<impl \[.*\]>::contains$')
def m_slice_contains(it, ctx, a, m, f):
    for y in L(a[0]):
        if ctx.decide(struct_eq(ctx, y, a[1])):
            return True
    return False


@model(r' as EqIgnoreSpan>::eq_ignore_span$')
def m_eq_ignore_span(it, ctx, a, m, f):
    return eq_ignore_span(ctx, a[0], a[1])


def eq_ignore_span(ctx, a, b):
    a = deref(a); b = deref(b)
    if isinstance(a, Adt) and isinstance(b, Adt):
        if a.ty == 'Span' and b.ty == 'Span':
            return True
        if a.variant != b.variant or len(a.fields) != len(b.fields):
            return False
        rs = []
        for i, (x, y) in enumerate(zip(a.fields, b.fields)):
            if a.names and a.names[i] == 'ctxt':
                continue            # swc: SyntaxContext is ignored by EqIgnoreSpan
            rs.append(eq_ignore_span(ctx, x, y))
        return b_and(*rs)
    if isinstance(a, list) and isinstance(b, list):
        if len(a) != len(b):
            return False
        return b_and(*[eq_ignore_span(ctx, x, y) for x, y in zip(a, b)])
    return struct_eq(ctx, a, b)


# ---------------------------------------------------------------- BTreeMap<&str, Ident> (vue imports)
@model(r'<BTreeMap<.*> as Default>::default$|^BTreeMap::<.*>::new$|<HashMap<.*> as Default>::default$|^HashMap::<.*>::new$|^FnvHashMap|<BTreeSet<.*> as Default>::default$|^BTreeSet::<.*>::new$')
def m_map_new(it, ctx, a, m, f):
    return []


@model(r'^IndexMap::<.*>::entry$')
def m_imap_entry(it, ctx, a, m, f):
    mp = L(a[0]); key = a[1]
    for e in mp:
        if ctx.decide(struct_eq(ctx, e[0], key)):          # derived Eq of the key type (spans included)
            return Adt('Entry', 'Occupied', [e])
    return Adt('Entry', 'Vacant', [[mp, key, 'append']])


@model(r'^BTreeMap::<.*>::entry$')
def m_map_entry(it, ctx, a, m, f):
    mp = L(a[0]); key = a[1]
    for e in mp:
        if ctx.decide(struct_eq(ctx, e[0], key)):
            return Adt('Entry', 'Occupied', [e])
    return Adt('Entry', 'Vacant', [[mp, key]])


@model(r'^Entry::<.*>::or_insert_with_key::|^btree_map::Entry::<.*>::or_insert_with_key::')
def m_entry_or_insert_with_key(it, ctx, a, m, f):
    e = a[0]
    if e.variant == 'Occupied':
        return Ref(e.fields[0], 1)
    mp, key = e.fields[0][0], e.fields[0][1]
    v = it.call_closure(ctx, a[1], [mkref(key)])
    ent = [key, v]
    if len(e.fields[0]) > 2 and e.fields[0][2] == 'append':
        mp.append(ent)
        return Ref(ent, 1)
    i = 0
    while i < len(mp) and ctx.decide(s_lt(S(mp[i][0]), S(key))):
        i += 1
    mp.insert(i, ent)
    return Ref(ent, 1)


@model(r'^BTreeMap::<.*>::get::<')
def m_map_get(it, ctx, a, m, f):
    for e in L(a[0]):
        if ctx.decide(struct_eq(ctx, e[0], a[1])):
            return Some(Ref(e, 1))
    return NoneV()


@model(r'^BTreeMap::<.*>::iter$')
def m_map_iter(it, ctx, a, m, f):
    return Iter([[Ref(e, 0), Ref(e, 1)] for e in L(a[0])])


# HashMap<(Atom, SyntaxContext), V>  (type registry): association list
@model(r'^HashMap::<.*>::(get|get_mut)::<')
def m_hmap_get(it, ctx, a, m, f):
    for e in L(a[0]):
        if ctx.decide(struct_eq(ctx, e[0], a[1])):
            return Some(Ref(e, 1))
    return NoneV()


@model(r'^HashMap::<.*>::insert$')
def m_hmap_insert(it, ctx, a, m, f):
    mp = L(a[0])
    for e in mp:
        if ctx.decide(struct_eq(ctx, e[0], a[1])):
            old = e[1]; e[1] = a[2]
            return Some(old)
    mp.append([a[1], a[2]])
    return NoneV()


@model(r'^HashMap::<.*>::contains_key::<')
def m_hmap_contains(it, ctx, a, m, f):
    for e in L(a[0]):
        if ctx.decide(struct_eq(ctx, e[0], a[1])):
            return True
    return False


# ---------------------------------------------------------------- Option / Result
@model(r'^Option::<.*?>::(?!is_some_and|is_none_or)(\w+)(::<.*>)?$')
def m_option(it, ctx, a, m, f):
    meth = m.group(1)
    r0 = a[0]
    o = deref(r0)
    some = isinstance(o, Adt) and o.variant == 'Some'
    if meth == 'is_none': return not some
    if meth == 'is_some': return some
    if meth == 'Some': return Some(a[0])
    if meth in ('unwrap', 'expect'):
        if not some:
            raise Panic('called `Option::unwrap()` on a `None` value')
        return o.fields[0]
    if meth == 'unwrap_or': return o.fields[0] if some else a[1]
    if meth == 'unwrap_or_default':
        if some: return o.fields[0]
        if '<bool>' in f: return False
        if re.search(r'<(&str|String|Atom)>', f): return SStr(())
        if '<Vec<' in f: return []
        raise Unsupported('unwrap_or_default ' + f)
    if meth == 'unwrap_or_else': return o.fields[0] if some else it.call_closure(ctx, a[1], [])
    if meth == 'map': return Some(it.call_closure(ctx, a[1], [o.fields[0]])) if some else NoneV()
    if meth == 'map_or': return it.call_closure(ctx, a[2], [o.fields[0]]) if some else a[1]
    if meth == 'map_or_else': return it.call_closure(ctx, a[2], [o.fields[0]]) if some else it.call_closure(ctx, a[1], [])
    if meth == 'and_then': return it.call_closure(ctx, a[1], [o.fields[0]]) if some else NoneV()
    if meth == 'filter':
        if some and ctx.decide(it.call_closure(ctx, a[1], [Ref(o.fields, 0)])): return o
        return NoneV()
    if meth == 'or': return o if some else a[1]
    if meth == 'or_else': return o if some else it.call_closure(ctx, a[1], [])
    if meth == 'and': return a[1] if some else NoneV()
    if meth == 'then' or meth == 'then_some': raise Unsupported(f)
    if meth in ('as_ref', 'as_mut'): return Some(Ref(o.fields, 0)) if some else NoneV()
    if meth in ('as_deref', 'as_deref_mut'):
        if not some: return NoneV()
        inner = o.fields[0]
        return Some(inner if isinstance(inner, Ref) else Ref(o.fields, 0))
    if meth in ('cloned', 'copied'): return Some(clone_val(deref(o.fields[0]))) if some else NoneV()
    if meth == 'take':
        old = Adt('Option', o.variant, list(o.fields))
        o.variant = 'None'; o.fields = []
        return old
    if meth == 'replace':
        old = Adt('Option', o.variant, list(o.fields))
        o.variant = 'Some'; o.fields = [a[1]]
        return old
    if meth == 'insert':
        o.variant = 'Some'; o.fields = [a[1]]
        return Ref(o.fields, 0)
    if meth in ('get_or_insert_with', 'get_or_insert'):
        if not some:
            v = it.call_closure(ctx, a[1], []) if meth.endswith('with') else a[1]
            o.variant = 'Some'; o.fields = [v]
        return Ref(o.fields, 0)
    if meth == 'ok_or': return Adt('Result', 'Ok', [o.fields[0]]) if some else Adt('Result', 'Err', [a[1]])
    if meth == 'iter': return Iter([Ref(o.fields, 0)] if some else [])
    if meth == 'into_iter': return Iter(list(o.fields))
    if meth == 'zip':
        o2 = deref(a[1])
        return Some([o.fields[0], o2.fields[0]]) if some and o2.variant == 'Some' else NoneV()
    if meth == 'xor' or meth == 'flatten':
        if meth == 'flatten': return o.fields[0] if some else NoneV()
    raise Unsupported('Option::' + meth)


@model(r'<bool>::then_some::|<impl bool>::then_some::|^bool::then_some')
def m_then_some(it, ctx, a, m, f):
    return Some(a[1]) if ctx.decide(a[0]) else NoneV()


@model(r'<impl bool>::then::|^bool::then::')
def m_then(it, ctx, a, m, f):
    return Some(it.call_closure(ctx, a[1], [])) if ctx.decide(a[0]) else NoneV()


@model(r'^Result::<.*?>::(\w+)(::<.*>)?$')
def m_result(it, ctx, a, m, f):
    meth = m.group(1); o = deref(a[0]); ok = o.variant == 'Ok'
    if meth == 'ok': return Some(o.fields[0]) if ok else NoneV()
    if meth == 'is_ok': return ok
    if meth == 'is_err': return not ok
    if meth in ('unwrap', 'expect'):
        if not ok: raise Panic('called `Result::unwrap()` on an `Err` value')
        return o.fields[0]
    if meth == 'map': return Adt('Result', 'Ok', [it.call_closure(ctx, a[1], [o.fields[0]])]) if ok else o
    if meth == 'map_err': return o if ok else Adt('Result', 'Err', [it.call_closure(ctx, a[1], [o.fields[0]])])
    if meth == 'or_else': return o if ok else it.call_closure(ctx, a[1], [o.fields[0]])
    if meth == 'and_then': return it.call_closure(ctx, a[1], [o.fields[0]]) if ok else o
    if meth == 'unwrap_or_default':
        if ok: return o.fields[0]
    raise Unsupported('Result::' + meth)


@model(r' as (ops::)?Try>::branch$')
def m_try_branch(it, ctx, a, m, f):
    o = deref(a[0])
    if o.variant in ('Some', 'Ok'):
        return Adt('ControlFlow', 'Continue', [o.fields[0]])
    return Adt('ControlFlow', 'Break', [Adt(o.ty, o.variant, list(o.fields))])


@model(r' as (ops::)?FromResidual(<.*>)?>::from_residual$')
def m_from_residual(it, ctx, a, m, f):
    o = deref(a[0])
    return Adt(o.ty, o.variant, list(o.fields))


@model(r' as Default>::default$|^Default::default$')
def m_default(it, ctx, a, m, f):
    t = re.match(r'^<(.*) as Default>::default$', f)
    ty = t.group(1) if t else ''
    head = ty.split('<')[0].split('::')[-1]
    if head == 'Option': return NoneV()
    if head in ('Vec', 'BTreeMap', 'BTreeSet', 'HashMap', 'IndexSet', 'IndexMap'): return []
    if head == 'bool': return False
    if head in ('String', 'Atom'): return SStr(())
    if head == 'SyntaxContext': return 0
    if head == 'Span': return Adt('Span', None, [0, 0], ['lo', 'hi'])
    if head == 'ImportPhase': return Adt('ImportPhase', 'Evaluation', [])
    fs = it.T.structs.get(head)
    if fs:
        vals = []
        for n, fty in fs:
            vals.append(m_default(it, ctx, [], None, '<%s as Default>::default' % fty))
        return Adt(head, None, vals, [n for n, _ in fs])
    if head == 'Box':
        inner = re.match(r'^Box<(.*)>$', ty).group(1)
        return m_default(it, ctx, [], None, '<%s as Default>::default' % inner)
    if head in ('RefCell', 'Cell', 'Rc', 'Arc'):        # transparent wrappers in this interpreter
        inner = re.match(r'^(?:[\w:]*::)?%s<(.*)>$' % head, ty).group(1)
        return m_default(it, ctx, [], None, '<%s as Default>::default' % inner)
    if head in ('HashSet', 'FnvHashSet', 'FxHashSet'):
        return Adt('StdHashSet', None, [[]], ['items']) if head == 'HashSet' and _random_hasher(ty) else []
    if head in it.T.enums:
        if head == 'BlockStmtOrExpr':
            return Adt(head, 'BlockStmt', [m_default(it, ctx, [], None, '<BlockStmt as Default>::default')])
        if head == 'Pat' or head == 'Expr':
            return Adt(head, 'Invalid', [Adt('Invalid', None, [Adt('Span', None, [0, 0], ['lo', 'hi'])], ['span'])])
    if head in it.T.enums:
        return Opaque('default:' + head)
    raise Unsupported('Default for ' + ty)


# ---------------------------------------------------------------- swc helpers
@model(r' as Spanned>::span$')
def m_span(it, ctx, a, m, f):
    return _span_of(it, deref(a[0]))


def _span_of(it, v):
    v = deref(v)
    if isinstance(v, Adt):
        if v.ty == 'Span':
            return v
        if v.ty == 'Option':
            return _span_of(it, v.fields[0]) if v.variant == 'Some' else Adt('Span', None, [0, 0], ['lo', 'hi'])
        sf = it.T.span_fields.get(v.ty)
        if sf and v.names:
            if 'span' in sf:
                return _span_of(it, v.get(sf['span']))
            lo = _span_of(it, v.get(sf['lo'])); hi = _span_of(it, v.get(sf['hi']))
            return Adt('Span', None, [lo.fields[0], hi.fields[1]], ['lo', 'hi'])
        if v.names and 'span' in v.names:
            return v.get('span')
        if v.ty == 'ExprOrSpread':
            e = _span_of(it, v.get('expr')); sp = v.get('spread')
            if is_some(sp):
                return Adt('Span', None, [deref(sp.fields[0]).fields[0], e.fields[1]], ['lo', 'hi'])
            return e
        if v.variant is not None and len(v.fields) == 1:
            return _span_of(it, v.fields[0])
    raise Unsupported('Spanned for ' + repr(v)[:80])


@model(r'^Mark::new$|^Mark::fresh$')
def m_mark_new(it, ctx, a, m, f):
    return ctx.fresh_mark()


@model(r'^SyntaxContext::empty$')
def m_ctxt_empty(it, ctx, a, m, f):
    return 0


@model(r'^SyntaxContext::apply_mark$')
def m_apply_mark(it, ctx, a, m, f):
    if a[0] != 0:
        raise Unsupported('apply_mark on non-empty context (hygiene model is single-level)')
    return ctx.apply_mark(a[0], a[1])


@model(r'^SyntaxContext::has_mark$')
def m_has_mark(it, ctx, a, m, f):
    c = deref(a[0]); mk = deref(a[1])
    if is_sym(c) or is_sym(mk):
        raise Unsupported('symbolic syntax context')
    if c == 0:
        return False
    outer = ctx.ctxt_outer.get(c)
    if outer is None:
        raise Unsupported('unknown syntax context #%d' % c)
    return outer == mk


@model(r'^Ident::new$')
def m_ident_new(it, ctx, a, m, f):
    return Adt('Ident', None, [a[1], a[2], S(a[0]), False], ['span', 'ctxt', 'sym', 'optional'])


@model(r'^Ident::new_no_ctxt$|^Ident::new_private$')
def m_ident_new2(it, ctx, a, m, f):
    if 'private' in f:
        return Adt('Ident', None, [a[1], ctx.apply_mark(0, ctx.fresh_mark()), S(a[0]), False], ['span', 'ctxt', 'sym', 'optional'])
    return Adt('Ident', None, [a[1], 0, S(a[0]), False], ['span', 'ctxt', 'sym', 'optional'])


@model(r'^IdentName::new$')
def m_identname_new(it, ctx, a, m, f):
    return Adt('IdentName', None, [a[1], S(a[0])], ['span', 'sym'])


@model(r'^Ident::to_id$')
def m_to_id(it, ctx, a, m, f):
    v = deref(a[0])
    return [v.get('sym'), v.get('ctxt')]


@model(r'^(\w+)::(as|is|expect)_(\w+)$|^(\w+)::as_mut_(\w+)$')
def m_as_variant(it, ctx, a, m, f):
    """#[ast_node] generated accessors: Expr::as_ident(&self) -> Option<&Ident>, is_ident, ..."""
    v0 = a[0]; v = deref(v0)
    kind = m.group(2); want = m.group(3)
    if not isinstance(v, Adt) or v.ty not in it.T.enums:
        raise Unsupported('accessor ' + f + ' on ' + repr(v)[:60])
    # variant name from snake case
    tgt = None
    for vn, payload, _, _ in it.T.enums[v.ty]:
        if _snake(vn) == want or _snake(vn) == want.replace('_expr', ''):
            tgt = vn
    alias = {'fn_expr': 'Fn', 'class': 'Class', 'key_value': 'KeyValue', 'ident': 'Ident', 'lit': 'Lit', 'array': 'Array', 'expr': 'Expr', 'prop': 'Prop',
             'object': 'Object', 'ts_type_ref': 'TsTypeRef'}
    if tgt is None and want in alias:
        tgt = alias[want]
    if tgt is None:
        raise Unsupported('accessor variant ' + f)
    hit = v.variant == tgt
    if kind == 'is':
        return hit
    if not hit:
        if kind == 'expect':
            raise Panic('expect_' + want)
        return NoneV()
    return Some(Ref(v.fields, 0)) if kind == 'as' else v.fields[0]


def _snake(n):
    return re.sub(r'(?<!^)(?=[A-Z])', '_', n).lower().replace('j_s_x', 'jsx').replace('ts_', 'ts_')


@model(r'^(Expr|Lit|Prop|PropOrSpread|Callee|Pat|ModuleItem|Stmt|Decl|TsType|JSXAttrOrSpread|PropName|TsEntityName|TsLit|TsTypeElement|TsFnOrConstructorType|TsUnionOrIntersectionType)::(\w+)$')
def m_into_variant(it, ctx, a, m, f):
    """by-value accessors: Expr::array(self) -> Option<ArrayLit>, ..."""
    v = deref(a[0]); want = m.group(2)
    for vn, payload, _, _ in it.T.enums[v.ty]:
        if _snake(vn) == want:
            return Some(v.fields[0]) if v.variant == vn else NoneV()
    raise Unsupported('by-value accessor ' + f)


def _id_char(ctx, c, start):
    """swc's Ident::is_valid_start / is_valid_continue; non-ASCII: Unicode ID_Start / ID_Continue as an opaque predicate"""
    ascii_ok = b_or(in_range(c, 65, 90), in_range(c, 97, 122), v_eq(c, 95), v_eq(c, 36))
    if not start:
        ascii_ok = b_or(ascii_ok, in_range(c, 48, 57))
    if isinstance(c, int):
        if c < 128:
            return ascii_ok
        ch = chr(c)
        return (ch.isidentifier() if start else ('a' + ch).isidentifier())
    # non-ASCII: exact on a set of representatives of the three Unicode classes (harnesses that reach this function
    # constrain their symbolic non-ASCII characters to these representatives; see ID_REPS)
    reps = ID_REPS['start'] + ([] if start else ID_REPS['continue'])
    return z3.If(z3.ULT(c, 128), ascii_ok if not isinstance(ascii_ok, bool) else z3.BoolVal(ascii_ok), z3.Or([c == r for r in reps]))


ID_REPS = {'start': [0xE9, 0x4E2D, 0x3B1, 0x10400], 'continue': [0xB7, 0x300, 0x200D], 'neither': [0x221E, 0xA0, 0x1F600, 0x3000]}


_LIT_FALSE = {'ArrowExpr', 'AssignExpr', 'AwaitExpr', 'BinExpr', 'CallExpr', 'ClassExpr', 'CondExpr', 'FnExpr', 'Invalid', 'MemberExpr', 'MetaPropExpr', 'NewExpr', 'OptChainExpr',
              'PrivateName', 'SeqExpr', 'SpreadElement', 'TaggedTpl', 'ThisExpr', 'TsConstAssertion', 'TsNonNullExpr', 'UnaryExpr', 'UpdateExpr', 'YieldExpr'}


def _swc_is_literal(v):
    """swc_ecma_utils::is_literal (LiteralVisitor with allow_non_json_value = true), node for node as in the crate's source -
    including what it does not look at (e.g. a `super.x` property access has no visitor method and no identifier expression inside)"""
    v = deref(v)
    if isinstance(v, list):
        return all(_swc_is_literal(x) for x in v)
    if not isinstance(v, Adt):
        return True
    if v.ty in _LIT_FALSE:
        return False
    if v.ty.startswith('Ts') and v.ty not in ('TsAsExpr', 'TsSatisfiesExpr', 'TsTypeAssertion', 'TsInstantiation', 'TsConstAssertion', 'TsNonNullExpr'):
        return True            # noop_visit_type!: types are not visited
    if v.ty == 'Expr':
        if v.variant == 'Ident':
            return False
        if v.variant == 'Lit' and deref(v.fields[0]).variant == 'Regex':
            return False
        if v.variant == 'Tpl' and len(deref(v.fields[0]).get('exprs')) > 0:
            return False
    if v.ty == 'Prop':
        return all(_swc_is_literal(f) for f in v.fields) and v.variant == 'KeyValue'
    if v.ty == 'PropName':
        return all(_swc_is_literal(f) for f in v.fields) and v.variant not in ('BigInt', 'Computed')
    return all(_swc_is_literal(f) for f in v.fields)


@model(r'^is_literal::<|utils::is_literal::<')
def m_is_literal(it, ctx, a, m, f):
    return _swc_is_literal(a[0])


@model(r'^is_valid_prop_ident$|utils::is_valid_prop_ident$')
def m_is_valid_prop_ident(it, ctx, a, m, f):
    s = S(a[0])
    if not s.cs:
        return False
    return b_and(*[_id_char(ctx, c, i == 0) for i, c in enumerate(s.cs)])


@model(r'^Ident::is_valid_(start|continue)$|^IdentName::is_valid_(start|continue)$')
def m_is_valid_start(it, ctx, a, m, f):
    return _id_char(ctx, deref(a[0]), (m.group(1) or m.group(2)) == 'start')


# ---------------------------------------------------------------- diagnostics
@model(r'^better_scoped_tls::ScopedKey::<Handler>::with::')
def m_handler_with(it, ctx, a, m, f):
    return it.call_closure(ctx, a[1], [mkref(Opaque('Handler'))])


@model(r'^Handler::(span_err|struct_span_err|err|span_warn)')
def m_span_err(it, ctx, a, m, f):
    msg = S(a[-1]).py() if isinstance(deref(a[-1]), SStr) else repr(a[-1])
    ctx.diags.append(('warn: ' if 'warn' in f else '') + msg)
    return Opaque('DiagnosticBuilder') if 'struct' in f else []


@model(r'DiagnosticBuilder.*::(emit|span_label|note|help)')
def m_diag_emit(it, ctx, a, m, f):
    return a[0] if m.group(1) != 'emit' else []


# ---------------------------------------------------------------- tag tables / regex
_TAGS = {}


def _tags(which):
    if which not in _TAGS:
        root = glob.glob(os.path.expanduser('~/.cargo/registry/src/*/css_dataset-0.3.0'))[0]
        if which == 'SVG_TAGS':
            import json as _json
            _TAGS[which] = list(_json.load(open(root + '/vendor/svg-tags/lib/svg-tags.json')))
        else:
            src = open(root + '/src/tags.rs').read()
            mm = re.search(r'pub static ' + which + r': phf::Set<&\'static str> = phf::phf_set! \{(.*?)\};', src, re.S)
            _TAGS[which] = re.findall(r'"([^"]+)"', mm.group(1))
    return _TAGS[which]


@model(r'^phf::set::Set::<&str>::contains::<str>$|^phf::Set::<&str>::contains')
def m_phf_contains(it, ctx, a, m, f):
    st = deref(a[0])
    name = st.data.split('::')[-1] if isinstance(st, Opaque) else None
    if name not in ('STANDARD_HTML_TAGS', 'SVG_TAGS'):
        raise Unsupported('phf set ' + repr(st))
    s = S(a[1])
    n = len(s.cs)
    return b_or(*[seq(s, SStr.of(t)) for t in _tags(name) if len(t) == n])


@model(r'^regex::Regex::is_match$')
def m_regex_is_match(it, ctx, a, m, f):
    rx = deref(a[0]); s = S(a[1])
    if isinstance(rx, Adt):
        rx = deref(rx.fields[0])
    if not isinstance(rx, Opaque) or rx.what != 'regex':
        raise Unsupported('regex value ' + repr(rx))
    if rx.data.get('kind') == 'opaque':
        n = len(s.cs)
        key = (rx.data['id'], n)
        fns = ctx.__dict__.setdefault('regex_fns', {})
        if key not in fns:
            fns[key] = z3.Function('rx%d_len%d' % key, *([z3.BitVecSort(CHW)] * n + [z3.BoolSort()])) if n else z3.Bool('rx%d_empty' % rx.data['id'])
        fn = fns[key]
        ctx.__dict__.setdefault('regex_calls', []).append((rx.data['id'], s))
        return fn(*[bv(c, CHW) for c in s.cs]) if n else fn
    if rx.data.get('kind') == 'py':
        if not s.is_concrete():
            raise Unsupported('concrete regex on a symbolic string')
        import re as _re
        return _re.search(rx.data['pattern'], s.py()) is not None
    raise Unsupported('regex kind')


# ---------------------------------------------------------------- bitflags (PatchFlags over i16)
def _bits(v):
    v = deref(v)
    while isinstance(v, Adt):
        v = deref(v.fields[0])
    return v


def _pf(bits):
    return Adt('PatchFlags', None, [Adt('InternalBitFlags', None, [bits])])


@model(r'<impl PatchFlags>::(\w+)$|^PatchFlags::(\w+)$|<PatchFlags as (?:bitflags::)?Flags>::(\w+)$')
def m_patchflags(it, ctx, a, m, f):
    meth = m.group(1) or m.group(2) or m.group(3)
    if meth == 'empty': return _pf(0)
    if meth == 'bits': return _bits(a[0])
    if meth == 'is_empty': return _bits(a[0]) == 0
    if meth == 'insert':
        r = a[0]; r.set(_pf(_bits(r.get()) | _bits(a[1]))); return []
    if meth == 'remove':
        r = a[0]; r.set(_pf(_bits(r.get()) & ~_bits(a[1]))); return []
    if meth == 'contains': return _bits(a[0]) & _bits(a[1]) == _bits(a[1])
    if meth == 'intersects': return _bits(a[0]) & _bits(a[1]) != 0
    if meth == 'union': return _pf(_bits(a[0]) | _bits(a[1]))
    if meth == 'from_bits_retain': return _pf(a[0])
    raise Unsupported('PatchFlags::' + meth)


@model(r'<impl InternalBitFlags>::(\w+)$|^InternalBitFlags::(\w+)$')
def m_internalflags(it, ctx, a, m, f):
    meth = m.group(1) or m.group(2)
    if meth == 'empty': return Adt('InternalBitFlags', None, [0])
    if meth == 'bits': return _bits(a[0])
    if meth == 'from_bits_retain': return Adt('InternalBitFlags', None, [a[0]])
    raise Unsupported('InternalBitFlags::' + meth)


# ---------------------------------------------------------------- traversal (identity on JSX-free sub-trees)
@model(r' as VisitMutWith<.*>>::visit_mut_children_with$|::visit_mut_children_with$')
def m_visit_children(it, ctx, a, m, f):
    ctx.notes.append('visit_mut_children_with=identity')
    return []


# ---------------------------------------------------------------- misc
@model(r'^Lazy::<.*>::new$')
def m_lazy_new(it, ctx, a, m, f):
    return Opaque('lazy', a[0])


@model(r'^<Lazy<.*> as Deref>::deref$')
def m_lazy_deref(it, ctx, a, m, f):
    raise Unsupported('Lazy deref')


@model(r'^panicking::|^core::panicking::|^std::rt::begin_panic|^option::expect_failed|^result::unwrap_failed|^slice::index::|^panic_bounds_check')
def m_panic(it, ctx, a, m, f):
    raise Panic(f[:80])
