"""Path exploration driver: runs a harness body under every feasible decision prefix and discharges its obligations."""
import time, traceback, sys
sys.setrecursionlimit(12000)
import z3
from .interp import Ctx, Stats, Panic, Unsupported, StepLimit, Interp
from .values import *
from . import mirparse, astio, models as models_mod, driver


class PathResult:
    __slots__ = ('kind', 'detail', 'model', 'obligation', 'ctx')

    def __init__(self, kind, detail=None, model=None, obligation=None, ctx=None):
        self.kind = kind; self.detail = detail; self.model = model; self.obligation = obligation; self.ctx = ctx


class Obligation:
    """`holds` must be valid under the path condition. `name` identifies the oracle clause; `info` is carried to the report."""
    __slots__ = ('name', 'holds', 'info')

    def __init__(self, name, holds, info=None):
        self.name = name; self.holds = holds; self.info = info


def cross_check(ctx, negated, expected):
    """re-decide one obligation query with a second solver (cvc5 on the SMT-LIB2 export); -> 'agree' | 'disagree' | 'skipped'"""
    import subprocess, tempfile, os
    try:
        s2 = z3.Solver()
        for a in ctx.solver.assertions():
            s2.add(a)
        if negated is not None:
            s2.add(negated)
        text = '(set-logic ALL)\n' + s2.to_smt2()
        with tempfile.NamedTemporaryFile('w', suffix='.smt2', delete=False) as f:
            f.write(text)
            path = f.name
        try:
            r = subprocess.run(['cvc5', '--lang', 'smt2', '--tlimit=20000', path], capture_output=True, text=True, timeout=30)
        finally:
            os.unlink(path)
        out = r.stdout.strip().split('\n')[-1] if r.stdout.strip() else ''
        if '(error' in r.stdout or out not in ('sat', 'unsat'):
            return 'skipped'
        return 'agree' if out == expected else 'disagree'
    except Exception:
        return 'skipped'


def explore(body, base=(), stats=None, max_paths=100000, deadline=None, timeout_ms=20000, panic_is_violation=True):
    """body(ctx) -> list[Obligation].  Yields PathResult for every finished path:
       kind in {'ok', 'violation', 'panic', 'unsupported', 'steplimit', 'unknown'}"""
    stats = stats if stats is not None else Stats()
    worklist = [[]]
    n = 0
    while worklist:
        if deadline is not None and time.time() > deadline:
            yield PathResult('budget', 'deadline reached with %d prefixes pending' % len(worklist))
            return
        if n >= max_paths:
            yield PathResult('budget', 'max_paths reached with %d prefixes pending' % len(worklist))
            return
        prefix = worklist.pop()
        ctx = Ctx(prefix, worklist, stats, base, timeout_ms)
        n += 1
        stats.paths += 1
        try:
            obligations = body(ctx)
        except Panic as e:
            stats.steps += ctx.steps
            mdl = None
            if ctx.check() == z3.sat:
                mdl = ctx.solver.model()
            yield PathResult('panic', str(e), mdl, None, ctx)
            continue
        except Unsupported as e:
            stats.steps += ctx.steps
            yield PathResult('unsupported', str(e), None, None, ctx)
            continue
        except StepLimit as e:
            stats.steps += ctx.steps
            mdl = None
            if ctx.check() == z3.sat:
                mdl = ctx.solver.model()
            yield PathResult('steplimit', str(e), mdl, None, ctx)
            continue
        stats.steps += ctx.steps
        bad = False
        for ob in obligations or ():
            h = ob.holds
            if isinstance(h, bool):
                if h:
                    continue
                r = ctx.check()
                if r == z3.sat:
                    yield PathResult('violation', ob.name, ctx.solver.model(), ob, ctx); bad = True
                elif r == z3.unknown:
                    yield PathResult('unknown', ob.name, None, ob, ctx); bad = True
                continue
            r = ctx.check(z3.Not(h))
            if r in (z3.sat, z3.unsat) and getattr(stats, 'xchecked', 0) < 2:
                stats.xchecked = getattr(stats, 'xchecked', 0) + 1
                v = cross_check(ctx, z3.Not(h), 'sat' if r == z3.sat else 'unsat')
                stats.xresults = getattr(stats, 'xresults', []) + [v]
            if r == z3.sat:
                yield PathResult('violation', ob.name, ctx.solver.model(), ob, ctx); bad = True
            elif r == z3.unknown:
                yield PathResult('unknown', ob.name, None, ob, ctx); bad = True
        if not bad:
            yield PathResult('ok', None, None, None, ctx)


def mval(model, v):
    """evaluate a scalar / SStr / list under a z3 model into Python values."""
    if isinstance(v, SStr):
        return ''.join(chr(mval(model, c)) for c in v.cs)
    if is_sym(v):
        r = model.eval(v, model_completion=True)
        if z3.is_bool(r):
            return z3.is_true(r)
        return r.as_long()
    if isinstance(v, list):
        return [mval(model, x) for x in v]
    return v


_LOADED = {}


def load(verbose=True):
    """parse the MIR of /repo's current tree; -> (Interp, info)"""
    verbose = True          # one parsed program per tree: the disambiguated callee names are always needed (atom! expansions)
    plain, verb, info = driver.mir_dump(verbose)
    key = info['repo_hash']
    if key in _LOADED:
        return _LOADED[key]
    prog = mirparse.parse_program(plain, verb)
    T = astio.load_types(driver.REPO)
    it = Interp(prog, T, models_mod.Models())
    _LOADED[key] = (it, info)
    return it, info
