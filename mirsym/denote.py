"""Abstract evaluation of the expressions the transform emits (and of the JSX it consumes).
Oracles are stated over these abstract values, never over the spelling of the output."""
import z3
from .values import *
from .interp import Unsupported
from . import astio
from .models import struct_eq


class OracleGap(Exception):
    """the output uses a form the abstract evaluator does not know: the check is inconclusive there (never a violation)"""


def E(v):
    """deref + unbox to an Expr Adt"""
    return deref(v)


def sym_of(ident):
    return ident.get('sym')


def is_expr(e, variant):
    e = deref(e)
    return isinstance(e, Adt) and e.ty == 'Expr' and e.variant == variant


def pystr(s):
    s = deref(s)
    if isinstance(s, SStr) and s.is_concrete():
        return s.py()
    return None


# ------------------------------------------------------------------ module level: imports / helper declarations
class ModuleView:
    def __init__(self, program):
        self.program = program
        self.body = program.fields[0].get('body')
        self.vue = {}          # (sym, ctxt) -> imported name, for `import { X as L } from 'vue'`
        self.other_imports = []
        self.transform_on = None
        for item in self.body:
            if item.variant == 'ModuleDecl' and item.fields[0].variant == 'Import':
                imp = item.fields[0].fields[0]
                src = pystr(imp.get('src').get('value'))
                for sp in imp.get('specifiers'):
                    if sp.variant == 'Named':
                        n = sp.fields[0]
                        local = n.get('local')
                        imported = n.get('imported')
                        iname = pystr(sym_of(local))
                        if is_some(imported):
                            ie = imported.fields[0]
                            iname = pystr(ie.fields[0].get('sym')) if ie.variant == 'Ident' else pystr(ie.fields[0].get('value'))
                        if src == 'vue':
                            self.vue[(pystr(sym_of(local)), local.get('ctxt'))] = iname
                        else:
                            self.other_imports.append((src, iname, local))
                    elif sp.variant == 'Default':
                        local = sp.fields[0].get('local')
                        if src == '@vue/babel-helper-vue-transform-on':
                            self.transform_on = (pystr(sym_of(local)), local.get('ctxt'))
                        self.other_imports.append((src, 'default', local))

    def vue_name(self, ident):
        """imported name if `ident` is a binding imported from 'vue' (by sym + ctxt), else None"""
        ident = deref(ident)
        return self.vue.get((pystr(sym_of(ident)), ident.get('ctxt')))

    def is_transform_on(self, ident):
        ident = deref(ident)
        return self.transform_on is not None and self.transform_on == (pystr(sym_of(ident)), ident.get('ctxt'))

    def fn_decl(self, ident):
        ident = deref(ident)
        for item in self.body:
            if item.variant == 'Stmt' and item.fields[0].variant == 'Decl' and item.fields[0].fields[0].variant == 'Fn':
                fd = item.fields[0].fields[0].fields[0]
                if pystr(sym_of(fd.get('ident'))) == pystr(sym_of(ident)) and fd.get('ident').get('ctxt') == ident.get('ctxt'):
                    return fd
        return None


# ------------------------------------------------------------------ calls
def call_view(e):
    """Expr::Call -> (callee Ident Adt | None, [ (is_spread, Expr) ])"""
    e = E(e)
    if not is_expr(e, 'Call'):
        return None
    c = e.fields[0]
    callee = c.get('callee')
    ident = None
    if callee.variant == 'Expr':
        ce = E(callee.fields[0])
        if is_expr(ce, 'Ident'):
            ident = ce.fields[0]
    args = [(is_some(a.get('spread')), E(a.get('expr'))) for a in c.get('args')]
    return ident, args


class VNode:
    def __init__(self):
        self.callee = None; self.tag = None; self.props = None; self.children = None; self.flag = None; self.dyn = None
        self.directives = None; self.nargs = 0; self.expr = None


def vnode_view(e, mv):
    """view an emitted expression as a vnode creation; None if it is not one."""
    e = E(e)
    cv = call_view(e)
    if cv is None:
        return None
    ident, args = cv
    if ident is not None and mv.vue_name(ident) == 'withDirectives':
        if len(args) != 2:
            raise OracleGap('withDirectives arity')
        inner = vnode_view(args[0][1], mv)
        if inner is None:
            raise OracleGap('withDirectives first argument is not a vnode call')
        arr = args[1][1]
        if not is_expr(arr, 'Array'):
            raise OracleGap('withDirectives second argument is not an array literal')
        dirs = []
        for el in arr.fields[0].get('elems'):
            if not is_some(el):
                raise OracleGap('hole in directive list')
            de = E(el.fields[0].get('expr'))
            if not is_expr(de, 'Array'):
                raise OracleGap('directive entry is not an array literal')
            parts = []
            for p in de.fields[0].get('elems'):
                if not is_some(p) or is_some(p.fields[0].get('spread')):
                    raise OracleGap('hole/spread in directive tuple')
                parts.append(E(p.fields[0].get('expr')))
            dirs.append(parts)
        inner.directives = dirs
        inner.expr = e
        return inner
    if ident is None or len(args) < 3 or any(sp for sp, _ in args):
        return None
    v = VNode()
    v.callee = ident; v.tag = args[0][1]; v.props = args[1][1]; v.children = args[2][1]; v.nargs = len(args); v.expr = e
    v.directives = []
    if len(args) > 3:
        v.flag = args[3][1]
    if len(args) > 4:
        v.dyn = args[4][1]
    return v


def num_lit(e):
    e = E(e)
    if is_expr(e, 'Lit') and e.fields[0].variant == 'Num':
        return e.fields[0].fields[0].get('value')
    return None


def str_lit(e):
    e = E(e)
    if is_expr(e, 'Lit') and e.fields[0].variant == 'Str':
        return e.fields[0].fields[0].get('value')
    return None


def is_null(e):
    e = E(e)
    return is_expr(e, 'Lit') and e.fields[0].variant == 'Null'


def is_true_lit(e):
    e = E(e)
    return is_expr(e, 'Lit') and e.fields[0].variant == 'Bool' and e.fields[0].fields[0].get('value') is True


# ------------------------------------------------------------------ tag denotation
def tag_view(e, mv):
    """-> ('str', SStr) | ('resolve', SStr) | ('vue', name) | ('ident', Ident) | ('member', Expr) | ('jsx', Expr) | ('other', Expr)"""
    e = E(e)
    s = str_lit(e)
    if s is not None:
        return ('str', s)
    if is_expr(e, 'Ident'):
        n = mv.vue_name(e.fields[0])
        if n is not None:
            return ('vue', n)
        return ('ident', e.fields[0])
    cv = call_view(e)
    if cv is not None and cv[0] is not None and mv.vue_name(cv[0]) == 'resolveComponent' and len(cv[1]) == 1:
        s = str_lit(cv[1][0][1])
        if s is not None:
            return ('resolve', s)
    if is_expr(e, 'Member'):
        return ('member', e)
    if e.variant in ('JSXMember', 'JSXNamespacedName', 'JSXElement', 'JSXFragment', 'JSXEmpty'):
        return ('jsx', e)
    return ('other', e)


# ------------------------------------------------------------------ props denotation
class Group:
    """one merge argument: ('lit', entries) | ('spread', expr) | ('on', expr).  entries: ('kv', key, value) | ('spread', expr)
       key: SStr | ('computed', Expr)"""

    def __init__(self, kind, payload):
        self.kind = kind; self.payload = payload


def prop_key(pn):
    pn = deref(pn)
    if pn.variant == 'Str':
        return pn.fields[0].get('value')
    if pn.variant == 'Ident':
        return pn.fields[0].get('sym')
    if pn.variant == 'Computed':
        return ('computed', E(pn.fields[0].get('expr')))
    if pn.variant == 'Num':
        return ('num', pn.fields[0].get('value'))
    raise OracleGap('prop name kind ' + str(pn.variant))


def lit_entries(obj):
    """ObjectLit Adt -> entries"""
    out = []
    for p in obj.get('props'):
        if p.variant == 'Spread':
            out.append(('spread', E(p.fields[0].get('expr'))))
            continue
        pr = deref(p.fields[0])
        if pr.variant == 'KeyValue':
            kv = pr.fields[0]
            out.append(('kv', prop_key(kv.get('key')), E(kv.get('value'))))
        elif pr.variant == 'Shorthand':
            idn = pr.fields[0]
            out.append(('kv', sym_of(idn), Adt('Expr', 'Ident', [idn])))
        elif pr.variant == 'Method':
            out.append(('kv', prop_key(pr.fields[0].get('key')), ('method', pr.fields[0])))
        elif pr.variant == 'Getter':
            out.append(('kv', prop_key(pr.fields[0].get('key')), ('getter', pr.fields[0])))
        elif pr.variant == 'Setter':
            out.append(('kv', prop_key(pr.fields[0].get('key')), ('setter', pr.fields[0])))
        else:
            raise OracleGap('object member ' + str(pr.variant))
    return out


def props_groups(e, mv):
    """emitted props expression -> [Group]"""
    e = E(e)
    if is_null(e):
        return []
    if is_expr(e, 'Object'):
        return [Group('lit', lit_entries(e.fields[0]))]
    cv = call_view(e)
    if cv is not None and cv[0] is not None:
        ident, args = cv
        if mv.vue_name(ident) == 'mergeProps':
            gs = []
            for sp, a in args:
                if sp:
                    raise OracleGap('spread argument to mergeProps')
                gs.extend(props_groups(a, mv) if not is_null(a) else [])
            return gs
        if mv.is_transform_on(ident) and len(args) == 1:
            return [Group('on', args[0][1])]
    return [Group('spread', e)]


def flatten_value(v, deep):
    """class/style arrays flatten completely, listener arrays one level (Vue's normalizeClass / normalizeStyle / invoker arrays)"""
    v = E(v) if not isinstance(v, tuple) else v
    if not isinstance(v, tuple) and is_expr(v, 'Array'):
        out = []
        for el in v.fields[0].get('elems'):
            if not is_some(el):
                out.append(('hole',)); continue
            x = el.fields[0]
            if is_some(x.get('spread')):
                out.append(('spread-elem', E(x.get('expr')))); continue
            if deep:
                out.extend(flatten_value(x.get('expr'), True))
            else:
                out.append(E(x.get('expr')))
        return out
    return [v]


def key_eq(ctx, a, b):
    """are two prop keys the same name? -> bool (decided on the path)"""
    if isinstance(a, tuple) or isinstance(b, tuple):
        return False
    return ctx.decide(seq(a, b))


def lit_value(ctx, entries, k, mode):
    """value tokens of key k inside one literal: suffix since the last explicit entry for k (later spreads may override).
       mode: 'deep' | 'shallow' | None (no flattening)"""
    cur = []
    for en in entries:
        if en[0] == 'spread':
            cur = cur + [('spread', en[1])]
        elif isinstance(en[1], tuple) and en[1][0] == 'computed':
            cur = cur + [('computed', en[1][1], en[2])]
        elif key_eq(ctx, en[1], k):
            cur = flatten_value(en[2], mode == 'deep') if mode else [en[2]]
    return cur


def mergeable_mode(ctx, k):
    """how Vue's mergeProps treats key k: 'deep' (class/style), 'shallow' (onX listeners) or None"""
    if ctx.decide(seq(k, SStr.of('class'))) or ctx.decide(seq(k, SStr.of('style'))):
        return 'deep'
    cs = k.cs
    if len(cs) >= 3 and ctx.decide(b_and(v_eq(cs[0], ord('o')), v_eq(cs[1], ord('n')), b_not(in_range(cs[2], 97, 122)))):
        return 'shallow'
    return None


def denote_key(ctx, groups, k, merge_semantics):
    """runtime value of prop k as an ordered token list.
       merge_semantics=True: groups are the arguments of Vue's mergeProps (or a single literal);
       False: everything is one object literal (last wins)."""
    mode = mergeable_mode(ctx, k) if merge_semantics else None
    if mode:
        out = []
        for g in groups:
            if g.kind == 'lit':
                out.extend(lit_value(ctx, g.payload, k, mode))
            elif g.kind == 'spread':
                out.append(('spread', g.payload))
            else:
                out.append(('on', g.payload))
        return out
    flat = []
    for g in groups:
        if g.kind == 'lit':
            flat.extend(g.payload)
        elif g.kind == 'spread':
            flat.append(('spread', g.payload))
        else:
            flat.append(('spread', ('on', g.payload)))
    return lit_value(ctx, flat, k, None)


def on_relevant(ctx, k):
    """can the transformOn helper produce key k?  (it emits `on` + capitalised event name)"""
    cs = k.cs
    return len(cs) >= 3 and ctx.decide(b_and(v_eq(cs[0], ord('o')), v_eq(cs[1], ord('n')), b_not(in_range(cs[2], 97, 122))))


def split_on_tokens(ctx, tokens, k):
    """separate the tokens that stand for a transformOn(...) object: they only matter for listener keys, and the statement
    does not fix where their handlers sit relative to explicit listeners, so they are compared as a multiset."""
    rel = on_relevant(ctx, k)
    plain = []; ons = []
    for t in tokens:
        inner = t
        if isinstance(t, tuple) and t[0] == 'spread' and isinstance(t[1], tuple) and t[1][0] == 'on':
            inner = t[1]
        if isinstance(inner, tuple) and inner[0] == 'on':
            if rel:
                ons.append(inner)
        else:
            plain.append(t)
    return plain, ons


def tokens_equal(ctx, a, b):
    """-> bool | z3 Bool"""
    if len(a) != len(b):
        return False
    rs = []
    for x, y in zip(a, b):
        rs.append(token_eq(ctx, x, y))
    return b_and(*rs)


def token_eq(ctx, x, y):
    if isinstance(x, tuple) or isinstance(y, tuple):
        if not (isinstance(x, tuple) and isinstance(y, tuple)) or x[0] != y[0] or len(x) != len(y):
            return False
        return b_and(*[token_eq(ctx, p, q) for p, q in zip(x[1:], y[1:])])
    if isinstance(x, SStr) or isinstance(y, SStr):
        return seq(x, y) if isinstance(x, SStr) and isinstance(y, SStr) else False
    return expr_eq(ctx, x, y)


def expr_eq(ctx, a, b):
    """structural equality of two expressions ignoring spans and `raw` spellings of literals"""
    a = deref(a); b = deref(b)
    if isinstance(a, Adt) and isinstance(b, Adt):
        if a.ty == 'Span':
            return True
        if a.ty != b.ty or a.variant != b.variant or len(a.fields) != len(b.fields):
            return False
        rs = []
        for i, (x, y) in enumerate(zip(a.fields, b.fields)):
            if a.names and a.names[i] in ('raw', 'span'):
                continue
            rs.append(expr_eq(ctx, x, y))
        return b_and(*rs)
    if isinstance(a, list) and isinstance(b, list):
        if len(a) != len(b):
            return False
        return b_and(*[expr_eq(ctx, x, y) for x, y in zip(a, b)])
    if isinstance(a, SStr) and isinstance(b, SStr):
        return seq(a, b)
    if isinstance(a, (Adt, list, SStr)) or isinstance(b, (Adt, list, SStr)):
        return False
    if isinstance(a, float) or isinstance(b, float):
        return a == b
    return v_eq(a, b)


# ------------------------------------------------------------------ input side: JSX attributes as groups
def attr_name(attr):
    """JSXAttr -> SStr name ('ns:name' for namespaced)"""
    n = attr.get('name')
    if n.variant == 'Ident':
        return n.fields[0].get('sym')
    nn = n.fields[0]
    return SStr(tuple(nn.get('ns').get('sym').cs) + (ord(':'),) + tuple(nn.get('name').get('sym').cs))


def attr_value_token(ctx, attr, clean):
    """expected runtime value token of a plain attribute"""
    v = attr.get('value')
    if not is_some(v):
        return Adt('Expr', 'Lit', [Adt('Lit', 'Bool', [Adt('Bool', None, [Adt('Span', None, [0, 0], ['lo', 'hi']), True], ['span', 'value'])])])
    av = deref(v.fields[0])
    if av.variant == 'Lit':
        lit = av.fields[0]
        if lit.variant == 'Str':
            cleaned = clean(ctx, lit.fields[0].get('value'))
            return Adt('Expr', 'Lit', [Adt('Lit', 'Str', [Adt('Str', None, [Adt('Span', None, [0, 0], ['lo', 'hi']), cleaned, NoneV()], ['span', 'value', 'raw'])])])
        return Adt('Expr', 'Lit', [lit])
    if av.variant == 'JSXExprContainer':
        je = av.fields[0].get('expr')
        if je.variant == 'Expr':
            return E(je.fields[0])
        return ('jsx-empty',)
    if av.variant == 'JSXElement':
        return ('jsx-element', av.fields[0])
    if av.variant == 'JSXFragment':
        return ('jsx-fragment', av.fields[0])
    raise OracleGap('attribute value kind')
