"""Visitor state construction, the generic-traversal model (swc_ecma_visit's generated `visit_mut_children_with`)
and whole-module / single-element runners on top of the MIR interpreter."""
import re
from .values import *
from .interp import Unsupported, Panic, _strip_generics
from . import astio, models as M
from .models import model, S, L

OPTION_DEFAULTS = {'transform_on': False, 'optimize': False, 'custom_element_patterns': None, 'merge_props': True,
                   'enable_object_slots': True, 'pragma': None, 'resolve_type': False}
JSON_NAMES = {'transform_on': 'transformOn', 'optimize': 'optimize', 'custom_element_patterns': 'customElementPatterns', 'merge_props': 'mergeProps',
              'enable_object_slots': 'enableObjectSlots', 'pragma': 'pragma', 'resolve_type': 'resolveType'}


def make_options(T, opts):
    """opts: dict keyed by rust field names; values: bool | z3 Bool | list of regex descriptors | str/SStr/None for pragma"""
    fs = T.structs['Options']
    vals = []
    for n, ty in fs:
        v = opts.get(n, OPTION_DEFAULTS[n])
        if n == 'custom_element_patterns':
            pats = []
            for i, p in enumerate(v or []):
                if isinstance(p, str):
                    p = {'kind': 'py', 'pattern': p, 'id': i}
                pats.append(Adt('Regex', None, [Opaque('regex', p)]))
            v = pats
        elif n == 'pragma':
            if v is None:
                v = NoneV()
            else:
                v = Some(SStr.of(v) if isinstance(v, str) else v)
        vals.append(v)
    return Adt('Options', None, vals, [n for n, _ in fs])


def make_visitor(T, opts, unresolved_mark, comments=None):
    fs = T.structs['VueJsxTransformVisitor']
    init = {
        'options': make_options(T, opts), 'vue_imports': [], 'transform_on_helper': NoneV(), 'define_component': NoneV(),
        'interfaces': [], 'type_aliases': [], 'unresolved_mark': unresolved_mark,
        'comments': Some(Opaque('comments', comments or {})), 'pragma': NoneV(), 'slot_helper_ident': NoneV(),
        'injecting_vars': [], 'slot_counter': 1, 'slot_flag_stack': [], 'assignment_left': NoneV(), 'injecting_consts': [],
    }
    missing = [n for n, _ in fs if n not in init]
    if missing:
        raise Unsupported('visitor struct has fields the harness does not know: %s' % missing)
    return Adt('VueJsxTransformVisitor', None, [init[n] for n, _ in fs], [n for n, _ in fs])


def construct_visitor(it, ctx, opts, unresolved_mark, comments):
    """the visitor's initial state comes from the real `VueJsxTransformVisitor::new` in the dump, not from the harness"""
    cands = [f for k, fs in it.prog.fns.items() for f in fs if k.endswith('>::new') and 'VueJsxTransformVisitor' in (f.ret_ty or '') and len(f.params) == 3]
    if len(cands) != 1:
        raise Unsupported('VueJsxTransformVisitor::new not found uniquely in the MIR dump (%d candidates)' % len(cands))
    vis = it.run(ctx, cands[0], [make_options(it.T, opts), unresolved_mark, Some(Opaque('comments', comments or {}))])
    vis = deref(vis)
    if not isinstance(vis, Adt) or vis.ty != 'VueJsxTransformVisitor':
        raise Unsupported('VueJsxTransformVisitor::new returned %r' % (vis,))
    return vis


# ---------------------------------------------------------------- comments model
@model(r'<C as Comments>::with_leading::')
def m_with_leading(it, ctx, a, m, f):
    c = deref(a[0]); pos = deref(a[1])
    if isinstance(pos, Adt):
        pos = pos.fields[0]
    items = c.data.get(pos, []) if isinstance(c, Opaque) else []
    lst = []
    for kind, text in items:
        lst.append(Adt('Comment', None, [Adt('CommentKind', kind, []), Adt('Span', None, [0, 0], ['lo', 'hi']), text if isinstance(text, SStr) else SStr.of(text)],
                       ['kind', 'span', 'text']))
    return it.call_closure(ctx, a[2], [mkref(lst)])


@model(r'<C as Comments>::add_pure_comment$')
def m_add_pure(it, ctx, a, m, f):
    ctx.notes.append(('pure_comment', deref(a[1])))
    ctx.__dict__.setdefault('pure_comments', []).append(deref(a[1]))
    return []


@model(r'^BytePos::|<BytePos as ')
def m_bytepos(it, ctx, a, m, f):
    raise Unsupported('BytePos op ' + f)


# ---------------------------------------------------------------- generic traversal model
def _snake(n):
    s = re.sub(r'JSX', 'Jsx', n)
    return re.sub(r'(?<!^)(?=[A-Z])', '_', s).lower()


class Traversal:
    def __init__(self, it):
        self.it = it
        T = it.T
        self.over = {}
        names = {_snake(n): n for n in list(T.structs) + list(T.enums)}
        for fname, fs in it.prog.fns.items():
            mm = re.match(r'^<impl at visitor/src/lib\.rs:[^>]*>::visit_mut_(\w+)$', fname)
            if not mm:
                continue
            suf = mm.group(1)
            if suf in names:
                self.over[names[suf]] = fs[0]
            elif suf.endswith('s') and suf[:-1] in names:
                self.over['Vec<%s>' % names[suf[:-1]]] = fs[0]
            else:
                self.over['?' + suf] = fs[0]

    def unknown_overrides(self):
        return [k for k in self.over if k.startswith('?')]

    def visit_slot(self, ctx, vis, c, k, ty):
        head, args = astio.ty_split(ty)
        if head == 'Box':
            return self.visit_slot(ctx, vis, c, k, args[0])
        v = c[k]
        if head == 'Option':
            if isinstance(v, Adt) and v.variant == 'Some':
                self.visit_slot(ctx, vis, v.fields, 0, args[0])
            return
        if head == 'Vec':
            h2 = astio.ty_split(args[0])[0]
            key = 'Vec<%s>' % h2
            if key in self.over:
                self.it.run(ctx, self.over[key], [vis, Ref(c, k)])
                return
            i = 0
            while i < len(c[k]):
                self.visit_slot(ctx, vis, c[k], i, args[0])
                i += 1
            return
        if head in self.over:
            self.it.run(ctx, self.over[head], [vis, Ref(c, k)])
            return
        self.visit_children(ctx, vis, v, head)

    def visit_children(self, ctx, vis, v, head):
        T = self.it.T
        v = deref(v)
        if head in T.structs and isinstance(v, Adt):
            for i, (fname, fty) in enumerate(T.structs[head]):
                if i < len(v.fields):
                    self.visit_slot(ctx, vis, v.fields, i, fty)
        elif head in T.enums and isinstance(v, Adt):
            for vn, payload, _, _ in T.enums[head]:
                if vn == v.variant:
                    tys = payload['types'] if isinstance(payload, dict) else payload
                    for i, pty in enumerate(tys):
                        self.visit_slot(ctx, vis, v.fields, i, pty)


_TRAV = {}


def traversal(it):
    t = _TRAV.get(id(it))
    if t is None:
        t = Traversal(it); _TRAV[id(it)] = t
    return t


@model(r'^<(.*) as VisitMutWith<VueJsxTransformVisitor<C>>>::visit_mut_children_with$')
def m_visit_children_with(it, ctx, a, m, f):
    ty = m.group(1)
    tr = traversal(it)
    node = a[0]; vis = a[1]
    head, args = astio.ty_split(ty)
    if head == 'Vec':
        lst = deref(node)
        i = 0
        while i < len(lst):
            tr.visit_slot(ctx, vis, lst, i, args[0])
            i += 1
        return []
    tr.visit_children(ctx, vis, deref(node), head)
    return []


@model(r'^<(.*) as VisitMutWith<VueJsxTransformVisitor<C>>>::visit_mut_with$')
def m_visit_with(it, ctx, a, m, f):
    """node.visit_mut_with(visitor): dispatches to the visitor's method for that node type (override or generic)"""
    ty = m.group(1)
    tr = traversal(it)
    node = a[0]; vis = a[1]
    if not isinstance(node, Ref):
        raise Unsupported('visit_mut_with on a non-reference')
    tr.visit_slot(ctx, vis, node.c, node.k, ty)
    return []


# the generic `visit_mut_children_with=identity` stub in models.py must not shadow the model above
M._MODELS[:] = [(rx, fn) for rx, fn in M._MODELS if fn.__name__ != 'm_visit_children']
M._CACHE.clear()


# ---------------------------------------------------------------- runners
def comments_map(resp):
    out = {}
    for pos, items in resp.get('leading_comments', []):
        out[pos] = [(k, t) for k, t in items]
    return out


def setup_ctx(ctx, resp):
    """install the hygiene table of a native parse into the path context"""
    for c, mk in enumerate(resp.get('ctxt_outer_marks', [])):
        if c:
            ctx.ctxt_outer[c] = mk
    ctx.next_mark = 100000
    ctx.next_ctxt = 100000


def run_module(it, ctx, program, opts, resp, comments=None):
    """execute the real visit_mut_module on a parsed Program (Adt). Mutates `program`. -> visitor Adt"""
    setup_ctx(ctx, resp)
    cm = comments if comments is not None else comments_map(resp)
    vis = construct_visitor(it, ctx, opts, resp['unresolved_mark'], cm)
    module = program.fields[0]
    tr = traversal(it)
    holder = [module]
    # `program.visit_mut_with(&mut visitor)`: type-directed from the Module node - through the visitor's own `visit_mut_module`
    # when it overrides it, otherwise through the generic traversal (which reaches e.g. a `visit_mut_module_items` override)
    tr.visit_slot(ctx, mkref(vis), holder, 0, 'Module')
    program.fields[0] = holder[0]
    return vis
