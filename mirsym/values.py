"""Value model of the MIR symbolic executor."""
import z3

CHW = 32  # chars as 32-bit vectors (code points)


class Adt:
    """struct / enum variant / tuple-struct value. Box<T> is transparent (a Box is its content)."""
    __slots__ = ('ty', 'variant', 'fields', 'names')

    def __init__(self, ty, variant, fields, names=None):
        self.ty = ty; self.variant = variant; self.fields = fields; self.names = names

    def get(self, name):
        return self.fields[self.names.index(name)]

    def set(self, name, v):
        self.fields[self.names.index(name)] = v

    def __repr__(self):
        head = (self.ty or '?') + ('::' + self.variant if self.variant else '')
        if self.names:
            return head + '{' + ', '.join('%s: %r' % (n, v) for n, v in zip(self.names, self.fields)) + '}'
        return head + ('(' + ', '.join(map(repr, self.fields)) + ')' if self.fields else '')


class Ref:
    """reference / raw pointer = (container, key); container is a dict (frame env), a list, or Adt.fields."""
    __slots__ = ('c', 'k')

    def __init__(self, c, k):
        self.c = c; self.k = k

    def get(self):
        return self.c[self.k]

    def set(self, v):
        self.c[self.k] = v

    def __repr__(self):
        try:
            return '&' + repr(self.get())
        except Exception:
            return '&<dangling>'


def mkref(v):
    """a fresh reference to a value that has no home (temporaries created by models)."""
    return Ref([v], 0)


def deref(v):
    while isinstance(v, Ref):
        v = v.get()
    return v


class SStr:
    """immutable bounded string: concrete length, chars are ints or z3 BV32 terms."""
    __slots__ = ('cs',)

    def __init__(self, cs):
        self.cs = tuple(cs)

    @staticmethod
    def of(s):
        return SStr([ord(c) for c in s])

    def __len__(self):
        return len(self.cs)

    def is_concrete(self):
        return all(isinstance(c, int) for c in self.cs)

    def py(self):
        return ''.join(chr(c) for c in self.cs)

    def __repr__(self):
        if self.is_concrete():
            return repr(self.py())
        return 'S"' + ''.join(chr(c) if isinstance(c, int) else '?' for c in self.cs) + '"'

    def __eq__(self, o):
        raise TypeError('use seq(a, b) for SStr equality')

    __hash__ = None


class Closure:
    __slots__ = ('ident', 'fields', 'names')

    def __init__(self, ident, fields, names):
        self.ident = ident; self.fields = fields; self.names = names

    def __repr__(self):
        return 'closure' + self.ident[-30:]


class FnItem:
    __slots__ = ('name',)

    def __init__(self, name):
        self.name = name

    def __repr__(self):
        return 'fn:' + self.name[-50:]


class Iter:
    """eager iterator over a Python list of items."""
    __slots__ = ('items', 'pos')

    def __init__(self, items):
        self.items = list(items); self.pos = 0

    def rest(self):
        r = self.items[self.pos:]; self.pos = len(self.items); return r

    def __repr__(self):
        return 'Iter%r@%d' % (self.items, self.pos)


class Uninit:
    """Box<MaybeUninit<[T; n]>> produced by vec! lowering."""
    __slots__ = ('val',)

    def __init__(self):
        self.val = None

    def __getitem__(self, k):
        return self.val

    def __setitem__(self, k, v):
        self.val = v


class Opaque:
    """value of a type the executor does not look into (statics, handlers, ...)."""
    __slots__ = ('what', 'data')

    def __init__(self, what, data=None):
        self.what = what; self.data = data

    def __repr__(self):
        return '<' + self.what + '>'


def Some(x):
    return Adt('Option', 'Some', [x])


def NoneV():
    return Adt('Option', 'None', [])


def is_some(o):
    return o.variant == 'Some'


# ---------------------------------------------------------------- symbolic scalar helpers
def is_sym(x):
    return isinstance(x, z3.ExprRef)


def bv(x, w):
    return x if is_sym(x) else z3.BitVecVal(x, w)


def b_not(a):
    if isinstance(a, bool):
        return not a
    return z3.Not(a)


def b_and(*xs):
    out = []
    for x in xs:
        if isinstance(x, bool):
            if not x:
                return False
        else:
            out.append(x)
    if not out:
        return True
    return out[0] if len(out) == 1 else z3.And(out)


def b_or(*xs):
    out = []
    for x in xs:
        if isinstance(x, bool):
            if x:
                return True
        else:
            out.append(x)
    if not out:
        return False
    return out[0] if len(out) == 1 else z3.Or(out)


def v_eq(a, b):
    """equality of two scalars (ints / bools / z3)."""
    if not is_sym(a) and not is_sym(b):
        return a == b
    if isinstance(a, bool) or isinstance(b, bool) or (is_sym(a) and z3.is_bool(a)) or (is_sym(b) and z3.is_bool(b)):
        if isinstance(a, bool):
            return b if a else z3.Not(b)
        if isinstance(b, bool):
            return a if b else z3.Not(a)
        return a == b
    w = a.size() if is_sym(a) else b.size()
    return bv(a, w) == bv(b, w)


def v_ult(a, b):
    if not is_sym(a) and not is_sym(b):
        return a < b
    w = a.size() if is_sym(a) else b.size()
    return z3.ULT(bv(a, w), bv(b, w))


def v_ule(a, b):
    if not is_sym(a) and not is_sym(b):
        return a <= b
    w = a.size() if is_sym(a) else b.size()
    return z3.ULE(bv(a, w), bv(b, w))


def in_range(c, lo, hi):
    if lo == hi:
        return v_eq(c, lo)
    return b_and(v_ule(lo, c), v_ule(c, hi))


def seq(a, b):
    """equality of two SStr -> bool | z3 Bool"""
    if len(a.cs) != len(b.cs):
        return False
    return b_and(*[v_eq(x, y) for x, y in zip(a.cs, b.cs)])


def s_lt(a, b):
    """lexicographic a < b by code point (== UTF-8 byte order) -> bool | z3 Bool"""
    n = min(len(a.cs), len(b.cs))
    res = len(a.cs) < len(b.cs)     # all common chars equal
    for i in range(n - 1, -1, -1):
        x, y = a.cs[i], b.cs[i]
        lt = v_ult(x, y); e = v_eq(x, y)
        # res = lt or (e and res)
        res = b_or(lt, b_and(e, res))
    return res


def ite(c, a, b):
    if isinstance(c, bool):
        return a if c else b
    if not is_sym(a) and not is_sym(b) and a == b:
        return a
    if isinstance(a, bool) or isinstance(b, bool) or (is_sym(a) and z3.is_bool(a)):
        a2 = z3.BoolVal(a) if isinstance(a, bool) else a
        b2 = z3.BoolVal(b) if isinstance(b, bool) else b
        return z3.If(c, a2, b2)
    w = a.size() if is_sym(a) else b.size()
    return z3.If(c, bv(a, w), bv(b, w))


WS_RANGES = [(0x9, 0xd), (0x20, 0x20), (0x85, 0x85), (0xa0, 0xa0), (0x1680, 0x1680), (0x2000, 0x200a), (0x2028, 0x2029),
             (0x202f, 0x202f), (0x205f, 0x205f), (0x3000, 0x3000)]


def is_rust_whitespace(c):
    """char::is_whitespace (Unicode White_Space)"""
    return b_or(*[in_range(c, lo, hi) for lo, hi in WS_RANGES])
