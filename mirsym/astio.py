"""swc AST type tables (read from the crate sources pinned in the cargo registry), a type-directed reader for
swc's `{:?}` dumps, and canonicalisation for differential comparison."""
import re, glob, os
from .values import Adt, SStr, Some, NoneV, Ref, deref, is_sym

_REG = os.path.expanduser('~/.cargo/registry/src/*/')


def _strip(src):
    """remove comments (keeping `/// `x`` doc strings as markers) and attributes."""
    src = re.sub(r'/\*.*?\*/', '', src, flags=re.S)
    out = []
    for line in src.split('\n'):
        m = re.match(r'\s*/// `([^`]+)`\s*$', line)
        if m:
            out.append('@DOC(' + m.group(1).encode().hex() + ')')
            continue
        line = re.sub(r'//.*$', '', line)
        out.append(line)
    s = '\n'.join(out)
    s = s.replace('#[span(lo)]', '@SPANLO ').replace('#[span(hi)]', '@SPANHI ').replace('#[span]', '@SPAN ')
    # strip #[...] attributes (balanced)
    res = []
    i = 0
    n = len(s)
    while i < n:
        if s[i] == '#' and i + 1 < n and s[i + 1] == '[':
            d = 0
            j = i + 1
            while j < n:
                if s[j] == '[':
                    d += 1
                elif s[j] == ']':
                    d -= 1
                    if d == 0:
                        break
                j += 1
            i = j + 1
            continue
        res.append(s[i]); i += 1
    return ''.join(res)


def _split_top(s, sep=','):
    out = []; d = 0; cur = []
    for i, c in enumerate(s):
        if c in '([{<':
            d += 1
        elif c in ')]}':
            d -= 1
        elif c == '>' and i > 0 and s[i - 1] not in '-=':
            d -= 1
        if c == sep and d == 0:
            out.append(''.join(cur)); cur = []
        else:
            cur.append(c)
    if ''.join(cur).strip():
        out.append(''.join(cur))
    return [x.strip() for x in out]


class Types:
    def __init__(self):
        self.structs = {}     # name -> [(field, type)]
        self.enums = {}       # name -> [(variant, [payload types] | {'names':[..],'types':[..]}, disc, docstr)]
        self.span_fields = {} # struct -> {'span': field} | {'lo': field, 'hi': field}

    def load(self, paths):
        for f in paths:
            s = _strip(open(f).read())
            for m in re.finditer(r'\b(?:pub(?:\([a-z]+\))? )?(struct|enum) (\w+)\s*(?:<[^>{]*>)?\s*(?:where[^{;]*)?(\{|\(|;)', s):
                kind, name, opener = m.groups()
                if opener == ';':
                    self.structs.setdefault(name, []); continue
                i = m.end() - 1
                close = {'{': '}', '(': ')'}[opener]
                d = 0
                j = i
                while True:
                    if s[j] == opener:
                        d += 1
                    elif s[j] == close:
                        d -= 1
                        if d == 0:
                            break
                    j += 1
                body = s[i + 1:j]
                if kind == 'struct':
                    if name in self.structs and self.structs[name]:
                        continue
                    if opener == '(':
                        self.structs[name] = [(str(k), re.sub(r'^pub(\([a-z]+\))? ', '', t)) for k, t in enumerate(_split_top(body))]
                    else:
                        fs = []
                        for fld in _split_top(body):
                            fld = re.sub(r'@DOC\([^)]*\)', '', fld).strip()
                            marks = re.findall(r'@SPAN(LO|HI)?\b', fld)
                            fld = re.sub(r'@SPAN(LO|HI)?\b', '', fld).strip()
                            fm = re.match(r'(?:pub(?:\([a-z]+\))? )?(\w+)\s*:\s*(.*)$', fld, re.S)
                            if fm:
                                fs.append((fm.group(1), ' '.join(fm.group(2).split())))
                                for mk in marks:
                                    self.span_fields.setdefault(name, {})[{'': 'span', 'LO': 'lo', 'HI': 'hi'}[mk]] = fm.group(1)
                        self.structs[name] = fs
                else:
                    if name in self.enums:
                        continue
                    vs = []
                    nextd = 0
                    for v in _split_top(body):
                        doc = None
                        dm = re.search(r'@DOC\(([^)]*)\)\s*(?=\w+\s*(?:[({=]|$))', v)
                        docs = re.findall(r'@DOC\(([^)]*)\)', v)
                        if docs:
                            doc = bytes.fromhex(docs[-1]).decode()
                        v = re.sub(r'@DOC\([^)]*\)', '', v).strip()
                        vm = re.match(r'(\w+)\s*(.*)$', v, re.S)
                        if not vm:
                            continue
                        vname, rest = vm.group(1), vm.group(2).strip()
                        payload = []
                        if rest.startswith('('):
                            payload = [' '.join(t.split()) for t in _split_top(rest[1:rest.rindex(')')])]
                        elif rest.startswith('{'):
                            inner = rest[1:rest.rindex('}')]
                            names = []; tys = []
                            for fld in _split_top(inner):
                                fm = re.match(r'(\w+)\s*:\s*(.*)$', fld, re.S)
                                if fm:
                                    names.append(fm.group(1)); tys.append(' '.join(fm.group(2).split()))
                            payload = {'names': names, 'types': tys}
                        dm2 = re.search(r'=\s*(-?\d+)\s*$', rest)
                        if dm2:
                            nextd = int(dm2.group(1))
                        vs.append((vname, payload, nextd, doc))
                        nextd += 1
                    self.enums[name] = vs

    def variant_index(self, enum, variant):
        for i, v in enumerate(self.enums[enum]):
            if v[0] == variant:
                return i
        raise KeyError((enum, variant))

    def disc(self, enum, variant):
        for v in self.enums[enum]:
            if v[0] == variant:
                return v[2]
        raise KeyError((enum, variant))


_TYPES = None


def load_types(repo=None):
    global _TYPES
    t = Types()
    srcs = sorted(glob.glob(_REG + 'swc_ecma_ast-8.1.0/src/*.rs'))
    t.load(srcs)
    from . import driver as _drv
    t.load(sorted(glob.glob((repo or _drv.REPO) + '/visitor/src/*.rs')))
    t.enums['Option'] = [('None', [], 0, None), ('Some', ['T'], 1, None)]
    t.enums['Result'] = [('Ok', ['T'], 0, None), ('Err', ['E'], 1, None)]
    t.enums['Cow'] = [('Borrowed', ['T'], 0, None), ('Owned', ['T'], 1, None)]
    t.enums['ControlFlow'] = [('Continue', ['C'], 0, None), ('Break', ['B'], 1, None)]
    t.enums['Ordering'] = [('Less', [], -1, None), ('Equal', [], 0, None), ('Greater', [], 1, None)]
    t.enums['Entry'] = [('Vacant', ['T'], 0, None), ('Occupied', ['T'], 1, None)]
    t.structs.setdefault('Span', [('lo', 'BytePos'), ('hi', 'BytePos')])
    t.structs['Span'] = [('lo', 'BytePos'), ('hi', 'BytePos')]
    _TYPES = t
    return t


def types():
    return _TYPES or load_types()


# ---------------------------------------------------------------- Debug dump reader (type directed)
def ty_norm(t):
    t = t.strip()
    t = re.sub(r"^&('\w+ )?(mut )?", '', t)
    return t


def ty_split(t):
    """'Option<Box<Expr>>' -> ('Option', ['Box<Expr>'])"""
    t = ty_norm(t)
    m = re.match(r'^([\w:]+)\s*<(.*)>$', t, re.S)
    if m:
        return m.group(1).split('::')[-1], _split_top(m.group(2))
    return t.split('::')[-1], []


STRING_ENUMS = ('VarDeclKind', 'BinaryOp', 'AssignOp', 'UnaryOp', 'UpdateOp', 'MethodKind', 'Accessibility', 'TruePlusMinus',
                'TsTypeOperatorOp', 'ImportPhase')


class DebugReader:
    def __init__(self, s):
        self.s = s; self.i = 0; self.T = types()

    def ws(self):
        s = self.s
        while self.i < len(s) and s[self.i] in ' \n':
            self.i += 1

    def expect(self, ch):
        self.ws()
        if self.s[self.i] != ch:
            raise ValueError('expected %r at %d: %r' % (ch, self.i, self.s[self.i:self.i + 60]))
        self.i += 1

    def peek(self):
        self.ws()
        return self.s[self.i]

    def string(self):
        self.ws()
        s = self.s
        assert s[self.i] == '"', s[self.i:self.i + 40]
        j = self.i + 1
        out = []
        while s[j] != '"':
            if s[j] == '\\':
                c = s[j + 1]
                if c == 'n': out.append('\n'); j += 2
                elif c == 't': out.append('\t'); j += 2
                elif c == 'r': out.append('\r'); j += 2
                elif c == '0': out.append('\0'); j += 2
                elif c in '"\'\\': out.append(c); j += 2
                elif c == 'u':
                    k = s.index('}', j)
                    out.append(chr(int(s[j + 3:k], 16))); j = k + 1
                elif c == 'x':
                    out.append(chr(int(s[j + 2:j + 4], 16))); j += 4
                else:
                    raise ValueError('escape ' + s[j:j + 6])
            else:
                out.append(s[j]); j += 1
        self.i = j + 1
        return ''.join(out)

    def ident(self):
        self.ws()
        m = re.compile(r'[A-Za-z_][A-Za-z0-9_]*').match(self.s, self.i)
        if not m:
            raise ValueError('ident at %r' % self.s[self.i:self.i + 50])
        self.i = m.end()
        return m.group(0)

    def read(self, ty):
        T = self.T
        head, args = ty_split(ty)
        self.ws()
        if head == 'Box':
            return self.read(args[0])
        if head == 'Option':
            name = self.ident()
            if name == 'None':
                return NoneV()
            assert name == 'Some', name
            self.expect('(')
            v = self.read(args[0])
            self.expect(')')
            return Some(v)
        if head == 'Vec':
            self.expect('[')
            out = []
            while True:
                if self.peek() == ']':
                    self.i += 1
                    return out
                out.append(self.read(args[0]))
                if self.peek() == ',':
                    self.i += 1
        if head in ('Atom', 'String', 'str', 'JsWord', 'Wtf8Atom'):
            return SStr.of(self.string())
        if head == 'bool':
            n = self.ident()
            return n == 'true'
        if head == 'Span':
            m = re.compile(r'(-?\d+)\.\.(-?\d+)').match(self.s, self.i)
            self.i = m.end()
            return Adt('Span', None, [int(m.group(1)), int(m.group(2))], ['lo', 'hi'])
        if head == 'SyntaxContext':
            m = re.compile(r'#(\d+)').match(self.s, self.i)
            self.i = m.end()
            return int(m.group(1))
        if head in ('f64', 'f32'):
            m = re.compile(r'-?(\d+(\.\d+)?(e-?\d+)?|inf|NaN)').match(self.s, self.i)
            self.i = m.end()
            return float(m.group(0))
        if head in ('u8', 'u16', 'u32', 'u64', 'usize', 'i8', 'i16', 'i32', 'i64', 'isize', 'BytePos'):
            m = re.compile(r'-?\d+').match(self.s, self.i)
            self.i = m.end()
            return int(m.group(0))
        if head in STRING_ENUMS and self.peek() == '"':
            sv = self.string()
            for v in T.enums[head]:
                if v[3] == sv:
                    return Adt(head, v[0], [])
            raise ValueError('string enum %s %r' % (head, sv))
        if head == 'BigIntValue' or head == 'BigInt' and False:
            m = re.compile(r'-?\d+').match(self.s, self.i)
            self.i = m.end()
            return int(m.group(0))
        if head in T.enums:
            name = self.ident()
            for v in T.enums[head]:
                if v[0] == name:
                    payload = v[1]
                    if isinstance(payload, dict):
                        vals = self.named_fields(payload['names'], payload['types'])
                        return Adt(head, name, vals, list(payload['names']))
                    if payload:
                        self.expect('(')
                        vals = []
                        for k, pt in enumerate(payload):
                            vals.append(self.read(pt))
                            if self.peek() == ',':
                                self.i += 1
                        self.expect(')')
                        return Adt(head, name, vals)
                    return Adt(head, name, [])
            raise ValueError('variant %s::%s' % (head, name))
        if head in T.structs:
            name = self.ident()
            fs = T.structs[head]
            if name != head:
                raise ValueError('struct %s got %s' % (head, name))
            if fs and fs[0][0] == '0':
                self.expect('(')
                vals = []
                for _, ft in fs:
                    vals.append(self.read(ft))
                    if self.peek() == ',':
                        self.i += 1
                self.expect(')')
                return Adt(head, None, vals)
            vals = self.named_fields([f for f, _ in fs], [t for _, t in fs])
            return Adt(head, None, vals, [f for f, _ in fs])
        raise ValueError('no reader for type %r at %r' % (ty, self.s[self.i:self.i + 60]))

    def named_fields(self, names, tys):
        self.expect('{')
        got = {}
        while True:
            if self.peek() == '}':
                self.i += 1
                break
            n = self.ident()
            self.expect(':')
            got[n] = self.read(tys[names.index(n)])
            if self.peek() == ',':
                self.i += 1
        return [got[n] for n in names]


def read_program(dump):
    """dump = format!("{:?}", Program) -> Adt"""
    r = DebugReader(dump)
    v = r.read('Program')
    r.ws()
    if r.i != len(dump):
        raise ValueError('trailing dump text')
    return v


# ---------------------------------------------------------------- traversal helpers
def walk(v, fn, path=()):
    """pre-order walk over Adt / list values, calling fn(value, path)."""
    fn(v, path)
    if isinstance(v, Adt):
        for i, f in enumerate(v.fields):
            walk(f, fn, path + (i,))
    elif isinstance(v, list):
        for i, f in enumerate(v):
            walk(f, fn, path + (i,))


def find_all(v, ty, variant=None):
    out = []

    def f(x, p):
        if isinstance(x, Adt) and x.ty == ty and (variant is None or x.variant == variant):
            out.append(x)
    walk(v, f)
    return out


def canon(v, ctxmap=None, keep_span=False):
    """hashable canonical form for differential comparison (spans dropped, ctxts renumbered by first occurrence)."""
    if ctxmap is None:
        ctxmap = {}
    v = deref(v)
    if isinstance(v, Adt):
        head = (v.ty or '') + ('::' + v.variant if v.variant else '')
        if v.ty == 'Span':
            return ('Span',) + (tuple(v.fields) if keep_span else ())
        if v.names:
            items = []
            for n, f in zip(v.names, v.fields):
                if n == 'ctxt':
                    f = deref(f)
                    if isinstance(f, int):
                        f = ctxmap.setdefault(f, len(ctxmap))
                    items.append((n, f))
                else:
                    items.append((n, canon(f, ctxmap, keep_span)))
            return (head, tuple(items))
        return (head, tuple(canon(f, ctxmap, keep_span) for f in v.fields))
    if isinstance(v, list):
        return tuple(canon(x, ctxmap, keep_span) for x in v)
    if isinstance(v, SStr):
        return v.py() if v.is_concrete() else repr(v)
    if isinstance(v, float) and v == int(v):
        return int(v)
    return v


def first_diff(a, b, path=''):
    if type(a) != type(b):
        return (path, a, b)
    if isinstance(a, tuple):
        if len(a) != len(b):
            return (path + '/len', len(a), len(b), a, b)
        for i, (x, y) in enumerate(zip(a, b)):
            lab = x[0] if isinstance(x, tuple) and x and isinstance(x[0], str) else str(i)
            r = first_diff(x, y, path + '/' + lab)
            if r:
                return r
        return None
    return None if a == b else (path, a, b)
