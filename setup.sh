#!/bin/sh
# Offline setup: build the native driver (E3) and warm the MIR-dump build cache. Nothing is fetched.
set -e
cd "$(dirname "$0")"
export CARGO_NET_OFFLINE=true
python3-vt - <<'PY'
import sys
sys.path.insert(0, '.')
from mirsym import driver
b = driver.e3_build()
print('e3 built:', b)
plain, verb, info = driver.mir_dump(True)
print('mir dump:', info, len(plain.splitlines()), 'lines')
PY
