// E3: native driver. Real swc parser + resolver + /repo's visitor.
// Not a deciding step: used for input generation (PRE dump), differential
// validation of the MIR executor (POST dump) and counterexample replay.
// Protocol: one JSON request per stdin line, one JSON response per stdout line.
use std::io::{BufRead, Write};
use std::panic::{catch_unwind, AssertUnwindSafe};
use std::sync::{Arc, Mutex};
use swc_core::common::errors::{DiagnosticBuilder, Emitter, Handler, HANDLER};
use swc_core::common::{
    comments::SingleThreadedComments, sync::Lrc, FileName, Globals, Mark, SourceMap, SyntaxContext,
    GLOBALS,
};
use swc_core::ecma::ast::*;
use swc_core::ecma::codegen::{text_writer::JsWriter, Emitter as CodeEmitter};
use swc_core::ecma::parser::{parse_file_as_module, EsSyntax, Syntax, TsSyntax};
use swc_core::ecma::transforms::base::resolver;
use swc_core::ecma::visit::VisitMutWith;
use swc_vue_jsx_visitor::{Options, VueJsxTransformVisitor};

struct Collect(Arc<Mutex<Vec<String>>>);
impl Emitter for Collect {
    fn emit(&mut self, db: &DiagnosticBuilder<'_>) {
        self.0.lock().unwrap().push(format!("{:?}: {}", db.level, db.message()));
    }
}

fn print(cm: &Lrc<SourceMap>, m: &Module) -> Result<String, String> {
    let mut buf = vec![];
    {
        let mut e = CodeEmitter {
            cfg: Default::default(),
            cm: cm.clone(),
            comments: None,
            wr: JsWriter::new(cm.clone(), "\n", &mut buf, None),
        };
        e.emit_module(m).map_err(|e| e.to_string())?;
    }
    String::from_utf8(buf).map_err(|e| e.to_string())
}

fn parse(cm: &Lrc<SourceMap>, src: &str, tsx: bool, jsx: bool, comments: Option<&SingleThreadedComments>) -> Result<Module, String> {
    let fm = cm.new_source_file(Lrc::new(FileName::Anon), src.to_string());
    let syntax = if tsx {
        Syntax::Typescript(TsSyntax { tsx: jsx, ..Default::default() })
    } else {
        Syntax::Es(EsSyntax { jsx, ..Default::default() })
    };
    let mut errs = vec![];
    let r = parse_file_as_module(&fm, syntax, EsVersion::latest(), comments.map(|c| c as _), &mut errs);
    match r {
        Ok(m) if errs.is_empty() => Ok(m),
        Ok(_) => Err(format!("{:?}", errs.iter().map(|e| e.kind().msg().to_string()).collect::<Vec<_>>())),
        Err(e) => Err(e.kind().msg().to_string()),
    }
}

fn handle(req: &serde_json::Value) -> serde_json::Value {
    let src = req["src"].as_str().unwrap_or("");
    let tsx = req["tsx"].as_bool().unwrap_or(false);
    let want_dump = req["dump"].as_bool().unwrap_or(true);
    let twice = req["twice"].as_bool().unwrap_or(false);
    let mut out = serde_json::Map::new();
    out.insert("id".into(), req["id"].clone());
    // `options_text`: the configuration as JSON text, read the way the plugin entry reads it (serde_json::from_str)
    let parsed: Result<Options, serde_json::Error> = match req.get("options_text").and_then(|t| t.as_str()) {
        Some(text) => serde_json::from_str(text),
        None => serde_json::from_value(req.get("options").cloned().unwrap_or(serde_json::json!({}))),
    };
    let options: Options = match parsed {
        Ok(o) => o,
        Err(e) => {
            out.insert("options_error".into(), e.to_string().into());
            return out.into();
        }
    };
    out.insert("options_debug".into(), format!("{:?}", options).into());
    let cm: Lrc<SourceMap> = Default::default();
    let comments = SingleThreadedComments::default();
    let diags = Arc::new(Mutex::new(vec![]));
    let handler = Handler::with_emitter(true, false, Box::new(Collect(diags.clone())));
    GLOBALS.set(&Globals::new(), || {
        let module = match parse(&cm, src, tsx, true, Some(&comments)) {
            Ok(m) => m,
            Err(e) => {
                out.insert("parse_error".into(), e.into());
                return;
            }
        };
        let unresolved = Mark::new();
        let top = Mark::new();
        let mut program = Program::Module(module);
        program.mutate(resolver(unresolved, top, tsx));
        out.insert("unresolved_mark".into(), unresolved.as_u32().into());
        out.insert("top_level_mark".into(), top.as_u32().into());
        if want_dump {
            out.insert("pre".into(), format!("{:?}", program).into());
            let (leading, _trailing) = comments.borrow_all();
            let mut lead: Vec<serde_json::Value> = leading
                .iter()
                .map(|(pos, cs)| {
                    serde_json::json!([pos.0, cs.iter().map(|c| serde_json::json!([format!("{:?}", c.kind), c.text.to_string()])).collect::<Vec<_>>()])
                })
                .collect();
            lead.sort_by_key(|v| v[0].as_u64());
            out.insert("leading_comments".into(), lead.into());
        }
        let run = |program: &mut Program, options: Options| {
            catch_unwind(AssertUnwindSafe(|| {
                HANDLER.set(&handler, || {
                    let mut v = VueJsxTransformVisitor::new(options, unresolved, Some(comments.clone()));
                    program.visit_mut_with(&mut v);
                })
            }))
        };
        let r = run(&mut program, options.clone());
        if let Err(p) = r {
            let msg = p.downcast_ref::<String>().cloned().or_else(|| p.downcast_ref::<&str>().map(|s| s.to_string())).unwrap_or_else(|| "panic".into());
            out.insert("panic".into(), msg.into());
            return;
        }
        if want_dump {
            out.insert("post".into(), format!("{:?}", program).into());
        }
        // ctxt -> outer mark table for every context that exists now
        let mut marks = vec![];
        for i in 0..4096u32 {
            let r = catch_unwind(AssertUnwindSafe(|| SyntaxContext::from_u32(i).outer().as_u32()));
            match r { Ok(m) => marks.push(m), Err(_) => break }
        }
        out.insert("ctxt_outer_marks".into(), marks.into());
        if let Program::Module(m) = &program {
            match print(&cm, m) {
                Ok(code) => {
                    // does the printed form re-parse as a plain (non-JSX) module?
                    let cm2: Lrc<SourceMap> = Default::default();
                    match parse(&cm2, &code, tsx, false, None) {
                        Ok(_) => { out.insert("reparse_ok".into(), true.into()); }
                        Err(e) => { out.insert("reparse_ok".into(), false.into()); out.insert("reparse_error".into(), e.into()); }
                    }
                    out.insert("code".into(), code.into());
                }
                Err(e) => { out.insert("print_error".into(), e.into()); }
            }
        }
        if twice {
            let r2 = run(&mut program, options.clone());
            if r2.is_ok() {
                if let Program::Module(m) = &program {
                    if let Ok(code) = print(&cm, m) { out.insert("code_twice".into(), code.into()); }
                }
                out.insert("post_twice".into(), format!("{:?}", program).into());
            }
        }
    });
    out.insert("diags".into(), diags.lock().unwrap().clone().into());
    out.into()
}

fn main() {
    std::panic::set_hook(Box::new(|_| {}));
    let stdin = std::io::stdin();
    let stdout = std::io::stdout();
    for line in stdin.lock().lines() {
        let line = match line { Ok(l) => l, Err(_) => break };
        if line.trim().is_empty() { continue; }
        let req: serde_json::Value = match serde_json::from_str(&line) {
            Ok(v) => v,
            Err(e) => { println!("{}", serde_json::json!({"error": e.to_string()})); continue; }
        };
        // run each request on a big-stack thread so that deep recursion is survivable
        let resp = std::thread::Builder::new()
            .stack_size(64 << 20)
            .spawn(move || {
                // `prelude`: requests served first on the same thread, results dropped - state that survives a run
                // (thread-locals, statics) then shows in the answer to the request proper
                if let Some(pre) = req.get("prelude").and_then(|p| p.as_array()) {
                    for p in pre {
                        let _ = handle(p);
                    }
                }
                handle(&req)
            })
            .unwrap()
            .join()
            .unwrap_or_else(|_| serde_json::json!({"panic": "thread died"}));
        let mut o = stdout.lock();
        writeln!(o, "{}", resp).unwrap();
        o.flush().unwrap();
    }
}
