// Secondary engine (E2): Kani/CBMC on the real compiled code of the byte-level leaf predicates.
// Included into a scratch copy of visitor/src/lib.rs as `#[cfg(kani)] mod verif_kani { include!(...) }`.
use super::*;

fn sym_ascii<const N: usize>(buf: &[u8; N], len: usize) -> &str {
    // ASCII only: every prefix is valid UTF-8
    unsafe { std::str::from_utf8_unchecked(&buf[..len]) }
}

/// util::is_on == /^on[^a-z]/ on every ASCII string of <= 4 bytes
#[kani::proof]
#[kani::unwind(6)]
fn is_on_matches_vue_is_on() {
    let b: [u8; 4] = kani::any();
    kani::assume(b[0] < 128 && b[1] < 128 && b[2] < 128 && b[3] < 128);
    let len: usize = kani::any();
    kani::assume(len <= 4);
    let s = sym_ascii(&b, len);
    let expected = len >= 3 && b[0] == b'o' && b[1] == b'n' && !(b[2] >= b'a' && b[2] <= b'z');
    assert!(util::is_on(s) == expected);
}

/// the patch flag constants are Vue's published bit values
#[kani::proof]
fn patch_flags_are_vues() {
    assert!(PatchFlags::TEXT.bits() == 1);
    assert!(PatchFlags::CLASS.bits() == 2);
    assert!(PatchFlags::STYLE.bits() == 4);
    assert!(PatchFlags::PROPS.bits() == 8);
    assert!(PatchFlags::FULL_PROPS.bits() == 16);
    assert!(PatchFlags::HYDRATE_EVENTS.bits() == 32);
    assert!(PatchFlags::STABLE_FRAGMENT.bits() == 64);
    assert!(PatchFlags::KEYED_FRAGMENT.bits() == 128);
    assert!(PatchFlags::UNKEYED_FRAGMENT.bits() == 256);
    assert!(PatchFlags::NEED_PATCH.bits() == 512);
    assert!(PatchFlags::DYNAMIC_SLOTS.bits() == 1024);
    assert!(PatchFlags::HOISTED.bits() == -1);
    assert!(PatchFlags::BAIL.bits() == -2);
    assert!(SlotFlag::Stable as u8 == 1);
    assert!(SlotFlag::Dynamic as u8 == 2);
    let mut f = PatchFlags::empty();
    assert!(f.is_empty());
    f.insert(PatchFlags::CLASS);
    f.insert(PatchFlags::PROPS);
    assert!(f.bits() == 10);
}

/// directive::is_directive == /^v(-|[A-Z])/ on every ASCII attribute name of exactly 3 bytes (needs the hstr model crate)
#[cfg(verif_kani_atoms)]
#[kani::proof]
#[kani::unwind(8)]
fn is_directive_matches_prefix_rule() {
    let b: [u8; 3] = kani::any();
    kani::assume(b[0] < 128 && b[1] < 128 && b[2] < 128);
    let s = sym_ascii(&b, 3);
    let attr = JSXAttr {
        span: DUMMY_SP,
        name: JSXAttrName::Ident(IdentName::new(Atom::from(s), DUMMY_SP)),
        value: None,
    };
    let expected = b[0] == b'v' && (b[1] == b'-' || (b[1] >= b'A' && b[1] <= b'Z'));
    assert!(is_directive(&attr) == expected);
    std::mem::forget(attr);
}
