#!/bin/sh
# runs every seeded change against the check of its property (quick tier) and prints a table
cd /verif
for d in seeded/*/; do
  id=$(basename $d)
  prop=$(python3 -c "import json;print(json.load(open('$d/meta.json')).get('property','$id')[:3])" 2>/dev/null || echo $id)
  r=$(./tools/${RUNNER:-run_seed_wt.sh} $id $prop 2>&1 | grep "^check\|PATCH" | head -1)
  echo "$id | $prop | $r"
done
