#!/bin/sh
# usage: run_seed.sh <seed dir name under /verif/seeded> <check id>...   applies the patch to /repo, runs the checks, reverts.
S=/verif/seeded/$1; shift
cd /repo && git status --short | grep -q . && { echo "/repo is dirty"; exit 2; }
git apply --3way $S/patch.diff 2>/dev/null || git apply $S/patch.diff || { echo "PATCH-DOES-NOT-APPLY"; git checkout -q HEAD -- . ; git reset -q; exit 3; }
git reset -q
cd /verif
for c in "$@"; do
  ./check $c --tier ${TIER:-quick} > /tmp/seedrun-$c.log 2>&1; echo "check $c exit=$? $(grep -c '^VIOLATION' /tmp/seedrun-$c.log) violation lines; $(tail -1 /tmp/seedrun-$c.log | cut -c1-160)"
  grep -A1 '^VIOLATION' /tmp/seedrun-$c.log | head -6 | cut -c1-300
done
cd /repo && git checkout -q HEAD -- . ; git reset -q && git status --short | head -3
