#!/usr/bin/env python3
"""Regenerates MANIFEST.json from the table below (kept in one place so the manifest stays valid)."""
import json, os
HERE = os.path.dirname(os.path.dirname(os.path.abspath(__file__)))
props = [json.loads(l) for l in open(os.path.join(HERE, 'properties.jsonl'))]

TECH = 'SMT-based symbolic execution of rustc MIR (Z3), bounded skeletons with symbolic leaves'
TRUST = ('trusted: rustc MIR dump = compiled semantics; models of the external (std/swc/indexmap/...) functions listed in evidence; '
         'traversal model of swc_ecma_visit (validated on 81 fixtures + sampled witnesses against the native build); swc parser/resolver/printer outside; inputs above the stated bounds outside')
CHECKS = {
 'C01': ('for every element skeleton within the bounds (tag forms incl. fully symbolic tag names, <=2/<=3 attributes incl. symbolic names and string values, spreads, on/nativeOn, options symbolic) Z3 shows on every path of the real visitor MIR that the emitted vnode type and the abstract value of the emitted props equal what the written attributes denote; witnesses are confirmed on the native build before being reported', '4 C01'),
 'C04': ('for every directive attribute within the bounds (fully symbolic v-/vX names of 3..6 (quick) or 3..8 (thorough) characters incl. _ suffixes, namespaced v-x:arg_mod with symbolic parts, all value shapes, element and component hosts, co-occurring attributes and directives) Z3 shows on every path of the real visitor MIR that exactly one runtime binding with the written name/value/argument/modifiers is emitted (v-html/v-text: the innerHTML/textContent prop) and that props, children and type equal those of the same element without the directive', '4 C04'),
 'C03': ('for every component element skeleton within the bounds (bound/unbound/member hosts, <=2 (quick) / <=3 (thorough) children of every kind incl. symbolic texts, v-slots forms, enableObjectSlots and optimize symbolic) Z3 shows on every path that the emitted third argument denotes the slots of the statement: default wrapper returning the children in order, function child as default, object child as the slots object, v-slots merged, runtime conditional through a helper whose body is evaluated over the runtime value kinds, call child evaluated once through a declared temporary', '4 C03'),
 'C05': ('for every v-model / v-models skeleton within the bounds (16 hosts incl. input with static / dynamic / braces-constant / spread-supplied type, select, textarea, other element, component; 16 spellings incl. suffix modifiers, v-model:arg, array forms with string or computed argument and modifier lists; identifier/member/index targets; co-occurring attributes; v-models lists vs the explicit v-model sequence in the same module) Z3 shows on every path that the emitted binding is the one the statement describes and that the generated listener is `$event => (target) = $event`; one fixture-locked deviation is a known finding', '4 C05'),
 'C12': ('relational: a stride sample of the C01/C03/C04/C05/C13 skeleton spaces plus all nested component trees is executed twice on the same path condition (optimize=false / true, other options symbolic and shared); Z3 shows on every path that the two outputs are equal once hint arguments and `_` keys are erased, that optimize=false emits no hints, and that the imported helpers are the same', '4 C12'),
 'C15': ('for every module skeleton within the bounds (comment texts fully symbolic over Unicode up to 7 (quick) / 9 (thorough) code points plus 16 candidate annotation texts; block/JSDoc/line comments at the file head, before a later statement and inside a function; pragma option absent/present) Z3 shows on every path that every vnode call in the module (top level, nested, inside a function) uses exactly the name the statement derives from the comments/option, and that createVNode is imported iff used', '4 C15'),
 'C16': ('for every (prop map, encoding) pair within the bounds (7 maps of <=3 members incl. quoted/hyphenated keys, methods, getters, optional flags; 27 encodings: inline, alias chains, interfaces, merged, extends chains, intersections, parentheses, exported, Partial/Required/Pick/Omit incl. alias key unions, indexed access, declarations after the call, unresolvable types; top-level and function-local shadowing scopes) the real resolveType MIR is executed on the whole module and the emitted props option is shown to have exactly the keys and required flags of the map (or an error diagnostic for unresolvable types); declarations after the call are a known finding', '4 C16'),
 'C18': ('for every default object within the bounds (25 static member forms singly and in pairs plus a 7-member object; 8 dynamic forms; arrow and function setups; 10 declared props incl. Function-typed ones) the emitted `default` entries are run through Vue\'s resolution rule (factories are called unless the type is exactly Function) and shown equal to the written value, dynamic defaults shown to go through mergeDefaults(props, <written expression>); one deviation is a known finding', '4 C18'),
 'C19': ('for every (event set, encoding) pair within the bounds (4 sets incl. names with : and -; 17 encodings: function type with literal union, union of function types, call-signature literals/interfaces/aliases, extends, intersection, property syntax, literal-union alias chains, exported, local shadowing, function-expression setup; no-annotation forms) the emitted `emits` option is shown to be exactly the set (absent without SetupContext<E>); declarations after the call are a known finding', '4 C19'),
 'C17': ('for every prop type within the bounds (95 atoms incl. all keyword/literal/function/array/tuple/type-literal/built-in-class/utility forms; unions of two atoms, intersections, parentheses, NonNullable, array/tuple/property indexing, optional props; type-reference names fully symbolic up to 7 (quick) / 10 (thorough) characters with and without type arguments) Z3 shows on every path of resolveType that the emitted constructor list accepts, under Vue\'s validation rules, every kind of JS value that inhabits the declared type; two deviations (one fixture-locked, one not small) are known findings', '4 C17'),
 'C20': ('for every call skeleton within the bounds (11 binding provenances of `defineComponent` incl. a fully symbolic import source, 6 setup-argument forms, 21 options-argument forms, 10 declaration contexts, resolveType symbolic) Z3 shows on every path that non-eligible calls are left exactly as written and that, for eligible ones, the abstract value of every option key of the resulting options expression is the user\'s wherever the user (or an expression spread into the result) supplies it', '4 C20'),
 'C13': ('for every attribute multiset within the bounds (kind x name table incl. symbolic attribute names, spreads, v-model with computed argument, directives, v-html/v-text, on objects; element and component hosts; nested component trees for slot flags) with optimize on, Z3 shows on every path that flag / dynamic-prop list / slot `_` satisfy each clause of the statement, evaluated on the emitted props', '4 C13'),
 'C02': ('two kernels. (1) util::transform_text: for every JSX text of <=4 (quick) / <=6 (thorough) code points over the full Unicode alphabet Z3 shows the cleaned text equals the JSX whitespace rule on every path. (2) child-list construction: for element/Fragment/KeepAlive/custom-element skeletons with <=2 (quick) / <=3 (thorough) children of every kind (symbolic texts of 1..3 code points in every position, expressions, empties, comments, spread children, nested elements/fragments) Z3 shows the emitted children denote the written ones in order. Counterexamples are replayed on the native build before being reported; two Babel-compatible deviations are listed as known findings', '4 C02'),
}
NA = {
}
checks = []
for p in props:
    pid = p['id']
    if pid in CHECKS:
        text, ref = CHECKS[pid][:2]
        note = CHECKS[pid][2] if len(CHECKS[pid]) > 2 else TRUST
        checks.append({
            'property_id': pid, 'quick_cmd': './check %s --tier quick' % pid, 'thorough_cmd': './check %s --tier thorough' % pid,
            'evidence_file': 'evidence/%s.json' % pid, 'replay_cmd_template': './check %s --replay {path}' % pid, 'engine': 'mirsym',
            'level_claimed': {'category': 'model_checking', 'text': text, 'design_ref': 'DESIGN.md ' + ref},
            'level_note': note, 'technique': TECH})
na = [{'property_id': p['id'], 'reason': NA.get(p['id'], 'check not built yet in this session (see DESIGN.md 5 build order)')} for p in props if p['id'] not in CHECKS]
man = {
 'version': 1, 'setup_cmd': './setup.sh',
 'hooks': {'guard': 'none (no source hooks: the MIR of the unmodified crate is read; Kani harnesses are appended to scratch copies)',
           'enable': 'n/a - checks build /repo as it is', 'baseline_off_cmd': 'cd /repo && cargo test --workspace --no-fail-fast --offline',
           'source_commits': [], 'add_only': True},
 'engines': [
  {'name': 'mirsym', 'path': 'mirsym/', 'serves_properties': sorted(CHECKS), 'kind_free_text': "symbolic executor over rustc's MIR dump of /repo/visitor (regenerated whenever the sources change) with Z3 deciding every branch feasibility and every oracle obligation"},
  {'name': 'e3', 'path': 'e3/', 'serves_properties': sorted(CHECKS), 'kind_free_text': 'native driver (swc parser+resolver+/repo visitor): input ASTs, differential validation of the executor, replay of solver witnesses; not a deciding step'}],
 'checks': checks, 'not_applicable': na,
 'notes': 'solver-based checking of the real code; see DESIGN.md. Genuine defects repaired by fix: commits are listed in known_findings.txt.'}
json.dump(man, open(os.path.join(HERE, 'MANIFEST.json'), 'w'), indent=1)
print('checks:', [c['property_id'] for c in checks], 'n/a:', len(na))
