#!/usr/bin/env python3
"""prints a markdown table of what the last run of each check covered (from evidence/*.json); used for DESIGN.md appendix A"""
import json, glob, os, sys
V = os.path.dirname(os.path.dirname(os.path.abspath(__file__)))
print('| check | tier | paths | solver queries | obligations | functions encoded | models used | native validations | known findings | inconclusive | wall |')
print('|---|---|---|---|---|---|---|---|---|---|---|')
for f in sorted(glob.glob(os.path.join(sys.argv[1] if len(sys.argv) > 1 else os.path.join(V, 'evidence'), 'C*.json'))):
    e = json.load(open(f)); c = e['coverage']
    print('| %s | %s | %d | %d | %d | %d | %d | %d | %d | %d | %.0f s |' % (e['property_id'], e['tier'], c['states'], c['solver']['queries'], c['obligations_discharged'], len(c['functions_encoded']),
          len(c['library_models_used']), c['traces_validated_against_impl'], len(c.get('known_findings_reported', [])), len(c['inconclusive']), e['wall_s']))
