#!/bin/sh
# usage: run_seed_wt.sh <seed dir name under /verif/seeded> <check id>...
# like run_seed.sh but leaves /repo alone: the patch is applied in a scratch worktree and the checks run with VERIF_REPO pointing at it.
S=/verif/seeded/$1; N=$1; shift
WT=/tmp/wtrun-$N
git -C /repo worktree remove --force $WT 2>/dev/null
git -C /repo worktree add -q --detach $WT HEAD || exit 2
( cd $WT && { git apply --3way $S/patch.diff 2>/dev/null || git apply $S/patch.diff; } ) || { echo PATCH-DOES-NOT-APPLY; git -C /repo worktree remove --force $WT; exit 3; }
cd /verif
for c in "$@"; do
  VERIF_REPO=$WT ./check $c --tier ${TIER:-quick} > /tmp/seedrun-$N-$c.log 2>&1; echo "check $c exit=$? $(grep -c '^VIOLATION' /tmp/seedrun-$N-$c.log) violation lines; $(tail -1 /tmp/seedrun-$N-$c.log | cut -c1-160)"
  grep -A1 '^VIOLATION' /tmp/seedrun-$N-$c.log | head -6 | cut -c1-300
done
git -C /repo worktree remove --force $WT
T=$(python3 -c "import hashlib;print(hashlib.sha256('$WT'.encode()).hexdigest()[:10])")
rm -rf /verif/.cache/e3-alt-$T
