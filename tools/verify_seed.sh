#!/bin/sh
# usage: verify_seed.sh <ID> [<worktree>]  - confirms a seeded change in its scratch worktree:
#   suite passes with it, demo fails with it, demo passes without it. Prints a JSON summary line.
ID=$1; WT=${2:-/tmp/wt-$ID}; OUT=/tmp/seed-out/$ID
export CARGO_NET_OFFLINE=true
cd $WT || exit 2
git checkout -q -- . 2>/dev/null; rm -f visitor/tests/demo.rs
git apply $OUT/patch.diff || { echo "{\"id\":\"$ID\",\"error\":\"patch does not apply\"}"; exit 2; }
S1=$(cargo test --workspace --offline 2>&1 | grep -E '^test result: .* [1-9][0-9]* passed' | head -1)
cp $OUT/demo.rs visitor/tests/demo.rs
D1=$(cargo test --offline -p swc-vue-jsx-visitor --test demo 2>&1 | grep -E '^test result' | head -1)
git apply -R $OUT/patch.diff
D0=$(cargo test --offline -p swc-vue-jsx-visitor --test demo 2>&1 | grep -E '^test result' | head -1)
rm -f visitor/tests/demo.rs
git apply $OUT/patch.diff
echo "{\"id\":\"$ID\",\"suite_with_change\":\"$S1\",\"demo_with_change\":\"$D1\",\"demo_without_change\":\"$D0\"}"
