#!/usr/bin/env python3
"""Runs the Kani harnesses of /verif/kani/harness.rs against a scratch copy of /repo's current tree.
usage: kani_check.py <harness>...   prints one JSON line {harness: 'SUCCESSFUL'|'FAILED'|'ERROR', ...}. Never modifies /repo."""
import sys, os, subprocess, shutil, tempfile, json, glob, re, time

VERIF = os.path.dirname(os.path.dirname(os.path.abspath(__file__)))
REPO = os.environ.get('VERIF_REPO', '/repo')
SCRATCH = os.environ.get('VERIF_SCRATCH', '/var/tmp')


def main(harnesses, atoms=False):
    t0 = time.time()
    d = tempfile.mkdtemp(prefix='verif-kani-', dir=SCRATCH)
    out = {}
    try:
        dst = os.path.join(d, 'repo')
        shutil.copytree(REPO, dst, ignore=shutil.ignore_patterns('target', '.git', 'node_modules'))
        lib = os.path.join(dst, 'visitor/src/lib.rs')
        with open(lib, 'a') as f:
            f.write('\n#[cfg(kani)]\nmod verif_kani {\n    include!("%s/kani/harness.rs");\n}\n' % VERIF)
        env = dict(os.environ, CARGO_NET_OFFLINE='true', CARGO_TARGET_DIR=os.path.join(VERIF, '.cache', 'kani-target'))
        if atoms:
            reg = glob.glob(os.path.expanduser('~/.cargo/registry/src/*/'))[0]
            for crate, diff in (('hstr-1.0.0', 'hstr-1.0.0-kani-model.diff'), ('once_cell-1.21.3', 'once_cell-1.21.3-kani-model.diff')):
                cdst = os.path.join(d, crate.rsplit('-', 1)[0] + '-kani')
                shutil.copytree(os.path.join(reg, crate), cdst)
                txt = open(os.path.join(VERIF, 'kani', diff)).read()
                r = subprocess.run(['patch', '-p1', '-d', cdst], input=re.sub(r'^(---|\+\+\+) \S*?/(hstr-1\.0\.0|hstr-kani|once_cell-1\.21\.3|once_cell-kani)/', r'\1 a/', txt, flags=re.M), text=True, capture_output=True)
                if r.returncode != 0:
                    return {'error': 'model crate patch failed: ' + r.stdout[-300:] + r.stderr[-300:]}
            with open(os.path.join(dst, 'Cargo.toml'), 'a') as f:
                f.write('\n[patch.crates-io]\nhstr = { path = "%s/hstr-kani" }\nonce_cell = { path = "%s/once_cell-kani" }\n' % (d, d))
            env['RUSTFLAGS'] = (env.get('RUSTFLAGS', '') + ' --cfg verif_kani_atoms').strip()
        for h in harnesses:
            cmd = ['cargo', 'kani', '--exact', '--harness', 'verif_kani::' + h, '--output-format', 'terse']
            try:
                r = subprocess.run(cmd, cwd=os.path.join(dst, 'visitor'), env=env, capture_output=True, text=True, timeout=int(os.environ.get('VERIF_KANI_TIMEOUT', '900')))
                txt = r.stdout + r.stderr
                if 'VERIFICATION:- SUCCESSFUL' in txt:
                    out[h] = 'SUCCESSFUL'
                elif 'VERIFICATION:- FAILED' in txt:
                    out[h] = 'FAILED'
                    out[h + '_detail'] = [l for l in txt.splitlines() if 'FAILURE' in l or 'Failed Checks' in l][:5]
                else:
                    out[h] = 'ERROR'
                    out[h + '_detail'] = txt[-600:]
            except subprocess.TimeoutExpired:
                out[h] = 'TIMEOUT'
    finally:
        shutil.rmtree(d, ignore_errors=True)
    out['wall_s'] = round(time.time() - t0, 1)
    return out


if __name__ == '__main__':
    args = sys.argv[1:]
    atoms = '--atoms' in args
    args = [a for a in args if a != '--atoms']
    print(json.dumps(main(args, atoms)))
